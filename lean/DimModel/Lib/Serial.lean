/-
Value-level models of the two serialisations (C19):

* JSON: `to_jsondict` / `from_jsondict` (core/dimarraycls.py) - values as nested lists, dims, labels,
  shape, ndim, meta;
* netCDF: `Dataset.write_nc` / `read_nc` (dataset.py, io/nc.py) over an abstract store (`NcStore`):
  dimensions, coordinate variables, data variables with their dimension names, three levels of
  metadata.  The store is the model of the netCDF4 library (in the sandbox: the vendored stand-in).
-/
import DimModel.Prim.Shape
namespace DimModel
namespace Serial

/-- a JSON value (numbers are exact; NaN is what Python's json writes for float('nan')) -/
inductive JVal
  | num (q : Rat)
  | nan
  | str (s : String)
  | null
  | arr (l : List JVal)
  | obj (kv : List (String × JVal))
  deriving Repr, Inhabited

/-- `ndarray.tolist()`: the flat (row-major) cells of an array of shape `s` as nested lists -/
def nest : List Nat → List JVal → JVal
  | [], l => l.headD .null
  | n :: s, l => .arr ((List.range n).map fun i => nest s ((l.drop (i * prod s)).take (prod s)))

/-- shape that `np.asarray` infers from nested lists (first element at every level) -/
def inferShape : Nat → JVal → List Nat
  | 0, _ => []
  | fuel + 1, .arr l => l.length :: (match l with | [] => [] | x :: _ => inferShape fuel x)
  | _, _ => []

/-- row-major flattening of nested lists -/
def flat : Nat → JVal → List JVal
  | 0, v => [v]
  | fuel + 1, .arr l => l.flatMap (flat fuel)
  | _, v => [v]

/-- the JSON-relevant content of a DimArray: scalar cells (num / nan / str), dims, labels, metadata -/
structure JArr where
  shape : List Nat
  cells : List JVal
  dims : List String
  labels : List (List JVal)
  metad : List (String × JVal)
  deriving Repr, Inhabited

def isScalar : JVal → Bool
  | .num _ | .nan | .str _ => true
  | _ => false

/-- arrays whose JSON encoding determines them: cells are scalars, one label list per dimension of the
right length, and no zero-length dimension is followed by another dimension (nested lists cannot
express shape (0, 3)) -/
def Representable (a : JArr) : Prop :=
  a.cells.length = prod a.shape ∧ a.cells.all isScalar = true ∧
  a.dims.length = a.shape.length ∧ a.labels.map List.length = a.shape ∧
  (∀ l ∈ a.labels, l.all isScalar = true) ∧
  (a.shape.dropLast.all (· != 0) = true)

/-- `to_jsondict` -/
def toJson (a : JArr) : JVal :=
  .obj [("values", nest a.shape a.cells),
        ("dims", .arr (a.dims.map JVal.str)),
        ("labels", .arr (a.labels.map JVal.arr)),
        ("shape", .arr (a.shape.map fun (n : Nat) => JVal.num ((n : Int) : Rat))),
        ("ndim", .num ((a.shape.length : Int) : Rat)),
        ("meta", .obj a.metad)]

def field (kv : List (String × JVal)) (k : String) : Option JVal := (kv.find? (·.1 == k)).map (·.2)

/-- `from_jsondict`: values, labels and dims are read back ('shape' and 'ndim' are informative only) -/
def fromJson (j : JVal) : Option JArr :=
  match j with
  | .obj kv =>
    match field kv "values", field kv "dims", field kv "labels", field kv "meta" with
    | some v, some (.arr ds), some (.arr ls), some (.obj m) =>
      let dims := ds.filterMap fun d => match d with | .str s => some s | _ => none
      let labels := ls.filterMap fun l => match l with | .arr x => some x | _ => none
      let shape := inferShape dims.length v
      if dims.length != ds.length || labels.length != ls.length then none
      else if labels.map List.length != shape then none      -- "mismatch between values and axes"
      else some { shape := shape, cells := flat dims.length v, dims := dims, labels := labels, metad := m }
    | _, _, _, _ => none
  | _ => none

/-! ### netCDF -/

structure NcVar where
  name : String
  dims : List String
  cells : List JVal           -- row-major data (numbers, NaN, strings)
  kind : Kind
  attrs : List (String × JVal)
  deriving Repr, Inhabited

/-- the store: named dimensions with their lengths, variables, global attributes -/
structure NcStore where
  dims : List (String × Nat)
  vars : List NcVar
  attrs : List (String × JVal)
  deriving Repr, Inhabited

def NcStore.empty : NcStore := { dims := [], vars := [], attrs := [] }

/-- the content of a Dataset: shared axes (name, labels, kind, metadata), variables (key, dims, cells,
kind, metadata), dataset metadata -/
structure DsAxis where
  name : String
  labels : List JVal
  kind : Kind
  attrs : List (String × JVal)
  deriving Repr, Inhabited

structure DsVar where
  key : String
  dims : List String
  cells : List JVal
  kind : Kind
  attrs : List (String × JVal)
  deriving Repr, Inhabited

structure DsVal where
  axes : List DsAxis
  vars : List DsVar
  attrs : List (String × JVal)
  deriving Repr, Inhabited

/-- `AxesOnDisk.append(ax)` : createDimension + coordinate variable with the labels and the axis metadata -/
def appendAxis (st : NcStore) (ax : DsAxis) : NcStore :=
  if st.dims.any (·.1 == ax.name) then st
  else { st with dims := st.dims ++ [(ax.name, ax.labels.length)],
                 vars := st.vars ++ [{ name := ax.name, dims := [ax.name], cells := ax.labels, kind := ax.kind, attrs := ax.attrs }] }

/-- `DatasetOnDisk.write(name, dima)` for a variable whose axes are already in the store -/
def writeVar (st : NcStore) (v : DsVar) : NcStore :=
  let nv : NcVar := { name := v.key, dims := v.dims, cells := v.cells, kind := v.kind, attrs := v.attrs }
  if st.vars.any (·.name == v.key) then { st with vars := st.vars.map fun w => if w.name == v.key then { nv with attrs := w.attrs ++ v.attrs } else w }
  else { st with vars := st.vars ++ [nv] }

/-- `Dataset.write_nc(f)` into a store (mode 'w': the empty store; mode 'a': an existing one) -/
def writeDs (st : NcStore) (ds : DsVal) : NcStore :=
  let st1 := ds.axes.foldl appendAxis st
  let st2 := ds.vars.foldl writeVar st1
  { st2 with attrs := st2.attrs ++ ds.attrs }

/-- `read_nc(f)`: every dimension becomes an axis (labels and metadata from its coordinate variable),
every other variable a DimArray over its dimensions -/
def readDs (st : NcStore) : DsVal :=
  { axes := st.dims.filterMap fun (d, _) =>
      (st.vars.find? (·.name == d)).map fun cv => { name := d, labels := cv.cells, kind := cv.kind, attrs := cv.attrs }
    vars := (st.vars.filter fun v => !st.dims.any (·.1 == v.name)).map fun v =>
      { key := v.name, dims := v.dims, cells := v.cells, kind := v.kind, attrs := v.attrs }
    attrs := st.attrs }

/-- a dataset as the library builds it: distinct axis names, distinct keys, no key equal to a
dimension name, every variable dimension is a dataset axis -/
def DsVal.WF (ds : DsVal) : Prop :=
  (ds.axes.map (·.name)).Nodup ∧ (ds.vars.map (·.key)).Nodup ∧
  (∀ v ∈ ds.vars, ∀ ax ∈ ds.axes, v.key ≠ ax.name) ∧
  (∀ v ∈ ds.vars, ∀ d ∈ v.dims, ∃ ax ∈ ds.axes, ax.name = d)

end Serial
end DimModel

/-
Mirrors of two read forms of `AbstractDimArray._getitem` (dimarray/core/bases.py) that `Lib.take` (Lib/GetSet.lean) leaves out:

* a boolean array (ndarray or DimArray) of rank > 1 as the index - `a[mask]`, `a.loc[mask]`, `a.iloc[mask]`, `a.ix[mask]`,
  `a.take(mask, indexing=..., tol=...)`:
  ```
  if self._is_boolean_index_nd(indices):        # hasattr dtype, ndim; dtype.kind == 'b' and ndim > 1
      return self.compress(indices)             # BEFORE `_get_indices`: mode, tolerance and `axis=` are never looked at
  ```
  A boolean array of rank 1 is not caught by the test: it is the ordinary 1-D mask on the first dimension (`Ix.mask`).
  (A rank-0 boolean array as index is outside the model.)

* an `Axes` object as the index - `a[other.axes]`, `a.take(axes)` (`_get_indices`):
  ```
  if axis not in (0, None): indices = {axis: indices}
  elif isinstance(indices, AbstractAxes):
      indices = {ax.name: ax.values for ax in indices}       # then the dict form: names looked up in self.dims
  ```
  i.e. the mapping from each held axis' name to the ARRAY of its labels (an ndarray request = `Ix.list`), later axes of the
  same name overwriting earlier ones as in any dict. In position mode the "labels" are read as positions.
-/
import DimModel.Lib.GetSet
import DimModel.Lib.Missing2
namespace DimModel
namespace Lib

/-- the 1-D reading of a boolean array of rank 1 -/
def maskBits (mask : NDArr Bool) : List Bool := (List.range (mask.shape.getD 0 0)).map fun i => mask.get [i]

/-- `_getitem(mask, ...)` with a boolean array as index, in every spelling and configuration -/
def takeMaskNd {α} (a : DimArray α) (mask : NDArr Bool) (cfg : IndexCfg) : Except Err (Sum (DimArray α) (TupleArr α)) :=
  if 1 < mask.shape.length then compressNd a mask
  else (take a (.tuple [.mask (maskBits mask)]) cfg).map .inl

/-- `{ax.name: ax.values for ax in indices}` -/
def axesIndex (idx : List Axis) : UserIndex := .dict (idx.map fun ax => (DimKey.name ax.name, Ix.list ax.labels))

/-- `_getitem(axes_object, ...)` -/
def takeAxesIndex {α} (a : DimArray α) (idx : List Axis) (cfg : IndexCfg) : Except Err (DimArray α) :=
  take a (axesIndex idx) cfg

end Lib
end DimModel

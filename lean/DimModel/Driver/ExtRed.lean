/-
Driver extension for the concrete fibre semantics of the reductions (Lib/Reduce.lean): op "redx".
Request: {"op": "redx", "arrays": [array], "xvals": [cell ...] (row-major; "nan" | "inf" | "-inf" | ["n", num, den]),
          "fn": name, "skipna": bool, "axis": null | ["name", d] | ["pos", k] | ["many", [...]]}
Answer:  {"lib": {"ok": {"scalar": cell} | {"flat": [cell ...]} | {"dims", "shape", "axes", "attrs", "cells"}} | {"err": class}}
-/
import DimModel.Driver.Codec
import DimModel.Lib.Reduce
open Lean
namespace DimModel.Driver
open DimModel.Codec Lib

def xvalOf (j : Json) : P XVal := do
  match j with
  | .str "nan" => pure .nan
  | .str "inf" => pure .pinf
  | .str "-inf" => pure .ninf
  | _ =>
    let a ← arr j
    match a.toList with
    | [_, n, d] => do pure (.fin (ratOf (← int n) (← nat d)))
    | _ => throw "bad xval"

def encXVal : XVal → Json
  | .nan => "nan"
  | .pinf => "inf"
  | .ninf => "-inf"
  | .fin q => Json.arr ((#[Json.str "n"] : Array Json) ++ (encRat q).toArray)

def encXArray (a : DimArray XVal) : Json :=
  Json.mkObj [("dims", Json.arr (a.dims.map Json.str).toArray),
              ("axes", Json.arr (a.axes.map encAxis).toArray),
              ("shape", encNats a.vals.shape),
              ("attrs", encAttrs a.attrs),
              ("cells", Json.arr (a.vals.toList.map encXVal).toArray)]

def axisArgX (j : Json) : P AxisArg := do
  if j.isNull then pure .none else
  let a ← arr j
  match a.toList with
  | [t, v] =>
    match (← str t) with
    | "many" => do pure (.many (← listOf dimKey v))
    | _ => do pure (.one (← dimKey j))
  | _ => throw "bad axis arg"

def handleRedX (req : Json) : P (List (String × Json)) := do
  let as ← arrays req
  let a0 ← match as with | a :: _ => pure a | [] => throw "no array"
  let xs ← listOf xvalOf (← fld req "xvals")
  let shape := a0.vals.shape
  let a : DimArray XVal := { axes := a0.axes, vals := { shape := shape, get := fun j => xs.getD (ravel shape j) .nan },
                             vkind := a0.vkind, attrs := a0.attrs }
  let fn ← str (← fld req "fn")
  let skipna ← bool (fldD req "skipna" (Json.bool false))
  let ax ← axisArgX (fldD req "axis" Json.null)
  match selectRed fn skipna, selectScan fn skipna with
  | some f, _ =>
    pure [("lib", match reduceX f a ax with
      | .error e => Json.mkObj [("err", encErr e)]
      | .ok (.inl c) => Json.mkObj [("ok", Json.mkObj [("scalar", encXVal c)])]
      | .ok (.inr r) => Json.mkObj [("ok", encXArray r)])]
  | none, some scan =>
    pure [("lib", match cumAxis scan a ax with
      | .error e => Json.mkObj [("err", encErr e)]
      | .ok (.inl l) => Json.mkObj [("ok", Json.mkObj [("flat", Json.arr (l.map encXVal).toArray)])]
      | .ok (.inr r) => Json.mkObj [("ok", encXArray r)])]
  | none, none => throw s!"redx: no model of {fn}"

end DimModel.Driver

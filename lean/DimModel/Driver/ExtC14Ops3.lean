/-
Driver extension "c14ops3" (property C14): the Dataset operations mirrored in Lib/DatasetOps3.lean.
`dsOpExt3 fn req` is consulted by the "ds_op" handler of Driver/Main.lean for the operation names it does not know;
names it does not know either are passed on to `dsOpExt` (Driver/ExtC14Ops.lean).
-/
import DimModel.Driver.ExtC14Ops
import DimModel.Lib.DatasetOps3
open Lean
namespace DimModel.Driver
open DimModel.Codec

def takeModeArg (j : Json) : P Lib.TakeMode := do
  match (← str j) with
  | "raise" => pure .raise
  | "clip" => pure .clip
  | "wrap" => pure .wrap
  | k => throw s!"bad take mode {k}"

/-- operations of the extension, by the `fn` of the request:
* `"take_axis_pos"`: `Dataset.take_axis(positions, axis, indexing='position', mode=)` - "positions" are raw integers,
  "axis" a name or a position among the Dataset's dimensions (`DSV.takeAxisIntsDs`);
* `"reindex_axis_m"`: `Dataset.reindex_axis(labels, axis=dim, fill_value, raise_error=, method=)` (`DSV.reindexAxisDsM`);
* `"reduce_all"`: `Dataset.<reduction>(axis=None)` (`DSV.reduceAllDs`) -/
def dsOpExt3 (fn : String) (req : Json) : P (Option DsFn) :=
  match fn with
  | "take_axis_pos" => do
    let name ← str (fldD req "dim" (Json.str ""))
    let axisKey ← optOf dimKey (fldD req "axis" Json.null)
    let ps ← listOf int (fldD req "positions" (Json.arr #[]))
    let mode ← takeModeArg (fldD req "mode" (Json.str "raise"))
    pure (some fun ds _ => DSV.takeAxisIntsDs ds (axisKey.getD (.name name)) ps mode)
  | "reindex_axis_m" => do
    let name ← str (fldD req "dim" (Json.str ""))
    let labels ← listOf label (fldD req "labels" (Json.arr #[]))
    let nk ← kind (fldD req "newkind" (Json.str "f"))
    let fk ← kind (fldD req "fillkind" (Json.str "f"))
    let re ← bool (fldD req "raise_error" (Json.bool false))
    let m ← optOf side (fldD req "method" Json.null)
    pure (some fun ds _ => DSV.reindexAxisDsM ds name labels nk Cell.fill fk re m)
  | "reduce_all" => pure (some fun ds _ => DSV.reduceAllDs Cell.nan Cell.red ds)
  | _ => dsOpExt fn req

end DimModel.Driver

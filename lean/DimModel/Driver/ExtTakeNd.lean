/-
Driver extension for Lib/TakeNd.lean (C01: a full-shape boolean array / an Axes object as the index of a read).
  {"op": "take_mask_nd", "arrays": [array], "mshape": [n ...], "mask": [bool ...] (row-major), "cfg": cfg}
     -> {"lib": {"ok": {"array": array} | {"tuple": {"name", "coords", "cells", "vkind", "attrs"}}} | {"err": class}}
  {"op": "take_axes", "arrays": [array], "axes": [[name, [label ...]] ...], "cfg": cfg}
     -> {"lib": {"ok": array} | {"err": class}}
-/
import DimModel.Driver.Codec
import DimModel.Driver.ExtSel
import DimModel.Lib.TakeNd
open Lean
namespace DimModel.Driver
open DimModel.Codec Lib

def handleTakeNd (op : String) (req : Json) : Option (P (List (String × Json))) :=
  match op with
  | "take_mask_nd" => some do
    let as ← arrays req
    let a ← match as with | a :: _ => pure a | [] => throw "no array"
    let mshape ← listOf nat (← fld req "mshape")
    let bits ← listOf bool (← fld req "mask")
    let cfg ← indexCfg (fldD req "cfg" (Json.mkObj []))
    let mask : NDArr Bool := { shape := mshape, get := fun j => bits.getD (ravel mshape j) false }
    pure [("lib", encExcept (fun r => match r with
      | .inl d => Json.mkObj [("array", encDimArray d)]
      | .inr t => Json.mkObj [("tuple", encTupleArr t)]) (takeMaskNd a mask cfg))]
  | "take_axes" => some do
    let as ← arrays req
    let a ← match as with | a :: _ => pure a | [] => throw "no array"
    let cfg ← indexCfg (fldD req "cfg" (Json.mkObj []))
    let idx ← listOf (fun r => do
      let p ← arr r
      match p.toList with
      | [n, ls] => do
        let labels ← listOf label ls
        pure ({ name := (← str n), labels := labels, kind := .O } : Axis)
      | _ => throw "bad axis") (← fld req "axes")
    pure [("lib", encExcept encDimArray (takeAxesIndex a idx cfg))]
  | _ => none

end DimModel.Driver

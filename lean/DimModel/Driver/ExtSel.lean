/-
Driver extension for Lib/Missing2.lean.
  {"op": "sort_axis_key", "arrays": [array], "axis": ["name", d] | ["pos", k],
   "key": ["ident"] | ["neg"] | ["abs"] | ["len"] | ["rev"] | ["const"] | ["mod", m] | ["table", [[label, label] ...]]}
     -> {"lib": {"ok": array} | {"err": class}}
  {"op": "compress_nd", "arrays": [array], "mshape": [n ...], "mask": [bool ...] (row-major)}
     -> {"lib": {"ok": {"array": array} | {"tuple": {"name", "coords": [[label ...] ...], "cells", "vkind", "attrs"}}} | {"err": class}}
-/
import DimModel.Driver.Codec
import DimModel.Lib.Missing2
open Lean
namespace DimModel.Driver
open DimModel.Codec Lib

def keyFnOf (j : Json) : P KeyFn := do
  let a ← arr j
  match a.toList with
  | [t] =>
    match (← str t) with
    | "ident" => pure .ident | "neg" => pure .neg | "abs" => pure .abs | "len" => pure .len
    | "rev" => pure .rev | "const" => pure .const
    | k => throw s!"bad key {k}"
  | [t, x] =>
    match (← str t) with
    | "mod" => do pure (.modn (← nat x))
    | "table" => do
      let rows ← listOf (fun r => do
        let p ← arr r
        match p.toList with
        | [u, v] => do pure ((← label u), (← label v))
        | _ => throw "bad table row") x
      pure (.table rows)
    | k => throw s!"bad key {k}"
  | _ => throw "bad key"

def encTupleArr (t : TupleArr Cell) : Json :=
  Json.mkObj [("name", Json.str t.name),
              ("coords", Json.arr (t.coords.map fun c => Json.arr (c.map encLabel).toArray).toArray),
              ("cells", Json.arr (t.cells.map encCell).toArray),
              ("vkind", encKind t.vkind), ("attrs", encAttrs t.attrs)]

def handleSel (op : String) (req : Json) : Option (P (List (String × Json))) :=
  match op with
  | "sort_axis_key" => some do
    let as ← arrays req
    let a ← match as with | a :: _ => pure a | [] => throw "no array"
    let ax ← dimKey (← fld req "axis")
    let key ← keyFnOf (← fld req "key")
    pure [("lib", encExcept encDimArray (sortAxisKey a ax key.eval))]
  | "compress_nd" => some do
    let as ← arrays req
    let a ← match as with | a :: _ => pure a | [] => throw "no array"
    let mshape ← listOf nat (← fld req "mshape")
    let bits ← listOf bool (← fld req "mask")
    let mask : NDArr Bool := { shape := mshape, get := fun j => bits.getD (ravel mshape j) false }
    pure [("lib", encExcept (fun r => match r with
      | .inl d => Json.mkObj [("array", encDimArray d)]
      | .inr t => Json.mkObj [("tuple", encTupleArr t)]) (compressNd a mask))]
  | _ => none

end DimModel.Driver

/-
Line-protocol driver: one JSON request per line on stdin, one JSON answer per line on stdout.
-/
import DimModel.Driver.Codec
import DimModel.Spec.C01
import DimModel.Spec.C02
import DimModel.Spec.C07
import DimModel.Lib.Init
import DimModel.Lib.Reshape
import DimModel.Lib.Operation
import DimModel.Lib.Join
import DimModel.Lib.Transform
import DimModel.Lib.Missing
import DimModel.Lib.Stats
import DimModel.Lib.Dataset
import DimModel.Lib.Interp
import DimModel.Lib.OnDisk
import DimModel.Lib.Heap
import DimModel.Lib.DatasetOps
import DimModel.Lib.DatasetInterp
import DimModel.Lib.InterpLike
import DimModel.Driver.ExtRed
import DimModel.Driver.ExtCache
import DimModel.Driver.ExtMulti
import DimModel.Driver.ExtSel
import DimModel.Driver.ExtGrouped
import DimModel.Driver.ExtHeap
import DimModel.Driver.ExtOpVals
import DimModel.Driver.ExtTakeNd
import DimModel.Driver.ExtHeapFlat
import DimModel.Lib.DatasetCtor
import DimModel.Driver.ExtC14Ops
import DimModel.Driver.ExtC14Ops4
open Lean
namespace DimModel.Driver
open DimModel.Codec

def optKeys (j : Json) : P (Option (List DimKey)) := optOf (listOf dimKey) j


/-! heap histories (C15) -/
def attrSpec (j : Json) : P (List (String × Option (List String))) :=
  listOf (fun e => do
    let a ← arr e
    match a.toList with
    | [k, v] => do pure ((← str k), (← optOf (listOf str) v))
    | _ => throw "bad attr spec") j

def heapMut (j : Json) : P Heap.Mut := do
  let a ← arr j
  match a.toList with
  | [t, x, y] =>
    match (← str t) with
    | "set_val" => do pure (.setVal (← nat x) (← int y))
    | "rename" => do pure (.rename (← nat x) (← str y))
    | "set_attr" => do pure (.setAttr (← str x) (← str y))
    | "append_attr" => do pure (.appendAttr (← str x) (← str y))
    | t => throw s!"bad mutation {t}"
  | [t, x, y, z] =>
    match (← str t) with
    | "set_label" => do pure (.setLabel (← nat x) (← nat y) (← int z))
    | "set_axis_attr" => do pure (.setAxisAttr (← nat x) (← str y) (← str z))
    | "append_axis_attr" => do pure (.appendAxisAttr (← nat x) (← str y) (← str z))
    | t => throw s!"bad mutation {t}"
  | _ => throw "bad mutation"

def heapOp (j : Json) : P Heap.Op := do
  let a ← arr j
  match a.toList with
  | t :: rest =>
    match (← str t), rest with
    | "create", [shape, cells, axes, attrs] => do
      let axs ← listOf (fun e => do
        let x ← arr e
        match x.toList with
        | [n, l, ats] => do pure ((← str n), (← listOf int l), (← attrSpec ats))
        | _ => throw "bad axis spec") axes
      pure (.create (← listOf nat shape) (← listOf int cells) axs (← attrSpec attrs))
    | "copy", [k] => do pure (.copy (← nat k))
    | "transpose", [k, p] => do pure (.transpose (← nat k) (← listOf nat p))
    | "squeeze", [k] => do pure (.squeeze (← nat k))
    | "slice_all", [k] => do pure (.sliceAll (← nat k))
    | "take_scalar", [k, d, p] => do pure (.takeScalar (← nat k) (← nat d) (← nat p))
    | "take_list", [k, d, ps] => do pure (.takeList (← nat k) (← nat d) (← listOf nat ps))
    | "add", [k, c] => do pure (.addScalar (← nat k) (← int c))
    | "sort_axis", [k, d] => do pure (.sortAxis (← nat k) (← nat d))
    | "mut", [k, m] => do pure (.mut (← nat k) (← heapMut m))
    | t, _ => throw s!"bad heap op {t}"
  | [] => throw "empty heap op"

def encAVals (l : List (String × Heap.AVal)) : Json :=
  Json.arr (l.map fun (k, v) => Json.arr #[Json.str k, match v with
    | .atom s => Json.arr #[Json.str "atom", Json.str s]
    | .list items => Json.arr #[Json.str "list", Json.arr (items.map Json.str).toArray]
    | .dangling => Json.arr #[Json.str "dangling"]]).toArray

def encArrObs : Option Heap.ArrObs → Json
  | none => Json.null
  | some o => Json.mkObj [("shape", encNats o.shape), ("values", encInts o.values),
      ("axes", Json.arr (o.axes.map fun ax => Json.mkObj [("name", Json.str ax.name), ("labels", encInts ax.labels),
          ("attrs", encAVals ax.attrs)]).toArray),
      ("attrs", encAVals o.attrs)]


/-! Dataset operations by value (C14) -/
def encDs (ds : DSV.Ds Cell) : Json :=
  Json.mkObj [("keys", Json.arr (ds.keys.map Json.str).toArray), ("dims", Json.arr (ds.dims.map Json.str).toArray),
    ("axes", Json.arr (ds.axes.map encAxis).toArray),
    ("vars", Json.mkObj (ds.vars.map fun kv => (kv.1, encDimArray kv.2))), ("attrs", encAttrs ds.attrs)]

/-- one step of an operation chain applied to an array (C10, C11, C05 histories) -/
def applyStep (a : DimArray Cell) (st : Json) : P (Except Err (DimArray Cell)) := do
  match (← str (← fld st "fn")) with
  | "transpose" => do pure (Lib.transpose a (← optKeys (fldD st "dims" Json.null)))
  | "swapaxes" => do pure (Lib.swapaxes a (← dimKey (← fld st "a1")) (← dimKey (← fld st "a2")))
  | "rollaxis" => do pure (Lib.rollaxis a (← dimKey (← fld st "axis")) (← int (fldD st "start" (Json.num 0))))
  | "newaxis" => do
    pure (Lib.newaxis a (← str (← fld st "name")) (← int (fldD st "pos" (Json.num 0))) (← optOf axis (fldD st "values" Json.null)))
  | "squeeze" => do pure (Lib.squeeze a (← optOf dimKey (fldD st "axis" Json.null)))
  | "repeat" => do pure (Lib.repeatAxis a (← axis (← fld st "values")) (← dimKey (← fld st "axis")))
  | "broadcast" => do pure (Lib.broadcast a (← listOf axis (← fld st "target")))
  | "flatten" => do pure (Lib.flatten a (← listOf str (← fld st "dims")) (← optOf nat (fldD st "insert" Json.null)))
  | "unflatten" => pure (.ok (Lib.unflattenAll a))
  | "reshape" => do pure (Lib.reshape a (← listOf str (← fld st "newdims")))
  | "take" => do
    pure (Lib.take a (← userIndex (← fld st "index")) (← indexCfg (fldD st "cfg" (Json.mkObj []))))
  | "sort_axis" => do pure (Lib.sortAxis a (← dimKey (← fld st "axis")))
  | "reindex" => do
    pure (Lib.reindexAxis a (← dimKey (← fld st "axis")) (← listOf label (← fld st "labels")) (← kind (← fld st "newkind"))
      Cell.nan .f false none)
  | f => throw s!"unknown step {f}"

def axisArg (j : Json) : P Lib.AxisArg := do
  if j.isNull then pure .none else
  let a ← arr j
  match a.toList with
  | [t, v] =>
    match (← str t) with
    | "many" => do pure (.many (← listOf dimKey v))
    | _ => do pure (.one (← dimKey j))
  | _ => throw "bad axis arg"

def encSum (r : Except Err (Sum Cell (DimArray Cell))) : Json :=
  match r with
  | .error e => Json.mkObj [("err", encErr e)]
  | .ok (.inl c) => Json.mkObj [("ok", Json.mkObj [("scalar", encCell c)])]
  | .ok (.inr a) => Json.mkObj [("ok", encDimArray a)]

def ratPair (j : Json) : P Rat := do
  let a ← arr j
  match a.toList with
  | [n, d] => do pure (ratOf (← int n) (← nat d))
  | _ => throw "bad rational"

/-- the `pct` argument of lib.stats.percentile: {"form": "scalar", "q": [n, d]} | {"form": "many", "qs": [[n, d] ...], "kind": k} -/
def pctArg (j : Json) : P Lib.PctArg := do
  match (← str (← fld j "form")) with
  | "scalar" => do pure (.scalar (← ratPair (← fld j "q")))
  | "many" => do pure (.many (← listOf ratPair (← fld j "qs")) (← kind (fldD j "kind" (Json.str "f"))))
  | f => throw s!"bad pct form {f}"

def isNanCell : Cell → Bool
  | .nan => true
  | _ => false

/-- along-axis transforms and missing-value handling (C08, C09, C17) -/
def transformOp (a : DimArray Cell) (req : Json) : P Json := do
  match (← str (← fld req "fn")) with
  | "reduce" => do pure (encSum (Lib.reduceAxis Cell.red a (← axisArg (fldD req "axis" Json.null))))
  | "cum" => do
    match Lib.cumAxis Cell.scan a (← axisArg (fldD req "axis" Json.null)) with
    | .error e => pure (Json.mkObj [("err", encErr e)])
    | .ok (.inl l) => pure (Json.mkObj [("ok", Json.mkObj [("flat", Json.arr (l.map encCell).toArray)])])
    | .ok (.inr r) => pure (Json.mkObj [("ok", encDimArray r)])
  | "diff" => do
    let sch ← match (← str (fldD req "scheme" (Json.str "backward"))) with
      | "backward" => pure Lib.Scheme.backward | "forward" => pure Lib.Scheme.forward | "centered" => pure Lib.Scheme.centered
      | s => throw s!"bad scheme {s}"
    pure (encExcept encDimArray (Lib.diffAxis Cell.sub Cell.nan a (← axisArg (fldD req "axis" Json.null)) sch
      (← bool (fldD req "keepaxis" (Json.bool false))) (← nat (fldD req "n" (Json.num 1)))))
  | "arg" => do pure (encSum (Lib.argAxis Cell.arg a (← axisArg (fldD req "axis" Json.null))))
  | "percentile" => do
    -- lib.stats.percentile(a, pct, axis, newaxis): cells are symbolic percentiles `redp q fibre`
    pure (encSum (Lib.percentile Cell.nan Cell.redp a (← pctArg (← fld req "pct")) (← axisArg (fldD req "axis" Json.null))
      (← optOf str (fldD req "newaxis" Json.null))))
  | "quantile" => do
    pure (encSum (Lib.quantile Cell.nan Cell.redp a (← listOf ratPair (← fld req "q")) (← kind (fldD req "qkind" (Json.str "f")))
      (← axisArg (fldD req "axis" Json.null)) (← optOf str (fldD req "newaxis" Json.null))))
  | "argwhole" =>
    -- argmin() / argmax() over the whole array: one symbolic label cell per dimension
    pure (match Lib.argWhole Cell.arg a with
      | .error e => Json.mkObj [("err", encErr e)]
      | .ok l => Json.mkObj [("ok", Json.mkObj [("tuple", Json.arr (l.map encCell).toArray)])])
  | "take_axis" => do
    let m ← mode (fldD req "indexing" (Json.str "label"))
    pure (encExcept encDimArray (Lib.takeAxis a (← listOf label (← fld req "indices")) (← dimKey (← fld req "axis")) m
      (← bool (fldD req "clip" (Json.bool false)))))
  | "compress_axis" => do
    pure (encExcept encDimArray (Lib.compressAxis a (← listOf bool (← fld req "mask")) (← dimKey (← fld req "axis"))))
  | "dropna" => do
    pure (encExcept encDimArray (Lib.dropna isNanCell a (← dimKey (← fld req "axis")) (← optOf nat (fldD req "minvalid" Json.null))))
  | "fillna" => do
    pure (Json.mkObj [("ok", encDimArray (Lib.fillna isNanCell a Cell.fill (← kind (fldD req "fillkind" (Json.str "f")))))])
  | "setna" => do
    let hits ← listOf nat (← fld req "hits")
    pure (Json.mkObj [("ok", encDimArray (Lib.setna (fun j => hits.contains (ravel a.vals.shape j)) Cell.nan a))])
  | "interp" => do
    pure (encExcept encDimArray (Lib.interpAxis (fun a b w => Cell.lin a b w) a (← dimKey (← fld req "axis"))
      (← listOf label (← fld req "labels")) (← kind (fldD req "newkind" (Json.str "f"))) Cell.fill Cell.fill2))
  | "interp_like" => do
    -- C18: interp_like(other, left, right); "template" = the axes of `other`
    pure (encExcept encDimArray (Lib.interpLike (fun a b w => Cell.lin a b w) a (← listOf axis (← fld req "template"))
      Cell.fill Cell.fill2))
  | f => throw s!"unknown transform {f}"

def dsOp (j : Json) : P DS.Op := do
  let lk (j : Json) : P (String × List Label × Kind) := do
    pure ((← str (← fld j "name")), (← listOf label (← fld j "labels")), (← kind (← fld j "kind")))
  match (← str (← fld j "op")) with
  | "set" => do pure (.setVar (← str (← fld j "key")) (← listOf lk (← fld j "axes")))
  | "del" => do pure (.delVar (← str (← fld j "key")))
  | "rename_axis" => do pure (.renameAxis (← dimKey (← fld j "d")) (← str (← fld j "new")))
  | "set_dims" => do pure (.setDims (← listOf str (← fld j "names")))
  | "set_label" => do pure (.setLabel (← dimKey (← fld j "d")) (← int (← fld j "i")) (← label (← fld j "label")) (← kind (← fld j "lkind")))
  | "set_labels" => do pure (.setLabels (← dimKey (← fld j "d")) (← listOf label (← fld j "labels")) (← kind (← fld j "lkind")))
  | "replace_axis" => do pure (.replaceAxis (← dimKey (← fld j "d")) (← listOf label (← fld j "labels")) (← kind (← fld j "lkind")))
  | "rename_key" => do pure (.renameKey (← str (← fld j "old")) (← str (← fld j "new")))
  | "append_axis" => do pure (.appendAxis (← str (← fld j "name")) (← listOf label (← fld j "labels")) (← kind (← fld j "kind")))
  | "rename_via_var" => do pure (.renameViaVar (← str (← fld j "key")) (← dimKey (← fld j "d")) (← str (← fld j "new")))
  | o => throw s!"unknown ds op {o}"

def encDS (s : DS.State) (res : Except Err Unit) : Json :=
  Json.mkObj [
    ("err", match res with | .ok _ => Json.null | .error e => encErr e),
    ("keys", Json.arr (s.vars.map (fun v => Json.str v.1)).toArray),
    ("dims", Json.arr (s.axes.map (fun ax => Json.str ax.name)).toArray),
    ("labels", Json.arr (s.axes.map (fun ax => Json.arr (ax.labels.map encLabel).toArray)).toArray),
    ("vars", Json.mkObj (s.vars.map fun v => (v.1, Json.arr (v.2.map (fun i => Json.str (DS.nameOf s i))).toArray))),
    ("shared", Json.mkObj (s.vars.map fun v => (v.1, Json.arr (v.2.map (fun i => Json.bool (s.axes.any (·.id == i)))).toArray)))]

/-- the variables of one Dataset of a request; the cells of variable `k` are `src (off + k) i` -/
def arraysFrom (off : Nat) (j : Json) : P (List (DimArray Cell)) := do
  let a ← arr (fldD j "arrays" (Json.arr #[]))
  (a.toList.zipIdx).mapM (fun (x, k) => dimArray (off + k) x)

/-- a Dataset of a request ("keys", "arrays", "attrs"), built variable by variable with `__setitem__`; returns the
source index after its last variable -/
def dsArg (off : Nat) (j : Json) : P (Nat × Except Err (DSV.Ds Cell)) := do
  let as ← arraysFrom off j
  let keys ← listOf str (← fld j "keys")
  let dsattrs ← attrs (fldD j "attrs" (Json.arr #[]))
  let built := (keys.zip as).foldlM (fun (ds : DSV.Ds Cell) kv => DSV.setItem ds kv.1 kv.2) {}
  pure (off + as.length, built.map fun ds0 => { ds0 with attrs := dsattrs })

/-- handlers: request → answer fields -/
def handle (op : String) (req : Json) : P (List (String × Json)) := do
  match op with
  | "loc" => do
    -- Axis.loc(ix, tol=..., mode=...) on one axis
    let ax ← axis (← fld req "axis")
    let i ← ix (← fld req "ix")
    let t ← optOf tol (fldD req "tol" Json.null)
    let clip ← bool (fldD req "clip" (Json.bool false))
    let r := Lib.loc ax.labels ax.kind i t clip
    let pos := r.bind (fun raw => Lib.resolveRaw raw ax.size)
    let spec : Json := match i with
      | .slice s e st => (match Spec.sliceSel ax.labels ax.kind s e st with
          | some ps => encNats ps
          | none => Json.str "error")
      | _ => (match Spec.positions ax.labels i with
          | some (PosIx.scalar k) => encNats [k]
          | some (PosIx.list ps) => encNats ps
          | none => Json.str "error")
    pure [("lib", encExcept encRaw r), ("spec", spec),
          ("positions", encExcept (fun p => match p with
              | PosIx.scalar k => Json.arr #["sc", Json.num (JsonNumber.fromNat k)]
              | PosIx.list ps => Json.arr #["li", encNats ps]) pos)]
  | "take" => do
    let as ← arrays req
    let a ← match as with | a :: _ => pure a | [] => throw "no array"
    let ui ← userIndex (← fld req "index")
    let cfg ← indexCfg (fldD req "cfg" (Json.mkObj []))
    pure [("lib", encExcept encDimArray (Lib.take a ui cfg))]
  | "reindex" => do
    let as ← arrays req
    let a ← match as with | a :: _ => pure a | [] => throw "no array"
    let ax ← dimKey (← fld req "axis")
    let newL ← listOf label (← fld req "labels")
    let nk ← kind (← fld req "newkind")
    let fk ← kind (← fld req "fillkind")
    let re ← bool (fldD req "raise" (Json.bool false))
    let m ← optOf side (fldD req "method" Json.null)
    let r := Lib.reindexAxis a ax newL nk Cell.fill fk re m
    -- the spec speaks about labels and values only
    let spec : Json := match Lib.axisPos a.axes ax with
      | .ok pos => Json.mkObj [("labels", Json.arr (newL.map encLabel).toArray),
                               ("cells", Json.arr ((Spec.reindexVals a pos newL Cell.fill).toList.map encCell).toArray)]
      | .error _ => Json.null
    pure [("lib", encExcept encDimArray r), ("spec", spec)]
  | "reindex_like" => do
    let as ← arrays req
    let a ← match as with | a :: _ => pure a | [] => throw "no array"
    let tmpl ← listOf axis (← fld req "template")
    let fk ← kind (← fld req "fillkind")
    let re ← bool (fldD req "raise" (Json.bool false))
    let m ← optOf side (fldD req "method" Json.null)
    pure [("lib", encExcept encDimArray (Lib.reindexLike a tmpl Cell.fill fk re m))]
  | "construct_group" => do
    let shape ← listOf nat (← fld req "shape")
    let vk ← kind (fldD req "vkind" (Json.str "f"))
    let lk (j : Json) : P (List Label × Kind) := do
      pure ((← listOf label (← fld j "labels")), (← kind (← fld j "kind")))
    let named (j : Json) : P (String × List Label × Kind) := do
      let x ← lk j; pure ((← str (← fld j "name")), x.1, x.2)
    let one (v : Json) : P Json := do
      let dims ← optOf (listOf str) (fldD v "dims" Json.null)
      let argj ← fld v "arg"
      let items ← arr (fldD argj "items" (Json.arr #[]))
      let arg ← match (← str (← fld argj "form")) with
        | "none" => pure Lib.AxesArg.none
        | "lists" => do pure (Lib.AxesArg.lists (← items.toList.mapM lk))
        | "pairs" => do pure (Lib.AxesArg.pairs (← items.toList.mapM named))
        | "objs" => do pure (Lib.AxesArg.objs (← items.toList.mapM axis))
        | "dict" => do pure (Lib.AxesArg.dict (← items.toList.mapM named))
        | "names" => do pure (Lib.AxesArg.names (← items.toList.mapM str))
        | f => throw s!"bad axes form {f}"
      let vals : NDArr Cell := { shape := shape, get := fun i => Cell.src 0 (ravel shape i) }
      pure (encExcept encDimArray (Lib.construct vals vk arg dims))
    let vs ← arr (← fld req "variants")
    let rs ← vs.toList.mapM one
    pure [("lib", Json.arr rs.toArray)]
  | "chain" => do
    let as ← arrays req
    let a ← match as with | a :: _ => pure a | [] => throw "no array"
    let steps ← arr (← fld req "steps")
    let mut cur : Except Err (DimArray Cell) := .ok a
    let mut trace : List Json := []
    for st in steps.toList do
      match cur with
      | .ok x =>
        cur ← applyStep x st
        trace := trace ++ [encExcept (fun (y : DimArray Cell) => Json.mkObj [("dims", Json.arr (y.dims.map Json.str).toArray), ("shape", encNats y.vals.shape)]) cur]
      | .error _ => pure ()
    pure [("lib", encExcept encDimArray cur), ("trace", Json.arr trace.toArray)]
  | "multi" => do
    -- functions of several arrays returning several arrays
    let as ← arrays req
    match (← str (← fld req "fn")) with
    | "broadcast_arrays" => pure [("lib", encExcept (fun l => Json.arr (l.map encDimArray).toArray) (Lib.broadcastArrays as))]
    | "align_dims" => pure [("lib", encExcept (fun l => Json.arr (l.map encDimArray).toArray) (Lib.alignDims as))]
    | f => throw s!"unknown multi fn {f}"
  | "put" => do
    let as ← arrays req
    let a ← match as with | a :: _ => pure a | [] => throw "no array"
    let rk ← kind (fldD req "rkind" (Json.str "f"))
    let cast ← bool (fldD req "cast" (Json.bool false))
    match (← optOf (listOf bool) (fldD req "boolnd" Json.null)) with
    | some m =>
      let mask : NDArr Bool := { shape := a.vals.shape, get := fun i => m.getD (ravel a.vals.shape i) false }
      pure [("lib", encExcept encDimArray (Lib.putBool a mask (Cell.rhs 0) rk cast))]
    | none =>
      let ui ← userIndex (← fld req "index")
      let cfg ← indexCfg (fldD req "cfg" (Json.mkObj []))
      let rhs : RHS Cell ← match (← optOf (listOf nat) (fldD req "rshape" Json.null)) with
        | none => pure (RHS.scalar (Cell.rhs 0))
        | some shape => pure (RHS.arr { shape := shape, get := fun i => Cell.rhs (ravel shape i) })
      let r := Lib.put a ui rhs rk cfg cast
      -- reading back the same index
      let rb := r.bind (fun x => Lib.take x ui cfg)
      pure [("lib", encExcept encDimArray r), ("readback", encExcept encDimArray rb)]
  | "ds_history" => do
    let ops ← listOf dsOp (← fld req "ops")
    let mut st := DS.init
    let mut out : List Json := []
    for op in ops do
      let (st', res) := DS.step st op
      st := st'
      out := out ++ [encDS st res]
    pure [("lib", Json.arr out.toArray)]
  | "transform" => do
    let as ← arrays req
    let a ← match as with | a :: _ => pure a | [] => throw "no array"
    pure [("lib", ← transformOp a req)]
  | "binop" => do
    -- a op b for two DimArrays; or DimArray with a scalar / ndarray operand
    let as ← arrays req
    match (← str (← fld req "form")) with
    | "arrays" =>
      match as with
      | [a, b] =>
        let r := Lib.operation Cell.nan Cell.op a b
        pure [("lib", encExcept (fun (x : DimArray Cell × Kind × Kind) => encDimArray x.1) r),
              ("okinds", match r with | .ok x => Json.arr #[encKind x.2.1, encKind x.2.2] | .error _ => Json.null)]
      | _ => throw "binop needs two arrays"
    | "nd" =>
      let a ← match as with | a :: _ => pure a | [] => throw "no array"
      let shape ← listOf nat (← fld req "ndshape")
      let flip ← bool (fldD req "flip" (Json.bool false))
      let nd : NDArr Cell := { shape := shape, get := fun i => Cell.rhs (ravel shape i) }
      pure [("lib", encExcept encDimArray (Lib.operationNd Cell.op a nd flip))]
    | f => throw s!"bad binop form {f}"
  | "stack" => do
    let as ← arrays req
    let ax ← optOf str (fldD req "axis" Json.null)
    let keys ← listOf label (← fld req "keys")
    let kk ← kind (fldD req "keykind" (Json.str "i"))
    let al ← bool (fldD req "align" (Json.bool false))
    let so ← bool (fldD req "sort" (Json.bool false))
    pure [("lib", encExcept encDimArray (Lib.stack Cell.nan as ax keys kk al so))]
  | "concatenate" => do
    let as ← arrays req
    let ax ← dimKey (← fld req "axis")
    let al ← bool (fldD req "align" (Json.bool false))
    let so ← bool (fldD req "sort" (Json.bool false))
    pure [("lib", encExcept encDimArray (Lib.concatenate Cell.nan as ax al so))]
  | "union" => do
    let a ← axis (← fld req "a")
    let b ← axis (← fld req "b")
    let r := if (← str (← fld req "join")) == "outer" then Lib.union a b else Lib.intersection a b
    pure [("lib", Json.mkObj [("ok", encAxis r)])]
  | "align" => do
    let as ← arrays req
    let join := if (← str (fldD req "join" (Json.str "outer"))) == "outer" then Lib.Join.outer else Lib.Join.inner
    let ax ← optOf str (fldD req "axis" Json.null)
    let sort ← bool (fldD req "sort" (Json.bool false))
    let strict ← bool (fldD req "strict" (Json.bool false))
    let r := Lib.align Cell.nan as join ax sort strict
    pure [("lib", encExcept (fun l => Json.arr (l.map encDimArray).toArray) r)]
  | "sort_axis" => do
    let as ← arrays req
    let a ← match as with | a :: _ => pure a | [] => throw "no array"
    let ax ← dimKey (← fld req "axis")
    pure [("lib", encExcept encDimArray (Lib.sortAxis a ax))]
  | "ondisk_history" => do
    -- C20: a stored variable, a sequence of on-disk reads / writes / record appends
    let as ← arrays req
    let a ← match as with | a :: _ => pure a | [] => throw "no array"
    let mut v := OnDisk.store a
    let mut out : List Json := []
    for st in (← arr (← fld req "steps")).toList do
      match (← str (← fld st "kind")) with
      | "read" =>
        let ui ← userIndex (← fld st "index")
        let cfg ← indexCfg (fldD st "cfg" (Json.mkObj []))
        out := out ++ [encExcept encDimArray (OnDisk.read Cell.nan v ui cfg)]
      | "write" =>
        let ui ← userIndex (← fld st "index")
        let cfg ← indexCfg (fldD st "cfg" (Json.mkObj []))
        let base ← nat (fldD st "base" (Json.num 0))
        let rhs : RHS Cell ← match (← optOf (listOf nat) (fldD st "rshape" Json.null)) with
          | none => pure (RHS.scalar (Cell.rhs base))
          | some shape => pure (RHS.arr { shape := shape, get := fun i => Cell.rhs (base + ravel shape i) })
        match OnDisk.write v ui rhs cfg with
        | .ok v' => v := v'; out := out ++ [Json.mkObj [("ok", Json.null)]]
        | .error e => out := out ++ [Json.mkObj [("err", encErr e)]]
      | "record" =>
        let i ← nat (← fld st "pos")
        let lab ← label (← fld st "label")
        let base ← nat (fldD st "base" (Json.num 0))
        let n ← nat (← fld st "n")
        match OnDisk.writeRecord v i lab ((List.range n).map fun k => Cell.rhs (base + k)) with
        | .ok v' => v := v'; out := out ++ [Json.mkObj [("ok", Json.null)]]
        | .error e => out := out ++ [Json.mkObj [("err", encErr e)]]
      | k => throw s!"unknown on-disk step {k}"
    pure [("lib", Json.arr out.toArray), ("final", encDimArray (OnDisk.load Cell.nan v))]
  | "heap_history" => do
    let ops ← listOf heapOp (← fld req "ops")
    let mut st := Heap.St.init
    let mut out : List Json := []
    for op in ops do
      st := Heap.step st op
      out := out ++ [Json.arr (st.obs.map encArrObs).toArray]
    pure [("lib", Json.arr out.toArray)]
  | "ds_op" => do
    -- C14: a Dataset built variable by variable, then one Dataset-level operation.  Further Datasets of the request
    -- ("others": the right operand of "arith", the other inputs of "stack_ds" / "concatenate_ds") are built the same
    -- way; the cells of their variables continue the numbering of the sources (`src k i`, k counted over all Datasets)
    let (n0, built) ← dsArg 0 req
    let mut off := n0
    let mut others : List (Except Err (DSV.Ds Cell)) := []
    for oj in (← arr (fldD req "others" (Json.arr #[]))).toList do
      let (n, o) ← dsArg off oj
      off := n
      others := others ++ [o]
    let name ← str (fldD req "dim" (Json.str ""))
    let fn ← str (← fld req "fn")
    let labels ← listOf label (fldD req "labels" (Json.arr #[]))
    let nk ← kind (fldD req "newkind" (Json.str "f"))
    let fk ← kind (fldD req "fillkind" (Json.str "f"))
    let i ← optOf ix (fldD req "ix" Json.null)
    let cfg ← indexCfg (fldD req "cfg" (Json.mkObj []))
    let axisKey ← optOf dimKey (fldD req "axis" Json.null)
    let stackAxis ← optOf str (fldD req "stackaxis" Json.null)
    let kk ← kind (fldD req "keykind" (Json.str "i"))
    let operand ← str (fldD req "operand" (Json.str "ds"))
    let tmpl ← listOf axis (fldD req "template" (Json.arr #[]))
    let r : Except Err (DSV.Ds Cell) := built.bind fun ds =>
      match fn with
      | "sort_axis" => DSV.sortAxisDs ds name
      | "take_axis" => DSV.takeAxisLabel ds name labels false
      | "reindex_axis" => DSV.reindexAxisDs ds name labels nk Cell.fill fk
      | "take" => (match i with
          | some i => DSV.takeDs ds name i cfg
          | none => .error .other)
      | "reduce" => DSV.reduceDs Cell.nan Cell.red ds name
      | "interp_axis" => DSV.interpAxisDs (fun a b w => Cell.lin a b w) ds name labels nk Cell.fill Cell.fill2
      | "arith" =>
        (match operand, others with
          | "scalar", _ => DSV.binaryOpDs Cell.nan Cell.op ds (.scalar (Cell.rhs 0))
          | "ds", [o] => o.bind fun o => DSV.binaryOpDs Cell.nan Cell.op ds (.ds o)
          | _, _ => DSV.binaryOpDs Cell.nan Cell.op ds .other)
      | "stack_ds" => (others.mapM id).bind fun os => DSV.stackDs Cell.nan (ds :: os) stackAxis labels kk
      | "concatenate_ds" => (others.mapM id).bind fun os =>
          DSV.concatenateDs Cell.nan (ds :: os) (axisKey.getD (.pos 0))
      | "copy" => DSV.copyDs Cell.nan ds
      | "reindex_like" => DSV.reindexLikeDs Cell.fill ds tmpl
      | "interp_like" => DSV.interpLikeDs (fun a b w => Cell.lin a b w) ds tmpl Cell.fill Cell.fill2
      | _ => match dsOpExt4 fn req with | .ok (some g) => g ds others | _ => .error .other
    pure [("lib", encExcept encDs r)]
  | "ds_ctor_history" => do
    -- C13: Dataset(<arrays with differing labels>) - the MODEL aligns (DS.construct = Lib.align, then setVar one by one) -
    -- followed by a history; the first `keys.length` entries of "lib" are the constructor's assignments
    let as ← arrays req
    let keys ← listOf str (← fld req "keys")
    let ops ← listOf dsOp (← fld req "ops")
    match Lib.align Cell.nan as .outer none false false with
    | .error e => pure [("lib", Json.arr (keys.map fun _ => encDS DS.init (.error e)).toArray), ("ctor_state", Json.null)]
    | .ok vals =>
      let mut st := DS.init
      let mut out : List Json := []
      for op in DS.ctorOps keys vals ++ ops do
        let (st', res) := DS.step st op
        st := st'
        out := out ++ [encDS st res]
      pure [("lib", Json.arr out.toArray),
            ("ctor_state", match DS.construct Cell.nan keys as with
              | .ok (_, s) => encDS s (.ok ())
              | .error e => Json.mkObj [("err", encErr e)])]
  | "redx" => handleRedX req
  | "heapflat" => handleHeapFlat heapOp req
  | "opx" => handleOpX req
  | "heapx_history" => handleHeapX heapOp encArrObs req
  | "grouped_cache" => match handleGrouped op req with | some r => r | none => throw s!"unknown op {op}"
  | _ => match (((handleCache op req).orElse (fun _ => handleMulti op req)).orElse (fun _ => handleSel op req)).orElse (fun _ => handleTakeNd op req) with | some r => r | none => throw s!"unknown op {op}"

def answer (line : String) : String :=
  match Json.parse line with
  | .error e => (Json.mkObj [("fatal", Json.str s!"parse: {e}")]).compress
  | .ok req =>
    let id := fldD req "id" Json.null
    match (do let op ← str (← fld req "op"); handle op req) with
    | .ok fields => (Json.mkObj (("id", id) :: fields)).compress
    | .error e => (Json.mkObj [("id", id), ("fatal", Json.str e)]).compress

partial def loop (h : IO.FS.Stream) (out : IO.FS.Stream) : IO Unit := do
  let line ← h.getLine
  if line.isEmpty then return ()
  let l := line.trimAscii.toString
  if !l.isEmpty then out.putStrLn (answer l)
  loop h out

def main : IO Unit := do
  let out ← IO.getStdout
  loop (← IO.getStdin) out
  out.flush

end DimModel.Driver

/-
Driver extension for the extended heap histories (Lib/HeapX.lean): op "heapx_history".
Request: {"op": "heapx_history", "ops": [op ...]}; the operations of Lib/Heap.lean in the encoding of "heap_history"
  (decoded by the `baseOp` handed in by Main) plus ["swapaxes", k, a, b], ["rollaxis", k, d], ["T", k],
  ["newaxis", k, name, pos], ["slice", k, d, start, stop, step], ["sum", k, d], ["add_arr", k, j],
  ["reindex", k, d, [label ...]], ["ds_var", k] (ds = Dataset(); ds['v'] = env[k]; ds['v']).
Answer:  {"lib": [snapshots of all live arrays after each step], "share": [sharing of all pairs after each step]}
-/
import DimModel.Driver.Codec
import DimModel.Lib.HeapX
open Lean
namespace DimModel.Driver
open DimModel.Codec

def heapXOp (baseOp : Json → P Heap.Op) (j : Json) : P Heap.XOp := do
  let a ← arr j
  match a.toList with
  | t :: rest =>
    match (← str t), rest with
    | "swapaxes", [k, x, y] => do pure (.swapaxes (← nat k) (← nat x) (← nat y))
    | "rollaxis", [k, d] => do pure (.rollaxis (← nat k) (← nat d))
    | "T", [k] => do pure (.tT (← nat k))
    | "newaxis", [k, n, p] => do pure (.newaxis (← nat k) (← str n) (← nat p))
    | "slice", [k, d, x, y, z] => do pure (.sliceRange (← nat k) (← nat d) (← nat x) (← nat y) (← nat z))
    | "sum", [k, d] => do pure (.reduceSum (← nat k) (← nat d))
    | "add_arr", [k, l] => do pure (.addArr (← nat k) (← nat l))
    | "reindex", [k, d, ls] => do pure (.reindexAxis (← nat k) (← nat d) (← listOf int ls))
    | "ds_var", [k] => do pure (.dsVar (← nat k))
    | _, _ => do pure (.base (← baseOp j))
  | [] => throw "empty heap op"

def encPairs (l : List (Nat × Nat)) : Json :=
  Json.arr (l.map fun p => encNats [p.1, p.2]).toArray

def encShare : Option Heap.ShareObs → Json
  | none => Json.null
  | some o => Json.mkObj [("i", Json.num (JsonNumber.fromNat o.i)), ("j", Json.num (JsonNumber.fromNat o.j)),
      ("same", Json.bool o.same), ("vals", Json.bool o.vals), ("axes", encPairs o.axes), ("labels", encPairs o.labels),
      ("attrs", Json.bool o.attrs), ("attr_vals", Json.arr (o.attrVals.map Json.str).toArray)]

def handleHeapX (baseOp : Json → P Heap.Op) (encObs : Option Heap.ArrObs → Json) (req : Json) :
    P (List (String × Json)) := do
  let ops ← listOf (heapXOp baseOp) (← fld req "ops")
  let mut st := Heap.St.init
  let mut out : List Json := []
  let mut sh : List Json := []
  for op in ops do
    st := Heap.xstep st op
    out := out ++ [Json.arr (st.obs.map encObs).toArray]
    sh := sh ++ [Json.arr (st.share.map encShare).toArray]
  pure [("lib", Json.arr out.toArray), ("share", Json.arr sh.toArray)]

end DimModel.Driver

/-
Symbolic cells: the driver never touches a float.  Input cell `i` of array `k` *is* `src k i`;
the harness evaluates the symbolic answer with NumPy scalar / 1-D calls.
-/
import DimModel.Core.Basic
namespace DimModel

inductive Cell
  | src (k i : Nat)          -- cell `i` (row-major) of input array `k`
  | nan                      -- NaN
  | fill                     -- the `fill_value` / `left` / `na` argument of the call
  | fill2                    -- second fill (`right`)
  | rhs (i : Nat)            -- cell `i` of the right-hand side of an assignment
  | op (a b : Cell)          -- the binary ufunc of the request applied to (a, b)
  | red (cs : List Cell)     -- the reduction of the request applied to the 1-D fibre `cs`
  | redp (q : Rat) (cs : List Cell) -- NumPy's `q`-th percentile of the 1-D fibre `cs` (lib.stats.percentile)
  | scan (cs : List Cell)    -- last element of the cumulative function applied to the prefix `cs`
  | sub (a b : Cell)         -- a - b (np.diff)
  | lin (a b : Cell) (w : Rat) -- a + w * (b - a)   (interp_axis)
  | lab (l : Label)          -- an axis label stored as data (argmin / argmax)
  | arg (cs : List Cell) (labels : List Label) -- the label at NumPy's arg-position of the fibre `cs`
  | argpos (cs : List Cell)  -- NumPy's arg-position (flat) of the cells `cs`
  | idx (n : Nat)            -- integer literal
  | bool (b : Bool)
  deriving Repr, Inhabited

end DimModel

/-
Driver extension "c14ops" (property C14): the Dataset operations mirrored in Lib/DatasetOps2.lean.
`dsOpExt fn req` is consulted by the "ds_op" handler of Driver/Main.lean for the operation names it does not know;
it answers with the operation as a function of the built Dataset and of the other Datasets of the request.
-/
import DimModel.Driver.Codec
import DimModel.Lib.DatasetOps2
open Lean
namespace DimModel.Driver
open DimModel.Codec

abbrev DsFn := DSV.Ds Cell → List (Except Err (DSV.Ds Cell)) → Except Err (DSV.Ds Cell)

/-- operations of the extension, by the `fn` of the request:
* `"neg"`: `Dataset._unary_op`; the function applied to a cell `c` is written `op(c, c)` - the harness binds `op` to
  `lambda x, _: ufunc(x)` for this request (the cell language has no unary node);
* `"rarith"`: `Dataset._rbinary_op` with the scalar `rhs 0` on the left;
* `"stack_ds_a"` / `"concatenate_ds_a"`: `stack_ds` / `concatenate_ds` with the options align / join / sort -/
def joinArg (j : Json) : P Lib.Join := do
  match (← str j) with
  | "outer" => pure .outer
  | "inner" => pure .inner
  | k => throw s!"bad join {k}"

def dsOpExt (fn : String) (req : Json) : P (Option DsFn) :=
  match fn with
  | "neg" => pure (some fun ds _ => DSV.unaryOpDs (fun c => Cell.op c c) ds)
  | "rarith" => pure (some fun ds _ => DSV.rbinaryOpDs Cell.op ds (.scalar (Cell.rhs 0)))
  | "stack_ds_a" => do
    -- stack_ds(..., align=, join=, sort=)
    let labels ← listOf label (fldD req "labels" (Json.arr #[]))
    let kk ← kind (fldD req "keykind" (Json.str "i"))
    let stackAxis ← optOf str (fldD req "stackaxis" Json.null)
    let doAlign ← bool (fldD req "align" (Json.bool true))
    let join ← joinArg (fldD req "join" (Json.str "outer"))
    let sort ← bool (fldD req "sort" (Json.bool false))
    pure (some fun ds others => (others.mapM id).bind fun os =>
      DSV.stackDsA Cell.nan (ds :: os) stackAxis labels kk doAlign join sort)
  | "concatenate_ds_a" => do
    let axisKey ← optOf dimKey (fldD req "axis" Json.null)
    let doAlign ← bool (fldD req "align" (Json.bool true))
    let join ← joinArg (fldD req "join" (Json.str "outer"))
    let sort ← bool (fldD req "sort" (Json.bool false))
    pure (some fun ds others => (others.mapM id).bind fun os =>
      DSV.concatenateDsA Cell.nan (ds :: os) (axisKey.getD (.pos 0)) doAlign join sort)
  | _ => pure none

end DimModel.Driver

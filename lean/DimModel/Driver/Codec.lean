/-
JSON codec of the line protocol (DESIGN.md appendix B).
-/
import Lean.Data.Json
import DimModel.Lib.GetSet
import DimModel.Lib.Align
import DimModel.Lib.Axes
import DimModel.Driver.Cell
open Lean
namespace DimModel.Codec

abbrev P := Except String

def arr (j : Json) : P (Array Json) := j.getArr?
def str (j : Json) : P String := j.getStr?
def int (j : Json) : P Int := j.getInt?
def nat (j : Json) : P Nat := j.getNat?
def bool (j : Json) : P Bool := j.getBool?
def fld (j : Json) (k : String) : P Json := j.getObjVal? k
def fldD (j : Json) (k : String) (d : Json) : Json := (j.getObjVal? k).toOption.getD d
def isNull (j : Json) : Bool := j.isNull
def listOf {β} (f : Json → P β) (j : Json) : P (List β) := do
  let a ← arr j; a.toList.mapM f
def optOf {β} (f : Json → P β) (j : Json) : P (Option β) :=
  if j.isNull then pure none else some <$> f j

def ratOf (n : Int) (d : Nat) : Rat := mkRat n d

def label (j : Json) : P Label := do
  let a ← arr j
  match a.toList with
  | [t, n, d] => do
    let t ← str t
    if t == "n" then pure (.num (ratOf (← int n) (← nat d))) else throw s!"bad label tag {t}"
  | [t, s] => do
    let t ← str t
    if t == "s" then pure (.str (← str s)) else throw s!"bad label tag {t}"
  | [_] => pure .none
  | _ => throw "bad label"

def kind (j : Json) : P Kind := do
  match (← str j) with
  | "b" => pure .b | "i" => pure .i | "u" => pure .u | "f" => pure .f | "O" => pure .O
  | "U" => pure .U | "S" => pure .S | "M" => pure .M
  | k => throw s!"bad kind {k}"

def attrs (j : Json) : P Attrs :=
  listOf (fun kv => do
    let a ← arr kv
    match a.toList with
    | [k, v] => do pure ((← str k), (← nat v))
    | _ => throw "bad attr") j

def axis0 (j : Json) : P Axis0 := do
  pure { name := ← str (← fld j "name"), labels := ← listOf label (← fld j "labels"),
         kind := ← kind (← fld j "kind"), attrs := ← attrs (fldD j "attrs" (Json.arr #[])) }

def axis (j : Json) : P Axis := do
  let a0 ← axis0 j
  let ms ← listOf axis0 (fldD j "members" (Json.arr #[]))
  pure { a0.toAxis with members := ms }

/-- input array `k`: cells are `src k i` in row-major order -/
def dimArray (k : Nat) (j : Json) : P (DimArray Cell) := do
  let axes ← listOf axis (← fld j "axes")
  let shape := axes.map (·.size)
  let nans ← listOf nat (fldD j "nan" (Json.arr #[]))
  pure { axes := axes
         vals := { shape := shape, get := fun i => let f := ravel shape i; if nans.contains f then Cell.nan else Cell.src k f }
         vkind := ← kind (fldD j "vkind" (Json.str "f"))
         attrs := ← attrs (fldD j "attrs" (Json.arr #[])) }

def arrays (j : Json) : P (List (DimArray Cell)) := do
  let a ← arr (fldD j "arrays" (Json.arr #[]))
  (a.toList.zipIdx).mapM (fun (x, k) => dimArray k x)

def ix (j : Json) : P Ix := do
  let a ← arr j
  match a.toList with
  | t :: rest => do
    match (← str t), rest with
    | "sc", [v] => pure (.scalar (← label v))
    | "li", [vs] => pure (.list (← listOf label vs))
    | "ma", [m] => pure (.mask (← listOf bool m))
    | "sl", [s, e, st] => pure (.slice (← optOf label s) (← optOf label e) (← optOf int st))
    | "el", [] => pure .ellipsis
    | t, _ => throw s!"bad ix {t}"
  | [] => throw "bad ix"

def dimKey (j : Json) : P DimKey := do
  let a ← arr j
  match a.toList with
  | [t, v] => do
    match (← str t) with
    | "name" => pure (.name (← str v))
    | "pos" => pure (.pos (← int v))
    | t => throw s!"bad dimkey {t}"
  | _ => throw "bad dimkey"

def userIndex (j : Json) : P UserIndex := do
  match (← str (← fld j "form")) with
  | "tuple" => pure (.tuple (← listOf ix (← fld j "ix")))
  | "dict" => pure (.dict (← listOf (fun kv => do
      let a ← arr kv
      match a.toList with
      | [k, v] => do pure ((← dimKey k), (← ix v))
      | _ => throw "bad dict item") (← fld j "items")))
  | "axis" => pure (.axisArg (← ix (← fld j "ix")) (← dimKey (← fld j "axis")))
  | f => throw s!"bad index form {f}"

def mode (j : Json) : P Mode := do
  match (← str j) with
  | "label" => pure .label
  | "position" => pure .position
  | m => throw s!"bad mode {m}"

def side (j : Json) : P Side := do
  match (← str j) with
  | "left" => pure .left
  | "right" => pure .right
  | s => throw s!"bad side {s}"

def tol (j : Json) : P Tol := do
  let a ← arr j
  match a.toList with
  | [_, n, d] => pure (.fin (ratOf (← int n) (← nat d)))
  | _ => pure .inf

def indexCfg (j : Json) : P IndexCfg := do
  pure { indexing := ← optOf mode (fldD j "indexing" Json.null)
         captured := ← mode (fldD j "captured" (Json.str "label"))
         toggle := ← bool (fldD j "toggle" (Json.bool false))
         tol := ← optOf tol (fldD j "tol" Json.null)
         keepdims := ← bool (fldD j "keepdims" (Json.bool false)) }

/-! ### encoders -/

def encRat (q : Rat) : List Json := [Json.num (JsonNumber.fromInt q.num), Json.num (JsonNumber.fromNat q.den)]

def encLabel : Label → Json
  | .num q => Json.arr (#[Json.str "n"] ++ (encRat q).toArray)
  | .str s => Json.arr #[Json.str "s", Json.str s]
  | .none => Json.arr #[Json.str "N"]

def encKind : Kind → Json
  | .b => "b" | .i => "i" | .u => "u" | .f => "f" | .O => "O" | .U => "U" | .S => "S" | .M => "M"

def encAttrs (a : Attrs) : Json :=
  Json.arr (a.map (fun (k, v) => Json.arr #[Json.str k, Json.num (JsonNumber.fromNat v)])).toArray

def encAxis0 (a : Axis0) : Json :=
  Json.mkObj [("name", a.name), ("kind", encKind a.kind), ("labels", Json.arr (a.labels.map encLabel).toArray),
              ("attrs", encAttrs a.attrs)]

def encAxis (a : Axis) : Json :=
  Json.mkObj [("name", a.name), ("kind", encKind a.kind), ("labels", Json.arr (a.labels.map encLabel).toArray),
              ("attrs", encAttrs a.attrs), ("members", Json.arr (a.members.map encAxis0).toArray)]

partial def encCell : Cell → Json
  | .src k i => Json.arr #["src", Json.num (JsonNumber.fromNat k), Json.num (JsonNumber.fromNat i)]
  | .nan => Json.arr #["nan"]
  | .fill => Json.arr #["fill"]
  | .fill2 => Json.arr #["fill2"]
  | .rhs i => Json.arr #["rhs", Json.num (JsonNumber.fromNat i)]
  | .op a b => Json.arr #["op", encCell a, encCell b]
  | .red cs => Json.arr #["red", Json.arr (cs.map encCell).toArray]
  | .redp q cs => Json.arr ((#[Json.str "redp"] : Array Json) ++ (encRat q).toArray ++ #[Json.arr (cs.map encCell).toArray])
  | .scan cs => Json.arr #["scan", Json.arr (cs.map encCell).toArray]
  | .sub a b => Json.arr #["sub", encCell a, encCell b]
  | .lin a b w => Json.arr ((#[Json.str "lin", encCell a, encCell b] : Array Json) ++ (encRat w).toArray)
  | .lab l => Json.arr #["lab", encLabel l]
  | .arg cs ls => Json.arr #["arg", Json.arr (cs.map encCell).toArray, Json.arr (ls.map encLabel).toArray]
  | .argpos cs => Json.arr #["argpos", Json.arr (cs.map encCell).toArray]
  | .idx n => Json.arr #["idx", Json.num (JsonNumber.fromNat n)]
  | .bool b => Json.arr #["bool", Json.bool b]

def encNats (l : List Nat) : Json := Json.arr (l.map (fun n => Json.num (JsonNumber.fromNat n))).toArray
def encInts (l : List Int) : Json := Json.arr (l.map (fun n => Json.num (JsonNumber.fromInt n))).toArray
def encOptInt : Option Int → Json
  | none => Json.null
  | some i => Json.num (JsonNumber.fromInt i)

def encDimArray (a : DimArray Cell) : Json :=
  Json.mkObj [("dims", Json.arr (a.dims.map Json.str).toArray),
              ("axes", Json.arr (a.axes.map encAxis).toArray),
              ("shape", encNats a.vals.shape),
              ("vkind", encKind a.vkind),
              ("attrs", encAttrs a.attrs),
              ("cells", Json.arr (a.vals.toList.map encCell).toArray)]

def encErr : Err → Json
  | .index => "index" | .value => "value" | .type => "type" | .key => "key"
  | .attribute => "attribute" | .assertion => "assertion" | .recursion => "recursion" | .other => "other"

def encExcept {β} (f : β → Json) : Except Err β → Json
  | .ok v => Json.mkObj [("ok", f v)]
  | .error e => Json.mkObj [("err", encErr e)]

def encRaw : RawIx → Json
  | .int i => Json.arr #["int", Json.num (JsonNumber.fromInt i)]
  | .ints l => Json.arr #["ints", encInts l]
  | .slice s e st => Json.arr #["slice", encOptInt s, encOptInt e, encOptInt st]
  | .mask m => Json.arr #["mask", Json.arr (m.map Json.bool).toArray]

end DimModel.Codec

/-
Driver extension for flatten in the heap model (Lib/HeapFlat.lean): op "heapflat".
Request: {"op": "heapflat", "ops": [heapx op ...], "k": n}: the history, then `b = env[k].flatten()`.
Answer:  {"flat": null (refused) | {"shares": bool, "shape": [...], "values": [...], "name": str}}
-/
import DimModel.Driver.Codec
import DimModel.Driver.ExtHeap
import DimModel.Lib.HeapFlat
open Lean
namespace DimModel.Driver
open DimModel.Codec

def handleHeapFlat (baseOp : Json → P Heap.Op) (req : Json) : P (List (String × Json)) := do
  let ops ← listOf (heapXOp baseOp) (← fld req "ops")
  let k ← nat (← fld req "k")
  let st := Heap.xrun Heap.St.init ops
  match Heap.flattenObs st k with
  | none => pure [("flat", Json.null)]
  | some (sh, shape, vals, name) =>
    pure [("flat", Json.mkObj [("shares", Json.bool sh), ("shape", encNats shape),
      ("values", Json.arr (vals.map fun v => Json.num (JsonNumber.fromInt v)).toArray), ("name", Json.str name)])]

end DimModel.Driver

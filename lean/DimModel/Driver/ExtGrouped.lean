/-
Driver extension (C05, cached state of grouped axes): op "grouped_cache".
Request : {"op":"grouped_cache","ops":[[tag, args...], ...]}
Answer  : "lib": per step {"res": <result>, "plain": [{"labels","name"}], "grouped": [{"members","name","vals","size"}]}
-/
import DimModel.Driver.Codec
import DimModel.Lib.GroupedCache
open Lean
namespace DimModel.Driver
open DimModel.Codec DimModel.GroupedCache

def gref (n : Nat) (j : Json) : P Nat := do
  let x ← int j
  pure (x % (n : Int)).toNat

def groupedOp (np ng : Nat) (j : Json) : P GOp := do
  let a ← arr j
  match a.toList with
  | [t, x] =>
    match (← str t) with
    | "group" => pure (.group (← listOf (gref np) x))
    | "flatten_from" => pure (.flattenFrom (← listOf (gref np) x))
    | "read_labels" => pure (.readLabels (← gref ng x))
    | "read_size" => pure (.readSize (← gref ng x))
    | "read_name" => pure (.readName (← gref ng x))
    | "copy" => pure (.copyG (← gref ng x))
    | "unflatten" => pure (.unflatten (← gref ng x))
    | k => throw s!"bad grouped op {k}"
  | [t, x, y] =>
    match (← str t) with
    | "mk_plain" => pure (.mkPlain (← listOf label x) (← str y))
    | "rename_member" => pure (.renameMember (← gref np x) (← str y))
    | "take" => pure (.takeG (← gref ng x) (← listOf int y))
    | k => throw s!"bad grouped op {k}"
  | [t, x, y, z] =>
    match (← str t) with
    | "relabel_member" => pure (.relabelMember (← gref np x) (← int y) (← label z))
    | "set_item" => pure (.setItemG (← gref ng x) (← int y) (← listOf label z))
    | k => throw s!"bad grouped op {k}"
  | [t, x, y, z, w] =>
    match (← str t) with
    | "slice" => pure (.sliceG (← gref ng x) (← optOf int y) (← optOf int z) (← optOf int w))
    | k => throw s!"bad grouped op {k}"
  | _ => throw "bad grouped op"

def encTuples (T : List (List Label)) : Json := Json.arr (T.map (fun t => Json.arr (t.map encLabel).toArray)).toArray

def encGRes : Res → Json
  | .unit => Json.mkObj [("unit", Json.null)]
  | .pref i => Json.mkObj [("pref", Json.num (JsonNumber.fromNat i))]
  | .gref i => Json.mkObj [("gref", Json.num (JsonNumber.fromNat i))]
  | .tuples T => Json.mkObj [("tuples", encTuples T)]
  | .nat n => Json.mkObj [("nat", Json.num (JsonNumber.fromNat n))]
  | .name s => Json.mkObj [("name", Json.str s)]
  | .members M => Json.mkObj [("members", Json.arr (M.map (fun m =>
      Json.mkObj [("labels", Json.arr (m.1.map encLabel).toArray), ("name", Json.str m.2)])).toArray)]
  | .err e => Json.mkObj [("err", encErr e)]

def encPAx (a : PAx) : Json := Json.mkObj [("labels", Json.arr (a.labels.map encLabel).toArray), ("name", Json.str a.name)]

def encGAxis (g : GAxis) : Json :=
  Json.mkObj [("members", Json.arr (g.members.map (fun m => Json.num (JsonNumber.fromNat m))).toArray), ("name", Json.str g.name),
              ("vals", match g.vals with | none => Json.null | some T => encTuples T),
              ("size", match g.size with | none => Json.null | some n => Json.num (JsonNumber.fromNat n))]

def handleGrouped (op : String) (req : Json) : Option (P (List (String × Json))) :=
  match op with
  | "grouped_cache" => some do
    let ops ← arr (← fld req "ops")
    let mut st : St := {}
    let mut out : List Json := []
    for oj in ops.toList do
      let o ← groupedOp st.plain.length st.grouped.length oj
      let r := step st o
      st := r.1
      out := out ++ [Json.mkObj [("res", encGRes r.2), ("plain", Json.arr (st.plain.map encPAx).toArray),
                                 ("grouped", Json.arr (st.grouped.map encGAxis).toArray),
                                 ("coherent", Json.bool (decide (Coherent st)))]]
    pure [("lib", Json.arr out.toArray)]
  | _ => none

end DimModel.Driver

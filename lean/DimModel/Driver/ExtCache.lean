/-
Driver extension (C05, cached state of Axis objects): op "axis_cache".
Request : {"op":"axis_cache","ops":[[tag, args...], ...]}
Answer  : "lib": per step {"res": <result>, "state": [{"labels","kind","mono"}, ...]} (the whole heap after the step)
-/
import DimModel.Driver.Codec
import DimModel.Lib.AxisCache
open Lean
namespace DimModel.Driver
open DimModel.Codec DimModel.AxisCache

/-- a reference of the request, reduced modulo the number of live objects (`-1` is the newest) -/
def cref (n : Nat) (j : Json) : P Nat := do
  let x ← int j
  pure (x % (n : Int)).toNat

def cacheOp (n : Nat) (j : Json) : P AOp := do
  let nat := cref n
  let a ← arr j
  match a.toList with
  | [t, x] =>
    match (← str t) with
    | "is_monotonic" => pure (.isMonotonic (← nat x))
    | "copy" => pure (.copy (← nat x))
    | "sort" => pure (.sort (← nat x))
    | "labels" => pure (.labels (← nat x))
    | k => throw s!"bad cache op {k}"
  | [t, x, y] =>
    match (← str t) with
    | "construct" => pure (.construct (← listOf label x) (← kind y))
    | "get_list" => pure (.getList (← nat x) (← listOf int y))
    | "get_scalar" => pure (.getScalar (← nat x) (← int y))
    | "take" => pure (.take (← nat x) (← listOf int y))
    | "cast" => pure (.cast (← nat x) (← kind y))
    | "union" => pure (.union (← nat x) (← nat y))
    | "intersection" => pure (.intersection (← nat x) (← nat y))
    | k => throw s!"bad cache op {k}"
  | [t, x, y, z] =>
    match (← str t) with
    | "set_values" => pure (.setValues (← nat x) (← listOf label y) (← kind z))
    | "set_all" => pure (.setAll (← nat x) (← listOf label y) (← kind z))
    | k => throw s!"bad cache op {k}"
  | [t, x, y, z, w] =>
    match (← str t) with
    | "set_item" => pure (.setItem (← nat x) (← int y) (← label z) (← kind w))
    | "get_slice" => pure (.getSlice (← nat x) (← optOf int y) (← optOf int z) (← optOf int w))
    | k => throw s!"bad cache op {k}"
  | _ => throw "bad cache op"

def encCAxis (a : CAxis) : Json :=
  Json.mkObj [("labels", Json.arr (a.labels.map encLabel).toArray), ("kind", encKind a.kind),
              ("mono", match a.mono with | none => Json.null | some b => Json.bool b)]

def encRes : Res → Json
  | .unit => Json.mkObj [("unit", Json.null)]
  | .ref i => Json.mkObj [("ref", Json.num (JsonNumber.fromNat i))]
  | .label l => Json.mkObj [("label", encLabel l)]
  | .bool b => Json.mkObj [("bool", Json.bool b)]
  | .labels L k => Json.mkObj [("labels", Json.arr (L.map encLabel).toArray), ("kind", encKind k)]
  | .err e => Json.mkObj [("err", encErr e)]

def handleCache (op : String) (req : Json) : Option (P (List (String × Json))) :=
  match op with
  | "axis_cache" => some do
    let ops ← arr (← fld req "ops")
    let mut st : St := []
    let mut out : List Json := []
    for oj in ops.toList do
      let o ← cacheOp st.length oj
      let r := step st o
      st := r.1
      out := out ++ [Json.mkObj [("res", encRes r.2), ("state", Json.arr (st.map encCAxis).toArray)]]
    pure [("lib", Json.arr out.toArray)]
  | _ => none

end DimModel.Driver

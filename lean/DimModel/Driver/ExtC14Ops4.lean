/-
Driver extension "c14ops4" (property C14): `Dataset.take` with any form of index and `names=` (Lib/DatasetOps4.lean).
`dsOpExt4 fn req` is consulted by the "ds_op" handler of Driver/Main.lean for the operation names it does not know;
names it does not know either are passed on to `dsOpExt3` (Driver/ExtC14Ops3.lean).
-/
import DimModel.Driver.ExtC14Ops3
import DimModel.Lib.DatasetOps4
open Lean
namespace DimModel.Driver
open DimModel.Codec

/-- * `"take_multi"`: `Dataset.take(names=, indices=, axis=, indexing=, tol=, keepdims=)`: "index" is a user index as
  `Codec.userIndex` reads it (form tuple / dict / axis), "cfg" an `IndexCfg`, "names" null or a list of keys
  (`DSV.takeDsMulti`) -/
def dsOpExt4 (fn : String) (req : Json) : P (Option DsFn) :=
  match fn with
  | "take_multi" => do
    let ui ← userIndex (← fld req "index")
    let cfg ← indexCfg (fldD req "cfg" (Json.mkObj []))
    let names ← optOf (listOf str) (fldD req "names" Json.null)
    pure (some fun ds _ => DSV.takeDsMulti ds names ui cfg)
  | _ => dsOpExt3 fn req

end DimModel.Driver

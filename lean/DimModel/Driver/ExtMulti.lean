/-
Driver extension "multi" (property C20): the multi-file read of Lib/OnDiskMulti.lean.
Request: {"op": "read_multi", "files": [{"keys": [...], "arrays": [...], "attrs": [...]} ...]  (every file is the Dataset
            built variable by variable with `__setitem__` and written with `write_nc`; the cells of variable k of the
            request - counted over all files - are `src k i`),
          "names": null | [name ...], "name": null | str   (a single name: `read_nc(files, name)`),
          "index": null | {"dim": d, "ix": ix, "cfg": cfg},
          "axis": null | str, "keys": null | [label ...], "keykind": kind, "default_keys": [label ...],
          "align": bool, "sort": bool, "join": "outer" | "inner", "concatenate_only": bool}
Answer:  {"lib": {"ok": dataset} | {"err": class}, "libvar": {"ok": array} | {"err": class} | null}
-/
import DimModel.Driver.Codec
import DimModel.Lib.OnDiskMulti
open Lean
namespace DimModel.Driver
open DimModel.Codec Lib OnDisk

def encDsM (ds : DSV.Ds Cell) : Json :=
  Json.mkObj [("keys", Json.arr (ds.keys.map Json.str).toArray), ("dims", Json.arr (ds.dims.map Json.str).toArray),
    ("axes", Json.arr (ds.axes.map encAxis).toArray),
    ("vars", Json.mkObj (ds.vars.map fun kv => (kv.1, encDimArray kv.2))), ("attrs", encAttrs ds.attrs)]

/-- one file of the request: the Dataset built with `__setitem__`, stored; returns the next source index -/
def fileArg (off : Nat) (j : Json) : P (Nat × Except Err (DiskDs Cell)) := do
  let a ← arr (fldD j "arrays" (Json.arr #[]))
  let as ← (a.toList.zipIdx).mapM (fun (x, k) => dimArray (off + k) x)
  let keys ← listOf str (← fld j "keys")
  let dsattrs ← attrs (fldD j "attrs" (Json.arr #[]))
  let built := (keys.zip as).foldlM (fun (ds : DSV.Ds Cell) kv => DSV.setItem ds kv.1 kv.2) {}
  pure (off + as.length, built.map fun ds0 => storeDs { ds0 with attrs := dsattrs })

def handleMulti (op : String) (req : Json) : Option (P (List (String × Json))) :=
  match op with
  | "read_multi" => some do
    let mut off := 0
    let mut files : List (Except Err (DiskDs Cell)) := []
    for fj in (← arr (← fld req "files")).toList do
      let (n, f) ← fileArg off fj
      off := n
      files := files ++ [f]
    let names ← optOf (listOf str) (fldD req "names" Json.null)
    let name ← optOf str (fldD req "name" Json.null)
    let idx ← optOf (fun j => do
        pure ({ dim := ← str (← fld j "dim"), ix := ← ix (← fld j "ix"), cfg := ← indexCfg (fldD j "cfg" (Json.mkObj [])) } : FileIndex))
      (fldD req "index" Json.null)
    let keys ← optOf (listOf label) (fldD req "keys" Json.null)
    let kk ← kind (fldD req "keykind" (Json.str "O"))
    let dk ← listOf label (fldD req "default_keys" (Json.arr #[]))
    let join ← (do match (← str (fldD req "join" (Json.str "outer"))) with
      | "outer" => pure Join.outer
      | "inner" => pure Join.inner
      | k => throw s!"bad join {k}" : P Join)
    let o : MultiOpts :=
      { axis := ← optOf str (fldD req "axis" Json.null), keys := keys.map fun ks => (ks, kk),
        align := ← bool (fldD req "align" (Json.bool false)), sort := ← bool (fldD req "sort" (Json.bool false)),
        join := join, concatenateOnly := ← bool (fldD req "concatenate_only" (Json.bool false)) }
    match files.mapM id with
    | .error e => pure [("lib", Json.mkObj [("err", encErr e)]), ("libvar", Json.null)]
    | .ok fs =>
      match name with
      | some nm =>
        pure [("lib", encExcept encDsM (readMulti Cell.nan Cell.nan fs (some [nm]) idx o dk)),
              ("libvar", encExcept encDimArray (readMultiVar Cell.nan Cell.nan fs nm idx o dk))]
      | none =>
        pure [("lib", encExcept encDsM (readMulti Cell.nan Cell.nan fs names idx o dk)), ("libvar", Json.null)]
  | _ => none

end DimModel.Driver

/-
Driver extension for the concrete cell semantics of the operators (Lib/OpVals.lean): op "opx".
Request: {"op": "opx", "arrays": [a] | [a, b], "xvals": [[cell ...] per array] (row-major; "nan" | "inf" | "-inf" | ["n", num, den]),
          "operator": "add" | "sub" | "mul" | "truediv" | "floordiv" | "pow" | "eq" | "ne" | "lt" | "le" | "gt" | "ge",
          "form": "arrays" (a op b through `operation`) | "nd" (a op ndarray / scalar; "ndshape", "ndvals", "flip")
                  | "cmp" (comparison; "ndshape", "ndvals", "same_axes")}
Answer:  {"lib": {"ok": {"dims", "shape", "axes", "attrs", "cells"} | {"bool": b}} | {"err": class}}
-/
import DimModel.Driver.Codec
import DimModel.Driver.ExtRed
import DimModel.Lib.OpVals
open Lean
namespace DimModel.Driver
open DimModel.Codec Lib

def opOfName : String → Option Op
  | "add" => some .add | "sub" => some .sub | "mul" => some .mul
  | "truediv" => some .truediv | "floordiv" => some .floordiv | "pow" => some .pow
  | _ => none

def cmpOfName : String → Option Cmp
  | "eq" => some .eq | "ne" => some .ne | "lt" => some .lt
  | "le" => some .le | "gt" => some .gt | "ge" => some .ge
  | _ => none

def withXVals (a0 : DimArray Cell) (xs : List XVal) : DimArray XVal :=
  let shape := a0.vals.shape
  { axes := a0.axes, vals := { shape := shape, get := fun j => xs.getD (ravel shape j) .nan },
    vkind := a0.vkind, attrs := a0.attrs }

def encXRes (r : Except Err (DimArray XVal)) : Json :=
  match r with
  | .error e => Json.mkObj [("err", encErr e)]
  | .ok x => Json.mkObj [("ok", encXArray x)]

def handleOpX (req : Json) : P (List (String × Json)) := do
  let as ← arrays req
  let xss ← listOf (listOf xvalOf) (← fld req "xvals")
  let xa := (as.zip xss).map fun (a, xs) => withXVals a xs
  let name ← str (← fld req "operator")
  let nd : P (NDArr XVal) := do
    let shape ← listOf nat (← fld req "ndshape")
    let vs ← listOf xvalOf (← fld req "ndvals")
    pure { shape := shape, get := fun i => vs.getD (ravel shape i) .nan }
  match (← str (← fld req "form")) with
  | "arrays" =>
    let o ← match opOfName name with | some o => pure o | none => throw s!"opx: no operator {name}"
    match xa with
    | [a, b] => pure [("lib", encXRes ((operation XVal.nan (opX o) a b).map (·.1)))]
    | _ => throw "opx needs two arrays"
  | "nd" =>
    let o ← match opOfName name with | some o => pure o | none => throw s!"opx: no operator {name}"
    let a ← match xa with | a :: _ => pure a | [] => throw "no array"
    let flip ← bool (fldD req "flip" (Json.bool false))
    pure [("lib", encXRes (operationNd (opX o) a (← nd) flip))]
  | "cmp" =>
    let c ← match cmpOfName name with | some c => pure c | none => throw s!"opx: no comparison {name}"
    let a ← match xa with | a :: _ => pure a | [] => throw "no array"
    let same ← bool (fldD req "same_axes" (Json.bool true))
    pure [("lib", match compareNd c a (← nd) same with
      | .error e => Json.mkObj [("err", encErr e)]
      | .ok (.inl b) => Json.mkObj [("ok", Json.mkObj [("bool", Json.bool b)])]
      | .ok (.inr r) => Json.mkObj [("ok", encXArray r)])]
  | f => throw s!"bad opx form {f}"

def handleOpVals (op : String) (req : Json) : Option (P (List (String × Json))) :=
  if op == "opx" then some (handleOpX req) else none

end DimModel.Driver

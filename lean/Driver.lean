import DimModel.Driver.Main
def main : IO Unit := DimModel.Driver.main

"""Run the registered checks against a seeded change.

usage: seeded.py <dir with patch.diff, demo.py, meta.json> [--all | --props C01,C07] [--tier quick] [--tree <checkout>]

With --tree the patch is applied to that checkout (a scratch worktree of /repo at the same commit) instead of /repo, the
demonstration and the test suite run there and the checks run with VERIF_REPO=<checkout>: /repo itself is not touched, so
other work that reads /repo is not disturbed.

Applies the patch to /repo (which must be clean), runs the demonstration and the checks, and undoes the
patch straight afterwards (git checkout -- .), whatever happens.  Writes <dir>/result.json.
"""
import json, os, subprocess, sys, time

HERE = os.path.dirname(os.path.abspath(__file__))
VERIF = os.path.dirname(HERE)
REPO = "/repo"


def sh(cmd, **kw):
    return subprocess.run(cmd, shell=True, stdout=subprocess.PIPE, stderr=subprocess.STDOUT, text=True, **kw)


def main():
    global REPO
    d = os.path.abspath(sys.argv[1])
    args = sys.argv[2:]
    scratch = None
    for i, a in enumerate(args):
        if a == "--tree":
            scratch = REPO = os.path.abspath(args[i + 1])
    meta = json.load(open(os.path.join(d, "meta.json")))
    props = [meta["property"]]
    tier = "quick"
    if "--all" in args:
        props = [c["property_id"] for c in json.load(open(os.path.join(VERIF, "MANIFEST.json")))["checks"]]
    for i, a in enumerate(args):
        if a == "--props":
            props = args[i + 1].split(",")
        if a == "--tier":
            tier = args[i + 1]
    if sh("git -C %s status --porcelain" % REPO).stdout.strip():
        print("/repo is not clean"); sys.exit(2)
    res = {"property": meta["property"], "title": meta.get("title"), "checks": {}}
    demo = os.path.join(d, "demo.py")
    if os.path.exists(demo):
        res["demo_exit_clean"] = sh("cd %s && PYTHONPATH=%s:%s/harness/netCDF4_standin /venv/bin/python %s" % (REPO, REPO, VERIF, demo), timeout=300).returncode
    r = sh("git -C %s apply %s" % (REPO, os.path.join(d, "patch.diff")))
    if r.returncode != 0:
        print("patch does not apply:", r.stdout); sys.exit(2)
    try:
        if os.path.exists(demo):
            r = sh("cd %s && PYTHONPATH=%s:%s/harness/netCDF4_standin /venv/bin/python %s" % (REPO, REPO, VERIF, demo), timeout=300)
            res["demo_exit_patched"] = r.returncode
        if "--notests" not in args:
            if scratch:
                r = sh("cd %s && PYTHONPATH=%s /venv/bin/python -m pytest -ra -q -p no:cacheprovider --timeout=900 "
                       "--continue-on-collection-errors 2>&1 | tail -1" % (REPO, REPO), timeout=1800)
            else:
                r = sh("cd %s && ./baseline.sh 2>&1 | tail -1" % VERIF, timeout=1800)
            res["tests_patched"] = r.stdout.strip().splitlines()[-1] if r.stdout.strip() else ""
        for p in props:
            t0 = time.time()
            r = sh("cd %s && VERIF_REPO=%s ./check %s --tier %s" % (VERIF, REPO, p, tier), timeout=3600)
            lines = [l for l in r.stdout.splitlines() if l.startswith("VIOLATION") or l.startswith("KNOWN-FINDING")]
            res["checks"][p] = {"exit": r.returncode, "lines": lines[:6], "seconds": round(time.time() - t0, 1)}
            print(p, "exit", r.returncode, lines[:2])
    finally:
        sh("git -C %s checkout -- ." % REPO)
        left = sh("git -C %s status --porcelain" % REPO).stdout.strip()
        if left:
            print("WARNING: /repo not clean after undo:", left)
    res["detected_by"] = sorted(p for p, v in res["checks"].items() if v["exit"] == 1)
    res["infra_errors"] = sorted(p for p, v in res["checks"].items() if v["exit"] not in (0, 1))
    if res["infra_errors"]:
        print("INFRA (exit 2) in:", res["infra_errors"])
    json.dump(res, open(os.path.join(d, "result.json"), "w"), indent=1)
    print("demo clean/patched:", res.get("demo_exit_clean"), res.get("demo_exit_patched"), "| tests:", res.get("tests_patched"))
    print("detected by:", res["detected_by"])


if __name__ == "__main__":
    main()

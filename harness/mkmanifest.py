"""(re)generate MANIFEST.json from the list of implemented property plugins"""
import json, os, sys
V = os.path.dirname(os.path.dirname(os.path.abspath(__file__)))
props = [json.loads(l) for l in open(os.path.join(V, "properties.jsonl"))]
claims = json.load(open(os.path.join(V, "harness", "claims.json")))
checks, na = [], []
for p in props:
    pid = p["id"]
    c = claims.get(pid)
    if not c or c.get("not_applicable"):
        na.append({"property_id": pid, "reason": (c or {}).get("reason", "check not built yet in this round (planned in DESIGN.md section 5); nothing is claimed for it")})
        continue
    checks.append({
        "property_id": pid,
        "quick_cmd": "./check %s --tier quick" % pid,
        "thorough_cmd": "./check %s --tier thorough" % pid,
        "evidence_file": "evidence/%s.json" % pid,
        "replay_cmd_template": "./check %s --replay {path}" % pid,
        "engine": "lean4-proof+correspondence",
        "level_claimed": {"category": "proof", "text": c["text"], "design_ref": "DESIGN.md section 0 (as built: 0.2 table row %s, 0.5 trusted base) and section 5 (%s: reasoning behind the design)" % (pid, pid)},
        "level_note": c["note"],
        "technique": c.get("technique", "Lean 4 theorems about a hand-written model + differential correspondence check against /repo"),
    })
m = {
    "version": 1,
    "setup_cmd": "cd lean && lake build",
    "hooks": {"guard": "DIMARRAY_VERIF", "enable": "no source hooks are needed: the harness imports dimarray from /repo's working tree in-process and wraps from outside; the guard name is reserved", "baseline_off_cmd": "./baseline.sh", "source_commits": [], "add_only": True},
    "engines": [{"name": "lean4-proof+correspondence", "path": "check", "serves_properties": [c["property_id"] for c in checks],
                 "kind_free_text": "Lean 4 model (lean/DimModel: Prim, Lib mirror, Spec, Props theorems) + Python differential harness (harness/) driving the model through a JSON line protocol"}],
    "checks": checks,
    "not_applicable": na,
    "notes": "exit 2 = infrastructure problem (never a violation). VERIF_SEED seeds the single PRNG; VERIF_REPO selects the tree under test (default /repo).",
}
json.dump(m, open(os.path.join(V, "MANIFEST.json"), "w"), indent=1)
print("checks:", [c["property_id"] for c in checks], "n/a:", len(na))

"""debug helper: run a property's generator and print classes of disagreements"""
import sys, os, json, random, collections
sys.path.insert(0, os.path.dirname(os.path.abspath(__file__)))
import core, run
pid = sys.argv[1]; n = int(sys.argv[2]) if len(sys.argv) > 2 else 500
seed = int(os.environ.get("VERIF_SEED", "0"))
tier = os.environ.get("VERIF_TIER", "quick")
prop = run.load_prop(pid)
rng = random.Random(seed)
cases = []
for c in prop.gen(rng, tier):
    cases.append(c)
    if len(cases) >= n: break
ios = [prop.impl(c) for c in cases]
reqs = []
for i, c in enumerate(cases):
    r = prop.request(c); r["id"] = i; reqs.append(r)
ok, log = core.lake_build()
if not ok: print(log[-3000:]); sys.exit(2)
ans = core.run_driver(reqs, tag="dbg")
groups = collections.defaultdict(list)
for c, io, a in zip(cases, ios, ans):
    mm = prop.judge(c, io, a)
    if mm:
        if prop.known(c, io, a, mm, [f for f in core.load_findings() if f.get("status") == "open"]):
            continue
        key = (mm["kind"], tuple(mm["differs"]), (io.get("msg") or "")[:60], json.dumps(a.get("lib", {}).get("err", "") if isinstance(a.get("lib"), dict) else "") + json.dumps(mm.get("detail", ""))[:150])
        groups[key].append((c, io, a, mm))
print(len(cases), "cases;", sum(len(v) for v in groups.values()), "disagreements in", len(groups), "classes")
for k, v in sorted(groups.items(), key=lambda kv: -len(kv[1])):
    print("=" * 100); print(len(v), k)
    v.sort(key=lambda x: prop.size(x[0]))
    c, io, a, mm = v[0]
    print(" case:", json.dumps(c)[:1500]); print(" impl:", json.dumps(io, default=str)[:700]); print(" lean:", json.dumps(a)[:700])

"""C16 - metadata: attribute routing and propagation rules."""
import copy, itertools, warnings
import numpy as np
import core, gen
from core import da, Axis, DimArray, Dataset
from .base import Prop

CLASSES = ["DimArray", "Dataset", "Axis"]
NAMES = {
    "DimArray": [("public", "units"), ("public2", "long_name"), ("underscore", "_hidden"), ("member_ro", "shape"),
                 ("member_rw", "values"), ("member_fn", "take"), ("dim", "x")],
    "Dataset": [("public", "units"), ("public2", "long_name"), ("underscore", "_hidden"), ("member_ro", "labels_"),
                ("member_rw", "dims"), ("member_fn", "keys"), ("dim", "x")],
    "Axis": [("public", "units"), ("public2", "long_name"), ("underscore", "_hidden"), ("member_ro", "size"),
             ("member_rw", "values"), ("member_fn", "take"), ("excluded", "name")],
}
NAMES["Dataset"][3] = ("member_ro", "ndim")


def fresh(cls):
    ax = Axis(np.array([10, 20, 30]), "x")
    if cls == "Axis":
        return ax
    a = DimArray(np.array([1.0, 2.0, 3.0]), axes=[ax])
    if cls == "DimArray":
        return a
    return Dataset({"v": a})


def labels_of(obj, cls):
    if cls == "Axis":
        return obj.values.tolist()
    return obj.axes["x"].values.tolist()


def probe(cls, nclass, name, present, op):
    obj = fresh(cls)
    if present:
        obj.attrs[name] = "stored"
    before_labels = labels_of(obj, cls)
    try:
        if op == "get":
            v = getattr(obj, name)
            if isinstance(v, str) and v == "stored":
                return "attrs"
            if isinstance(v, np.ndarray) and v.tolist() == before_labels and nclass in ("dim",):
                return "labels"
            return "member"
        if op == "set":
            val = [11, 21, 31] if nclass == "dim" else ("newval" if nclass not in ("member_rw",) else getattr(obj, name))
            setattr(obj, name, val)
            if isinstance(obj.attrs.get(name, None), str) and obj.attrs.get(name) == "newval":
                return "attrs"
            if nclass == "dim" and name in obj.attrs and not isinstance(obj.attrs[name], str):
                return "attrs"
            if labels_of(obj, cls) != before_labels:
                return "labels"
            return "object"
        if op == "del":
            had = name in obj.attrs
            delattr(obj, name)
            if had and name not in obj.attrs:
                return "attrs"
            return "object"
    except AttributeError:
        return "attrerr"
    except Exception as e:  # noqa
        return "err_" + core.exc_class(e)
    raise ValueError(op)


class C16(Prop):
    id = "C16"
    theorems = ["route_public", "route_dim", "route_private_never_enters", "route_stored_private_unreachable",
                "routing_table_complete", "attrs_kept_take", "attrs_kept_reindex", "attrs_kept_transpose",
                "attrs_kept_reduce", "attrs_kept_put", "attrs_kept_takeAxis", "attrs_kept_fillna",
                "attrs_dropped_operation", "attrs_dropped_stack", "axis_attrs_kept_select", "axis_attrs_kept_take", "take_attrs", "take_axis_attrs", "put_attrs", "put_axis_attrs", "reindexAxis_attrs", "reindexAxis_axis_attrs",
                "reindexLike_attrs", "reindexLike_axis_attrs", "sortAxis_attrs", "sortAxis_axis_attrs", "align_attrs", "align_axis_attrs",
                "transpose_attrs", "transpose_axis_attrs", "swapaxes_attrs", "rollaxis_attrs", "newaxis_attrs", "newaxis_axis_attrs",
                "squeeze_attrs", "squeeze_axis_attrs", "flatten_attrs", "flatten_axis_attrs", "unflattenAll_attrs", "reshape_attrs",
                "reshape_axis_attrs", "broadcast_attrs", "broadcast_axis_attrs", "operation_attrs", "operation_axis_attrs", "stack_attrs",
                "stack_axis_attrs", "concatenate_attrs", "concatenate_axis_attrs", "reduceAxis_attrs", "reduceAxis_axis_attrs", "argAxis_attrs",
                "cumAxis_attrs", "diffAxis_attrs", "diffAxis_axis_attrs", "compressAxis_attrs", "takeAxis_attrs", "takeAxis_axis_attrs",
                "dropna_attrs", "fillna_attrs", "setna_attrs", "interpAxis_attrs", "interpAxis_axis_attrs", "interpAxis_axis_attrs_counterexample",
                "takeAxisPosDs_attrs", "takeAxisPosDs_axis_attrs", "sortAxisDs_axis_attrs", "reindexAxisDs_axis_attrs", "takeDs_attrs",
                "unaryOp_attrs", "unaryOp_axis_attrs", "unaryOp_attrs_counterexample", "reduceX_attrs", "reduceX_axis_attrs",
                "sortAxisKey_attrs", "sortAxisKey_axis_attrs", "takeAxisInts_attrs", "takeAxisInts_axis_attrs",
                "compressNd_attrs", "compressNd_axis_attrs", "unaryOpDs_attrs", "rbinaryOpDs_attrs", "takeAxisIntsDs_attrs",
                "stackDsA_attrs", "stackDsA_axis_attrs", "concatenateDsA_attrs", "concatenateDsA_axis_attrs", "reduceAllDs_attrs",
                "reduceDs_attrs", "binaryOpDs_attrs", "binaryOpDs_axis_attrs", "stackDs_attrs", "stackDs_axis_attrs",
                "concatenateDs_attrs", "concatenateDs_axis_attrs", "reindexLikeDs_attrs", "copyDs_attrs",
                "reindexAxisDsM_attrs", "reindexAxisDsM_axis_attrs", "readFile_attrs", "readMulti_attrs",
                "interpAxisDs_attrs", "interpLike_attrs", "interpLikeDs_attrs", "reduceAllDs_axis_attrs",
                "reduceDs_axis_attrs", "copyDs_axis_attrs", "unaryOpDs_axis_attrs", "rbinaryOpDs_axis_attrs"]
    rule = ("routing: the complete table class {DimArray, Dataset, Axis} x name class {public, underscore, read-only member, "
            "settable member, method, dimension name / excluded name} x {stored in attrs, absent} x {get, set, del} is "
            "tabulated from the implementation on every run (126 rows) and proved by `decide`; propagation: every operation "
            "class of the statement (indexing, reductions, cumulative/diff, reshaping family, reindexing, sorting, take_axis/"
            "compress/dropna/fillna/setna, interpolation; slicing/reindexing of an axis for axis metadata; arithmetic, "
            "comparisons, stack, concatenate) is run on arrays carrying array-level and axis-level metadata with values of "
            "several types and attribute names that collide with constructor parameters; indexing in 35 spellings (N-d boolean "
            "read / compress, take with dict / tuple / axis= / position / keepdims / tol / broadcast, sel, isel, loc, iloc, nloc, "
            "ix, getitem with scalar / tuple / dict / 1-D mask / ellipsis) with DISTINCT metadata on every axis, all remaining "
            "axes compared; the attrs property on the three classes (setter with a fresh dict / empty / another object's attrs, "
            "deleter, then attribute access); Axis objects sliced / taken directly (int, float, str labels, with tol); Dataset "
            "operations (indexing spellings, reductions, take_axis, sort_axis, reindex_axis / _like, interp_axis: per-variable "
            "metadata kept; arithmetic, stack_ds, concatenate_ds: dropped; axis metadata under slicing; Dataset-level metadata "
            "recorded only - the statement gives no rule for it). Non-trivial = every case; "
            "distinct = canonical JSON")
    assumptions = ["attribute values are opaque (compared by value)",
                   "operations the sweep exercises that have NO Lean mirror at all (their propagation is decided by the direct sweep only): "
                   "broadcast (pointwise) indexing take(..., broadcast=True) [fn take_broadcast], the attrs property setter / deleter "
                   "[op attrs_prop], Axis objects sliced directly with ndarray / boolean keys [ax_ndarray, ax_bool: only Axis.__getitem__ on "
                   "positions is mirrored, as axisSelect]",
                   "mirror functions that return an array / Dataset and still have NO kept / dropped theorem pair (sweep only): "
                   "DatasetCtor.construct (a state machine over axis identities: it carries no metadata field); attrs half only "
                   "(no axis half): stackDsA / concatenateDsA with align=True (the axes of the aligned Datasets are not traced back "
                   "to the inputs), reindexLikeDs (needs dimension preservation of reindex_axis, true for well-formed Datasets only), "
                   "readFile, readMulti, and the axes OTHER than the interpolated one of interpAxisDs / interpLike / interpLikeDs "
                   "(wave 5: reindexAxisDsM, readFile, readMulti, interpAxisDs, interpLike, interpLikeDs have their pair; reduceAllDs, "
                   "reduceDs, copyDs, unaryOpDs, rbinaryOpDs their axis half)"]

    def mirrors(self):
        from dimarray.core import bases, dimarraycls
        return {"__getattr__": bases.GetSetDelAttrMixin.__getattr__, "__setattr__": bases.GetSetDelAttrMixin.__setattr__,
                "__delattr__": bases.GetSetDelAttrMixin.__delattr__, "_constructor": dimarraycls.DimArray._constructor}

    # ---- the routing table
    def pre_build(self):
        rows = []
        for cls in CLASSES:
            for nclass, name in NAMES[cls]:
                for present in (False, True):
                    for op in ("get", "set", "del"):
                        with warnings.catch_warnings():
                            warnings.simplefilter("ignore")
                            rows.append((cls, nclass, present, op, probe(cls, nclass, name, present, op)))
        body = ",\n  ".join('("%s", "%s", %s, "%s", "%s")' % (c, n, "true" if p else "false", o, r) for c, n, p, o, r in rows)
        content = ("/- GENERATED on every run by harness/props/c16.py: outcome of attribute get / set / del on the three\n"
                   "   classes for every class of attribute name, observed on the implementation -/\n"
                   "namespace DimModel.Gen\n\n/-- (class, name class, stored in attrs beforehand, operation, outcome) -/\n"
                   "def routingTable : List (String × String × Bool × String × String) := [\n  %s]\n\nend DimModel.Gen\n" % body)
        changed = core.write_table("TableC16", content)
        self._table = rows
        return {"changed": changed, "summary": {"routing rows": len(rows)}, "rows": rows}

    def table_failing_rows(self, info):
        bad = []
        for c, n, p, o, r in info["rows"]:
            ok = True
            if n in ("public", "public2"):
                ok = r == ("attrs" if (o == "set" or p) else "attrerr")
            elif n == "dim":
                ok = (r == "labels") if o in ("get", "set") else (r != "attrs" or p)
                if o == "del":
                    ok = True
            else:
                ok = r != "attrs"
            if not ok:
                bad.append({"class": c, "name_class": n, "stored": p, "op": o, "outcome": r})
        return bad

    def table_replay_hint(self):
        return "see harness/props/c16.py: probe(cls, name_class, name, present, op)"

    def extra_evidence(self):
        return {"tabulated_rows": len(getattr(self, "_table", []))}

    # ------------------------------------------------------------ propagation cases
    OPS_KEEP = ["getitem", "take_list", "ix", "sum_axis", "mean_tuple", "cumsum", "diff", "transpose", "swapaxes", "newaxis",
                "squeeze", "flatten", "reshape", "reindex_axis", "reindex_like", "sort_axis", "take_axis", "compress_axis",
                "dropna", "fillna", "setna", "interp_axis", "repeat", "broadcast", "put_copy", "median", "argmax", "rollaxis",
                "unflatten", "flatten_rev", "flatten_apart", "flatten_insert", "mean_tuple_rev", "sum_tuple_last"]
    OPS_DROP = ["add", "mul_scalar", "rsub", "eq", "lt", "neg", "stack", "concatenate", "pow", "stack_one", "concatenate_one",
                "concatenate_one_x"]
    OPS_AXIS_KEEP = ["axis_slice", "axis_list", "axis_reindex", "axis_take", "axis_sort", "axis_compress", "axis_transpose",
                     "axis_reindex_axisobj", "axis_reindex_axisobj_present", "axis_reindex_like"]

    # ---- indexing in its other spellings (array metadata carried over; every axis that remains is a slice of the operand's
    # axis of that name - explicitly or through the implied full slice - and keeps that axis' metadata)
    OPS_INDEX = ["boolnd", "boolnd_ndarray", "compress", "compress_list", "take_dict", "take_dict_scalar", "take_dict_pos", "take_tuple",
                 "take_axis_kw", "take_axis_int", "take_pos", "take_keepdims", "take_slice_pos", "take_ndarray", "take_broadcast",
                 "sel", "sel_scalar", "isel", "isel_slice", "loc", "loc_tuple", "iloc", "iloc_list", "nloc", "getitem_scalar",
                 "getitem_tuple", "getitem_bool1d", "getitem_dict", "getitem_ellipsis", "ix_list", "ix_scalar", "ix_step", "ix_tuple",
                 "take_tol", "getitem_all"]
    # of these, the ones whose result has axes other than (slices of) the operand's
    INDEX_NEW_AXES = ("boolnd", "boolnd_ndarray", "compress", "compress_list", "take_broadcast")
    # Dataset operations: per-variable metadata kept / dropped, axis metadata under slicing / reindexing
    DS_KEEP = ["ds_take", "ds_take_pos", "ds_take_scalar", "ds_ix", "ds_sel", "ds_isel", "ds_loc", "ds_take_names", "ds_mean", "ds_sum",
               "ds_std", "ds_median", "ds_var", "ds_take_axis", "ds_sort_axis", "ds_reindex_axis", "ds_reindex_like", "ds_interp_axis",
               "ds_getitem_var"]
    DS_DROP = ["ds_add", "ds_mul_scalar", "ds_neg", "ds_sub_scalar", "ds_stack", "ds_concatenate"]
    DS_SLICING = ("ds_take", "ds_take_pos", "ds_take_scalar", "ds_ix", "ds_sel", "ds_isel", "ds_loc", "ds_take_names", "ds_getitem_var")
    DS_REINDEXING = ("ds_reindex_axis", "ds_reindex_like")
    AXIS_DIRECT = ["ax_slice", "ax_slice_all", "ax_list", "ax_bool", "ax_ndarray", "ax_take", "ax_take_clip", "ax_step"]
    # "set_self" (obj.attrs = obj.attrs): the setter used to clear the dictionary before reading the value, so assigning an
    # object's own attrs to it wiped its metadata (repaired: the value is read first)
    ATTRS_ACTIONS = ["set", "set", "set_empty", "del", "set_from_other", "set_then_getattr", "del_then_set", "set_self"]

    def gen(self, rng, tier):
        n = 400 if tier == "quick" else 6000
        ops = self.OPS_KEEP + self.OPS_DROP + self.OPS_AXIS_KEEP
        yield from self.gen_new(rng, tier)
        for i in range(n):
            op = ops[i % len(ops)] if i < 2 * len(ops) else rng.choice(ops)
            keys = rng.sample(["units", "long_name", "history", "dtype", "copy", "n", "values", "name", "axes", "dims", "labels"], rng.randint(1, 3))
            vals = {}
            for k in keys:
                vals[k] = rng.choice(["K", 3, 2.5, [1, 2], {"a": 1}, "float32"]) if k != "dtype" else rng.choice(["int32", "K"])
            rank = rng.choice([2, 2, 3])
            if op in ("flatten_apart", "sum_tuple_last", "mean_tuple_rev"):
                rank = 3
            # warm: the axes have been asked for their ordering before (cached state from an earlier alignment / query)
            yield {"op": "propagate", "fn": op, "rank": rank, "attrs": vals, "axis_attrs": {"units": rng.choice(["m", 7]), "calendar": "x"},
                   "seed": rng.randint(0, 10 ** 6), "warm": rng.random() < 0.4, "xorder": rng.choice(["shuf", "inc", "dec"])}

    ATTR_KEYS = ["units", "long_name", "history", "dtype", "copy", "n", "values", "name", "axes", "dims", "labels"]
    ATTR_VALS = ["K", 3, 2.5, [1, 2], {"a": 1}, "float32"]
    # an AXIS attrs entry named like a parameter of Axis.__init__ ('dtype': was silently dropped and the labels cast;
    # 'tol', 'name', 'values': TypeError "multiple values") must survive slicing / reindexing of the axis like any other
    # (Axis.__getitem__ / Axis.take used to re-create the axis with **self.attrs - the axis-level twin of F25 / K08; repaired)
    AXIS_COLLIDING_KEYS = ["dtype", "tol", "name", "values"]
    AXIS_COLLIDING_KEYS_ENABLED = True

    def rand_attrs(self, rng, lo=1, hi=3, keys=None):
        keys = rng.sample(keys or self.ATTR_KEYS, rng.randint(lo, hi))
        return {k: (rng.choice(self.ATTR_VALS) if k != "dtype" else rng.choice(["int32", "K"])) for k in keys}

    def rand_axis_attrs(self, rng):
        keys = ["units", "calendar", "long_name", "n", "copy", "weights"] + (self.AXIS_COLLIDING_KEYS if self.AXIS_COLLIDING_KEYS_ENABLED else [])
        return {k: rng.choice(["m", 7, [1, 2], {"a": 1}, 2.5]) for k in rng.sample(keys, rng.randint(1, 3))}

    def gen_new(self, rng, tier):
        """the strata added for the audit: indexing spellings with all-axes metadata, the attrs property (setter / deleter),
        Axis objects sliced directly, Dataset operations"""
        q = tier == "quick"
        k = 0
        for i in range(260 if q else 4000):
            fn = self.OPS_INDEX[i % len(self.OPS_INDEX)] if i < 2 * len(self.OPS_INDEX) else rng.choice(self.OPS_INDEX)
            rank = rng.choice([2, 2, 3])
            yield {"op": "propagate", "fn": fn, "rank": rank, "attrs": self.rand_attrs(rng), "axis_attrs": {"units": rng.choice(["m", 7]), "calendar": "x"},
                   "per_axis": {d: self.rand_axis_attrs(rng) for d in ["x", "y", "z"][:rank]},
                   "seed": rng.randint(0, 10 ** 6), "warm": rng.random() < 0.3, "xorder": rng.choice(["shuf", "inc", "dec"])}
        # the older operation classes again, now with distinct metadata on every axis (all remaining axes are compared)
        older = self.OPS_AXIS_KEEP
        for i in range(80 if q else 1500):
            fn = older[i % len(older)] if i < 2 * len(older) else rng.choice(older)
            rank = rng.choice([2, 2, 3])
            yield {"op": "propagate", "fn": fn, "rank": rank, "attrs": self.rand_attrs(rng), "axis_attrs": {"units": rng.choice(["m", 7]), "calendar": "x"},
                   "per_axis": {d: self.rand_axis_attrs(rng) for d in ["x", "y", "z"][:rank]},
                   "seed": rng.randint(0, 10 ** 6), "warm": rng.random() < 0.3, "xorder": rng.choice(["shuf", "inc", "dec"])}
        for i in range(150 if q else 2500):
            cls = CLASSES[i % 3]
            act = self.ATTRS_ACTIONS[(i // 3) % len(self.ATTRS_ACTIONS)] if i < 3 * len(self.ATTRS_ACTIONS) else rng.choice(self.ATTRS_ACTIONS)
            keys = ["units", "long_name", "history", "n", "x", "values", "shape", "_hidden", "attrs", "name", "dims", "take", "title"]
            yield {"op": "attrs_prop", "cls": cls, "action": act, "init": self.rand_attrs(rng, 0, 3, keys), "new": self.rand_attrs(rng, 0, 4, keys),
                   "seed": rng.randint(0, 10 ** 6)}
        for i in range(60 if q else 1000):
            fn = self.AXIS_DIRECT[i % len(self.AXIS_DIRECT)] if i < 2 * len(self.AXIS_DIRECT) else rng.choice(self.AXIS_DIRECT)
            yield {"op": "axis_direct", "fn": fn, "attrs": self.rand_axis_attrs(rng), "kind": rng.choice(["i", "f", "O"]), "n": rng.randint(2, 5),
                   "tol": rng.choice([None, None, 0.5]), "warm": rng.random() < 0.4, "seed": rng.randint(0, 10 ** 6)}
        dsops = self.DS_KEEP + self.DS_DROP
        for i in range(200 if q else 3500):
            fn = dsops[i % len(dsops)] if i < 2 * len(dsops) else rng.choice(dsops)
            yield {"op": "ds_propagate", "fn": fn, "var_attrs": {v: self.rand_attrs(rng, 1, 2, ["units", "long_name", "history", "n", "dtype", "copy", "labels"]) for v in ("a", "b", "c")},
                   "per_axis": {d: self.rand_axis_attrs(rng) for d in ("x", "y")}, "ds_attrs": self.rand_attrs(rng, 0, 2, ["title", "history", "n"]),
                   "xorder": rng.choice(["shuf", "inc", "dec"]), "seed": rng.randint(0, 10 ** 6)}

    # ------------------------------------------------------------ the attrs property: setter replaces content, deleter clears
    def impl_attrs_prop(self, c):
        def mk(v):
            return np.arange(3) if v == "ND" else copy.deepcopy(v)
        canon = lambda d: repr(sorted((str(k), repr(core._attr_key(v))) for k, v in dict(d).items()))

        def levels(obj, cls):
            """the metadata of the other levels (axes of an array; variables and axes of a Dataset)"""
            if cls == "Axis":
                return []
            out = [("axis:" + ax.name, canon(ax.attrs)) for ax in obj.axes]
            if cls == "Dataset":
                out += [("var:" + k, canon(obj[k].attrs)) for k in obj.keys()]
            return out

        def run():
            with warnings.catch_warnings():
                warnings.simplefilter("ignore")
                cls, act = c["cls"], c["action"]
                obj = fresh(cls)
                if cls != "Axis":
                    obj.axes["x"].attrs["axunits"] = "m"
                if cls == "Dataset":
                    dict.__getitem__(obj, "v").attrs["varname"] = "V"
                for k, v in c["init"].items():
                    obj.attrs[k] = mk(v)
                init = canon(obj.attrs)
                lv0 = levels(obj, cls)
                given = {k: mk(v) for k, v in c["new"].items()}
                given0 = canon(given)
                out = {"init": init, "want_new": given0}
                if act in ("set", "set_then_getattr"):
                    obj.attrs = given
                elif act == "set_empty":
                    obj.attrs = {}
                elif act == "del":
                    del obj.attrs
                elif act == "del_then_set":
                    del obj.attrs
                    obj.attrs["after"] = 1
                elif act == "set_self":
                    obj.attrs = obj.attrs
                elif act == "set_from_other":
                    o2 = fresh(cls)
                    for k, v in given.items():
                        o2.attrs[k] = v
                    obj.attrs = o2.attrs
                    out["other_after"] = canon(o2.attrs)
                    out["same_object_as_other"] = obj.attrs is o2.attrs
                out["after"] = canon(obj.attrs)
                out["is_dict"] = isinstance(obj.attrs, dict)
                out["given_after"] = canon(given)
                out["levels_same"] = levels(obj, cls) == lv0
                out["labels"] = labels_of(obj, cls)
                if act in ("set", "set_then_getattr"):
                    # later changes of the dict that was handed over are not changes of the object's metadata
                    given["__later__"] = 1
                    out["aliased"] = "__later__" in obj.attrs
                    obj.attrs.pop("__later__", None)
                if act == "set_then_getattr":
                    # a public name that is neither a class member nor a dimension reads the attrs dictionary
                    got = {}
                    for k in c["new"]:
                        if k.startswith("_") or hasattr(type(obj), k) or (cls != "Axis" and k in obj.dims) or (cls == "Axis" and k in ("name", "values")):
                            continue
                        try:
                            got[k] = repr(core._attr_key(getattr(obj, k)))
                        except AttributeError:
                            got[k] = "attrerr"
                    out["getattr"] = got
                    out["want_getattr"] = {k: repr(core._attr_key(mk(c["new"][k]))) for k in got}
                # the object still works as a metadata holder afterwards
                obj.attrs["probe"] = 5
                out["usable"] = obj.attrs.get("probe") == 5 and getattr(obj, "probe", None) == 5
                return out
        return core.guarded(run)

    def judge_attrs_prop(self, c, io):
        if "err" in io:
            return ["outcome:" + io["err"]]
        o, act, bad = io["ok"], c["action"], []
        empty = repr([])
        want = {"set": o["want_new"], "set_then_getattr": o["want_new"], "set_empty": empty, "del": empty, "set_self": o["init"],
                "set_from_other": o["want_new"], "del_then_set": repr([("after", repr(core._attr_key(1)))])}[act]
        if o["after"] != want:
            bad.append("attrs." + act + ":content")
        if not o["is_dict"] or not o["usable"]:
            bad.append("attrs." + act + ":unusable")
        if o["given_after"] != o["want_new"]:
            bad.append("attrs." + act + ":given_dict_modified")
        if not o["levels_same"]:
            bad.append("attrs." + act + ":other_levels_changed")
        if o["labels"] != [10, 20, 30]:
            bad.append("attrs." + act + ":labels_changed")
        if o.get("aliased"):
            bad.append("attrs.set:aliases_given_dict")
        if act == "set_from_other" and (o["other_after"] != o["want_new"] or o["same_object_as_other"]):
            bad.append("attrs.set_from_other:other_changed_or_shared")
        if act == "set_then_getattr" and o["getattr"] != o["want_getattr"]:
            bad.append("attrs.set_then_getattr:not_routed")
        return bad

    # ------------------------------------------------------------ Axis objects sliced directly
    def impl_axis_direct(self, c):
        import random
        rng = random.Random(c["seed"])
        n = c["n"]
        if c["kind"] == "O":
            labs = np.empty(n, dtype=object)
            for i, v in enumerate(rng.sample(["a", "b", "c", "d", "e", "f"], n)):
                labs[i] = v
        else:
            labs = np.array(rng.sample(range(0, 40, 3), n), dtype=np.int64 if c["kind"] == "i" else np.float64)
        ax = Axis(labs, "x", tol=c["tol"]) if c["tol"] is not None and c["kind"] != "O" else Axis(labs, "x")
        for k, v in c["attrs"].items():
            ax.attrs[k] = copy.deepcopy(v)
        canon = lambda d: repr(sorted((str(k), repr(core._attr_key(v))) for k, v in dict(d).items()))
        want = canon(ax.attrs)
        if c["warm"]:
            ax.is_monotonic()
        mask = np.array([i % 2 == 0 for i in range(n)])

        def run():
            with warnings.catch_warnings():
                warnings.simplefilter("ignore")
                r = {"ax_slice": lambda: ax[1:], "ax_slice_all": lambda: ax[:], "ax_list": lambda: ax[[0, n - 1]], "ax_bool": lambda: ax[mask],
                     "ax_ndarray": lambda: ax[np.array([n - 1, 0])], "ax_take": lambda: ax.take([n - 1, 0]), "ax_take_clip": lambda: ax.take([0, n + 3], mode="clip"),
                     "ax_step": lambda: ax[::2]}[c["fn"]]()
                return {"is_axis": isinstance(r, Axis), "attrs": canon(r.attrs) if isinstance(r, Axis) else None,
                        "name": getattr(r, "name", None), "operand_attrs_after": canon(ax.attrs)}
        o = core.guarded(run)
        o["want"] = want
        return o

    # ------------------------------------------------------------ Dataset operations
    def impl_ds(self, c):
        canon = lambda d: repr(sorted((str(k), repr(core._attr_key(v))) for k, v in dict(d).items()))
        xl = {"shuf": [30, 10, 20], "inc": [10, 20, 30], "dec": [30, 20, 10]}[c.get("xorder", "shuf")]

        def mkds(shift=0.0):
            ax = Axis(np.array(xl), "x")
            ay = Axis(np.array([0.0, 1.5]), "y")
            for a_, d in ((ax, "x"), (ay, "y")):
                for k, v in c["per_axis"][d].items():
                    a_.attrs[k] = copy.deepcopy(v)
            va = DimArray(np.arange(6.0).reshape(3, 2) + 0.5 + shift, axes=[ax, ay])
            vb = DimArray(np.arange(3.0) + 10.5 + shift, axes=[ax.copy()])
            vc = DimArray(np.arange(2.0) + 20.5 + shift, axes=[ay.copy()])
            for nm, v in (("a", va), ("b", vb), ("c", vc)):
                for k, val in c["var_attrs"][nm].items():
                    v.attrs[k] = copy.deepcopy(val)
            from collections import OrderedDict
            ds = Dataset(OrderedDict([("a", va), ("b", vb), ("c", vc)]))
            for k, v in c["ds_attrs"].items():
                ds.attrs[k] = copy.deepcopy(v)
            return ds
        ds = mkds()
        want_vars = {k: canon(ds[k].attrs) for k in ds.keys()}
        want_dims = {k: list(ds[k].dims) for k in ds.keys()}
        want_axes = {ax.name: canon(ax.attrs) for ax in ds.axes}
        want_ds = canon(ds.attrs)
        fn = c["fn"]

        def run():
            with warnings.catch_warnings():
                warnings.simplefilter("ignore")
                ds2 = mkds(100.0)
                like = DimArray(np.arange(2.0), axes=[Axis(np.array([xl[2], xl[0]]), "x")])
                r = {"ds_take": lambda: ds.take(indices=[xl[2], xl[0]], axis="x"), "ds_take_pos": lambda: ds.take(indices=[0, 2], axis="x", indexing="position"),
                     "ds_take_scalar": lambda: ds.take(indices=xl[1], axis="x"), "ds_ix": lambda: ds.ix[0:2], "ds_sel": lambda: ds.sel(x=[xl[0]], y=[1.5, 0.0]),
                     "ds_isel": lambda: ds.isel(y=[1]), "ds_loc": lambda: ds.loc[[xl[1], xl[0]]], "ds_take_names": lambda: ds.take(names=["a", "b"], indices=[xl[0]], axis="x"),
                     "ds_mean": lambda: ds.mean(axis="x"), "ds_sum": lambda: ds.sum(axis="y"), "ds_std": lambda: ds.std(axis="x"), "ds_median": lambda: ds.median(axis="y"),
                     "ds_var": lambda: ds.var(axis=0), "ds_take_axis": lambda: ds.take_axis([xl[1], xl[2]], axis="x"), "ds_sort_axis": lambda: ds.sort_axis(axis="x"),
                     "ds_reindex_axis": lambda: ds.reindex_axis([10, 15, 30], axis="x"), "ds_reindex_like": lambda: ds.reindex_like(like),
                     "ds_interp_axis": lambda: ds.interp_axis([12.0, 25.0], axis="x"), "ds_getitem_var": lambda: Dataset({"a": ds["a"][[xl[0]]]}),
                     "ds_add": lambda: ds + ds2, "ds_mul_scalar": lambda: ds * 2, "ds_neg": lambda: -ds, "ds_sub_scalar": lambda: ds - 1,
                     "ds_stack": lambda: da.stack_ds([ds, ds2], axis="s", keys=["p", "q"]), "ds_concatenate": lambda: da.concatenate_ds([Dataset([("a", ds["a"]), ("b", ds["b"])]), Dataset([("a", ds2["a"]), ("b", ds2["b"])])], axis="x"),
                     }[fn]()
                out = {"is_dataset": isinstance(r, Dataset)}
                if isinstance(r, Dataset):
                    out["vars"] = {k: {"attrs": canon(r[k].attrs), "ndim": int(r[k].ndim), "dims": list(r[k].dims)} for k in r.keys()}
                    out["axes"] = {ax.name: canon(ax.attrs) for ax in r.axes}
                    out["var_axes"] = {k: {ax.name: canon(ax.attrs) for ax in r[k].axes} for k in r.keys()}
                    out["ds_attrs"] = canon(r.attrs)
                return out
        o = core.guarded(run)
        o.update({"want_vars": want_vars, "want_dims": want_dims, "want_axes": want_axes, "want_ds": want_ds,
                  "operand_after": {"vars": {k: canon(ds[k].attrs) for k in ds.keys()}, "axes": {ax.name: canon(ax.attrs) for ax in ds.axes}, "ds": canon(ds.attrs)}})
        return o

    # which dimension a Dataset operation of the stream works along (None: several / all)
    DS_ALONG = {"ds_take": "x", "ds_take_pos": "x", "ds_take_scalar": "x", "ds_ix": "x", "ds_sel": None, "ds_isel": "y", "ds_loc": "x", "ds_take_names": "x",
                "ds_mean": "x", "ds_sum": "y", "ds_std": "x", "ds_median": "y", "ds_var": "x", "ds_take_axis": "x", "ds_sort_axis": "x",
                "ds_reindex_axis": "x", "ds_reindex_like": "x", "ds_interp_axis": "x", "ds_getitem_var": "x"}

    def judge_ds(self, c, io):
        fn, bad = c["fn"], []
        if "err" in io:
            return ["outcome:" + io["err"]]
        o = io["ok"]
        if not o["is_dataset"]:
            return ["not_a_dataset"]
        empty = repr([])
        if fn in self.DS_KEEP:
            along = self.DS_ALONG[fn]
            for k, v in o["vars"].items():
                # the variables the operation applies to (they have the dimension) and that come out as arrays
                if v["ndim"] == 0 or (along is not None and along not in io["want_dims"][k]):
                    continue
                if v["attrs"] != io["want_vars"][k]:
                    bad.append("var.attrs:not_kept")
        else:
            for k, v in o["vars"].items():
                if v["attrs"] != empty and io["want_vars"][k] != empty:
                    bad.append("var.attrs:not_dropped")
        if fn in self.DS_SLICING or fn in self.DS_REINDEXING:
            for name, at in o["axes"].items():
                if name not in io["want_axes"]:
                    continue
                if at != io["want_axes"][name]:
                    bad.append("axes.attrs:not_kept")
            for k, axs in o["var_axes"].items():
                for name, at in axs.items():
                    if name in io["want_axes"] and at != io["want_axes"][name]:
                        bad.append("var.axes.attrs:not_kept")
        after = io["operand_after"]
        if after["vars"] != io["want_vars"] or after["axes"] != io["want_axes"] or after["ds"] != io["want_ds"]:
            bad.append("operand_modified")
        return sorted(set(bad))

    def impl(self, c):
        if c.get("op") == "attrs_prop":
            return self.impl_attrs_prop(c)
        if c.get("op") == "axis_direct":
            return self.impl_axis_direct(c)
        if c.get("op") == "ds_propagate":
            return self.impl_ds(c)
        import random
        rng = random.Random(c["seed"])
        rank = c["rank"]
        names = ["x", "y", "z"][:rank]
        sizes = [3, 2, 1][:rank]
        xl = {"shuf": [30, 10, 20], "inc": [10, 20, 30], "dec": [30, 20, 10]}[c.get("xorder", "shuf")]
        axes = [Axis(np.array(xl[:sizes[0]]), "x")] + [Axis(np.arange(s) * 1.5, n) for n, s in zip(names[1:], sizes[1:])]
        for ax in axes:
            for k, v in c["axis_attrs"].items():
                ax.attrs[k] = copy.deepcopy(v)
            # distinct metadata per axis (so that metadata ending up on the wrong axis is visible)
            for k, v in (c.get("per_axis") or {}).get(ax.name, {}).items():
                ax.attrs[k] = copy.deepcopy(v)
        vals = np.arange(int(np.prod(sizes)), dtype=float).reshape(sizes) + 0.5
        a = DimArray(vals, axes=axes)
        for k, v in c["attrs"].items():
            a.attrs[k] = copy.deepcopy(v)
        want_attrs = copy.deepcopy(dict(a.attrs))
        want_ax = copy.deepcopy(dict(axes[0].attrs))
        want_axes = {ax.name: repr(sorted((k, repr(v)) for k, v in ax.attrs.items())) for ax in axes}
        fn = c["fn"]
        x0, x1, x2 = xl[0], xl[1], xl[2]
        mask_nd = vals > 1.0

        def run():
            with warnings.catch_warnings():
                warnings.simplefilter("ignore")
                b = DimArray(vals + 1, axes=[ax.copy() for ax in axes])
                b.attrs["other"] = 1
                if c.get("warm"):
                    for ax in a.axes:
                        ax.is_monotonic()
                    a + b.take([30], axis="x")
                r = {
                    "getitem": lambda: a[[10, 30]], "take_list": lambda: a.take([30], axis="x"), "ix": lambda: a.ix[0:2],
                    "sum_axis": lambda: a.sum(axis="x"), "mean_tuple": lambda: a.mean(axis=("x", "y")) if rank > 2 else a.mean(axis="y"),
                    "median": lambda: a.median(axis="x"), "argmax": lambda: a.argmax(axis="y"),
                    "cumsum": lambda: a.cumsum(axis="x"), "diff": lambda: a.diff(axis="x"),
                    "transpose": lambda: a.transpose(list(reversed(names))), "swapaxes": lambda: a.swapaxes(0, 1),
                    "rollaxis": lambda: a.rollaxis("y"),
                    "newaxis": lambda: a.newaxis("t", pos=1), "squeeze": lambda: a.newaxis("t").squeeze("t"),
                    "flatten": lambda: a.flatten(("x", "y")), "unflatten": lambda: a.flatten(("x", "y")).unflatten(),
                    "reshape": lambda: a.reshape("y,x", *names[2:]),
                    "flatten_rev": lambda: a.flatten(("y", "x")), "flatten_apart": lambda: a.flatten(("x", "z")),
                    "flatten_insert": lambda: a.flatten(("x", "y"), insert=rank - 2),
                    "mean_tuple_rev": lambda: a.mean(axis=("y", "x")), "sum_tuple_last": lambda: a.sum(axis=("y", "z")),
                    "repeat": lambda: a.newaxis("t").repeat(np.array([1, 2]), axis="t"),
                    "broadcast": lambda: a.broadcast([ax for ax in a.axes] + [Axis(np.array([1, 2]), "t")]),
                    "reindex_axis": lambda: a.reindex_axis([10, 15, 30], axis="x"), "reindex_like": lambda: a.reindex_like(b.take([30, 10], axis="x")),
                    "sort_axis": lambda: a.sort_axis(axis="x"), "take_axis": lambda: a.take_axis([20, 30] if sizes[0] == 3 else [30], axis="x"),
                    "compress_axis": lambda: a.compress_axis(np.array([True, False, True][:sizes[0]]), axis="x"),
                    "dropna": lambda: a.dropna(axis="x"), "fillna": lambda: a.fillna(0.), "setna": lambda: a.setna(0.5),
                    "interp_axis": lambda: a.interp_axis([12, 25], axis="x"), "put_copy": lambda: a.put(30, 1.0, axis="x", inplace=False),
                    "add": lambda: a + b, "mul_scalar": lambda: a * 2, "rsub": lambda: 1 - a, "pow": lambda: a ** 2, "eq": lambda: a == b.values,
                    "lt": lambda: a < 1, "neg": lambda: -a, "stack": lambda: da.stack([a, b], axis="s"), "concatenate": lambda: da.concatenate([a, b], axis="y"),
                    "stack_one": lambda: da.stack([a], axis="s"), "concatenate_one": lambda: da.concatenate([a], axis="y"),
                    "concatenate_one_x": lambda: da.concatenate([a], axis="x", align=True),
                    "axis_slice": lambda: a.ix[1:], "axis_list": lambda: a[[10, 30]], "axis_reindex": lambda: a.reindex_axis([10, 30, 40], axis="x"),
                    "axis_reindex_axisobj": lambda: a.reindex_axis(Axis(np.array([10, 30, 40]), "x", units="requested"), axis="x"),
                    "axis_reindex_axisobj_present": lambda: a.reindex_axis(Axis(np.array([30, 10]), "x", units="requested")),
                    "axis_reindex_like": lambda: a.reindex_like(b.take([30, 10], axis="x")),
                    "axis_take": lambda: a.take_axis([30, 10], axis="x"), "axis_sort": lambda: a.sort_axis(axis="x"),
                    "axis_compress": lambda: a.compress_axis(np.array([True, False, True][:sizes[0]]), axis="x"),
                    "axis_transpose": lambda: a.transpose(list(reversed(names))),
                    # ---- indexing in its other spellings
                    "boolnd": lambda: a[a > 1.0], "boolnd_ndarray": lambda: a[mask_nd], "compress": lambda: a.compress(a > 1.0),
                    "compress_list": lambda: a.compress(mask_nd.tolist()),
                    "take_dict": lambda: a.take({"x": [x2, x0]}), "take_dict_scalar": lambda: a.take({"y": 1.5}), "take_dict_pos": lambda: a.take({0: [x2, x0], 1: [0.0]}),
                    "take_tuple": lambda: a.take(([x2, x0], 1.5)), "take_axis_kw": lambda: a.take(x1, axis="x"), "take_axis_int": lambda: a.take([1.5, 0.0], axis=1),
                    "take_pos": lambda: a.take([0, 2], axis=0, indexing="position"), "take_keepdims": lambda: a.take(x1, axis="x", keepdims=True),
                    "take_slice_pos": lambda: a.take(slice(1, None), axis="x", indexing="position"), "take_ndarray": lambda: a.take(np.array([x2, x2, x0]), axis="x"),
                    "take_broadcast": lambda: a.take(([x0, x2], [0.0, 1.5]), broadcast=True),
                    "sel": lambda: a.sel(x=[x2, x0]), "sel_scalar": lambda: a.sel(y=0.0), "isel": lambda: a.isel(x=[0, 2], y=0), "isel_slice": lambda: a.isel(x=slice(0, 2)),
                    "loc": lambda: a.loc[[x2, x0]], "loc_tuple": lambda: a.loc[[x1], 1.5], "iloc": lambda: a.iloc[1:], "iloc_list": lambda: a.iloc[[2, 0], [1]],
                    "nloc": lambda: a.nloc[[x0 + 1, x2 - 1]], "take_tol": lambda: a.take([x0 + 0.25], axis="x", tol=0.5),
                    "getitem_scalar": lambda: a[x1], "getitem_tuple": lambda: a[[x2, x0], 1.5], "getitem_bool1d": lambda: a[np.array([True, False, True])],
                    "getitem_dict": lambda: a[{"x": [x0], "y": [1.5, 0.0]}], "getitem_ellipsis": lambda: a[x0, ...], "getitem_all": lambda: a[:],
                    "ix_list": lambda: a.ix[[0, 2]], "ix_scalar": lambda: a.ix[0], "ix_step": lambda: a.ix[::2], "ix_tuple": lambda: a.ix[1:, [0]],
                }[fn]()
            out = {"is_dimarray": isinstance(r, DimArray)}
            if isinstance(r, DimArray):
                out["attrs"] = repr(sorted((k, repr(v)) for k, v in r.attrs.items()))
                out["vkind"] = r.values.dtype.kind
                if "x" in r.dims:
                    out["x_attrs"] = repr(sorted((k, repr(v)) for k, v in r.axes["x"].attrs.items()))
                out["axes_attrs"] = {ax.name: repr(sorted((k, repr(v)) for k, v in ax.attrs.items())) for ax in r.axes}
            return out
        o = core.guarded(run)
        o["want_attrs"] = repr(sorted((k, repr(v)) for k, v in want_attrs.items()))
        o["want_x"] = repr(sorted((k, repr(v)) for k, v in want_ax.items()))
        o["operand_attrs_after"] = repr(sorted((k, repr(v)) for k, v in a.attrs.items()))
        o["want_axes"] = want_axes
        o["operand_axes_after"] = {ax.name: repr(sorted((k, repr(v)) for k, v in ax.attrs.items())) for ax in a.axes}
        return o

    def request(self, c):
        # propagation is decided against the statement itself; the model side are the attrs theorems
        return {"op": "union", "a": {"name": "x", "kind": "i", "labels": []}, "b": {"name": "x", "kind": "i", "labels": []}, "join": "outer"}

    def judge(self, c, io, ans):
        if c.get("op") in ("attrs_prop", "axis_direct", "ds_propagate"):
            if c["op"] == "attrs_prop":
                bad = self.judge_attrs_prop(c, io)
            elif c["op"] == "ds_propagate":
                bad = self.judge_ds(c, io)
            else:
                bad = []
                if "err" in io:
                    bad.append("outcome:" + io["err"])
                else:
                    o = io["ok"]
                    # an axis' metadata survives slicing of that axis (and the axis keeps its name)
                    if not o["is_axis"] or o["attrs"] != io["want"]:
                        bad.append("axis.attrs:not_kept")
                    if o["name"] != "x":
                        bad.append("axis.name")
                    if o["operand_attrs_after"] != io["want"]:
                        bad.append("operand_modified")
            if not bad:
                return None
            return {"kind": "P", "differs": bad, "msg": io.get("msg"), "impl": io.get("ok")}
        prop_bad = []
        fn = c["fn"]
        if "err" in io:
            prop_bad.append("outcome:" + io["err"])
        else:
            o = io["ok"]
            if fn in self.OPS_INDEX:
                # indexing carries the array's metadata over; every axis that remains is a slice of the operand's axis of
                # that name and keeps that axis' metadata
                if not o["is_dimarray"] or o["attrs"] != io["want_attrs"]:
                    prop_bad.append("attrs:not_kept")
                if o["is_dimarray"] and fn not in self.INDEX_NEW_AXES:
                    for name, at in o["axes_attrs"].items():
                        if name not in io["want_axes"] or at != io["want_axes"][name]:
                            prop_bad.append("axes.attrs:not_kept")
            elif fn in self.OPS_KEEP:
                if not o["is_dimarray"] or o["attrs"] != io["want_attrs"]:
                    prop_bad.append("attrs:not_kept")
                if o.get("vkind") not in (None, "f", "O", "i", "b"):
                    prop_bad.append("vkind")
            elif fn in self.OPS_DROP:
                if o["is_dimarray"] and o["attrs"] != "[]":
                    prop_bad.append("attrs:not_dropped")
            else:
                if o.get("x_attrs") != io["want_x"]:
                    prop_bad.append("axes.attrs:not_kept")
                # ... and so does the metadata of the other axes (each of them is carried over / sliced as a whole)
                if c.get("per_axis") and o.get("is_dimarray"):
                    for name, at in o["axes_attrs"].items():
                        if name in io["want_axes"] and at != io["want_axes"][name]:
                            prop_bad.append("axes.attrs:not_kept:other_axis")
        if io["operand_attrs_after"] != io["want_attrs"]:
            prop_bad.append("operand_modified")
        if "want_axes" in io and io.get("operand_axes_after") != io["want_axes"]:
            prop_bad.append("operand_modified:axes")
        if not prop_bad:
            return None
        return {"kind": "P", "differs": sorted(set(prop_bad)), "msg": io.get("msg"), "impl": io.get("ok")}

    def known(self, c, io, ans, mm, open_findings):
        # (K08 - attrs keys 'values' / 'axes' made the transforms raise TypeError - is repaired: no open finding is matched here)
        return None

    def features(self, c, io):
        op = c.get("op", "propagate")
        if op == "attrs_prop":
            return {"outcome": "err:" + io["err"] if "err" in io else "ok", "op": op, "attrs_prop": c["cls"] + ":" + c["action"],
                    "attrs_prop_init": len(c["init"]), "attrs_prop_new": len(c["new"]), "attrs_prop_overlap": len(set(c["init"]) & set(c["new"]))}
        if op == "axis_direct":
            return {"outcome": "err:" + io["err"] if "err" in io else "ok", "op": op, "fn": c["fn"], "axis_kind": c["kind"], "axis_tol": c["tol"] is not None}
        if op == "ds_propagate":
            f = {"outcome": "err:" + io["err"] if "err" in io else "ok", "op": op, "fn": c["fn"]}
            if "ok" in io and io["ok"].get("is_dataset"):
                # Dataset-level metadata: the statement gives no rule for it; what the implementation does is recorded
                f["ds_attrs_kept:" + c["fn"]] = (io["ok"]["ds_attrs"] == io["want_ds"]) if c["ds_attrs"] else "no ds attrs"
            return f
        if c["fn"] in self.OPS_INDEX or c.get("per_axis"):
            return {"outcome": "err:" + io["err"] if "err" in io else "ok", "op": op, "fn": c["fn"], "all_axes": True, "rank": c["rank"],
                    "collides": any(k in ("dtype", "copy", "values", "axes", "dims", "labels", "name") for k in c["attrs"])}
        return {"op": op, "outcome": "err:" + io["err"] if "err" in io else "ok", "fn": c["fn"], "collides": any(k in ("dtype", "copy", "values", "axes", "dims", "labels", "name") for k in c["attrs"])}

    def size(self, c):
        if c.get("op", "propagate") != "propagate":
            return len(repr(c))
        return len(c["attrs"]) + c["rank"] + sum(len(v) for v in (c.get("per_axis") or {}).values())

    def snippet(self, c):
        return ("import sys; sys.path.insert(0, '/verif/harness'); import json, core; from props.c16 import PROP; "
                "case = json.load(open(REPLAY))['case']; print(PROP.impl(case))")


PROP = C16()

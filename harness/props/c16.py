"""C16 - metadata: attribute routing and propagation rules."""
import copy, itertools, warnings
import numpy as np
import core, gen
from core import da, Axis, DimArray, Dataset
from .base import Prop

CLASSES = ["DimArray", "Dataset", "Axis"]
NAMES = {
    "DimArray": [("public", "units"), ("public2", "long_name"), ("underscore", "_hidden"), ("member_ro", "shape"),
                 ("member_rw", "values"), ("member_fn", "take"), ("dim", "x")],
    "Dataset": [("public", "units"), ("public2", "long_name"), ("underscore", "_hidden"), ("member_ro", "labels_"),
                ("member_rw", "dims"), ("member_fn", "keys"), ("dim", "x")],
    "Axis": [("public", "units"), ("public2", "long_name"), ("underscore", "_hidden"), ("member_ro", "size"),
             ("member_rw", "values"), ("member_fn", "take"), ("excluded", "name")],
}
NAMES["Dataset"][3] = ("member_ro", "ndim")


def fresh(cls):
    ax = Axis(np.array([10, 20, 30]), "x")
    if cls == "Axis":
        return ax
    a = DimArray(np.array([1.0, 2.0, 3.0]), axes=[ax])
    if cls == "DimArray":
        return a
    return Dataset({"v": a})


def labels_of(obj, cls):
    if cls == "Axis":
        return obj.values.tolist()
    return obj.axes["x"].values.tolist()


def probe(cls, nclass, name, present, op):
    obj = fresh(cls)
    if present:
        obj.attrs[name] = "stored"
    before_labels = labels_of(obj, cls)
    try:
        if op == "get":
            v = getattr(obj, name)
            if isinstance(v, str) and v == "stored":
                return "attrs"
            if isinstance(v, np.ndarray) and v.tolist() == before_labels and nclass in ("dim",):
                return "labels"
            return "member"
        if op == "set":
            val = [11, 21, 31] if nclass == "dim" else ("newval" if nclass not in ("member_rw",) else getattr(obj, name))
            setattr(obj, name, val)
            if isinstance(obj.attrs.get(name, None), str) and obj.attrs.get(name) == "newval":
                return "attrs"
            if nclass == "dim" and name in obj.attrs and not isinstance(obj.attrs[name], str):
                return "attrs"
            if labels_of(obj, cls) != before_labels:
                return "labels"
            return "object"
        if op == "del":
            had = name in obj.attrs
            delattr(obj, name)
            if had and name not in obj.attrs:
                return "attrs"
            return "object"
    except AttributeError:
        return "attrerr"
    except Exception as e:  # noqa
        return "err_" + core.exc_class(e)
    raise ValueError(op)


class C16(Prop):
    id = "C16"
    theorems = ["route_public", "route_dim", "route_private_never_enters", "route_stored_private_unreachable",
                "routing_table_complete", "attrs_kept_take", "attrs_kept_reindex", "attrs_kept_transpose",
                "attrs_kept_reduce", "attrs_kept_put", "attrs_kept_takeAxis", "attrs_kept_fillna",
                "attrs_dropped_operation", "attrs_dropped_stack", "axis_attrs_kept_select", "axis_attrs_kept_take"]
    rule = ("routing: the complete table class {DimArray, Dataset, Axis} x name class {public, underscore, read-only member, "
            "settable member, method, dimension name / excluded name} x {stored in attrs, absent} x {get, set, del} is "
            "tabulated from the implementation on every run (126 rows) and proved by `decide`; propagation: every operation "
            "class of the statement (indexing, reductions, cumulative/diff, reshaping family, reindexing, sorting, take_axis/"
            "compress/dropna/fillna/setna, interpolation; slicing/reindexing of an axis for axis metadata; arithmetic, "
            "comparisons, stack, concatenate) is run on arrays carrying array-level and axis-level metadata with values of "
            "several types and attribute names that collide with constructor parameters. Non-trivial = every case; "
            "distinct = canonical JSON")
    assumptions = ["attribute values are opaque (compared by value)"]

    def mirrors(self):
        from dimarray.core import bases, dimarraycls
        return {"__getattr__": bases.GetSetDelAttrMixin.__getattr__, "__setattr__": bases.GetSetDelAttrMixin.__setattr__,
                "__delattr__": bases.GetSetDelAttrMixin.__delattr__, "_constructor": dimarraycls.DimArray._constructor}

    # ---- the routing table
    def pre_build(self):
        rows = []
        for cls in CLASSES:
            for nclass, name in NAMES[cls]:
                for present in (False, True):
                    for op in ("get", "set", "del"):
                        with warnings.catch_warnings():
                            warnings.simplefilter("ignore")
                            rows.append((cls, nclass, present, op, probe(cls, nclass, name, present, op)))
        body = ",\n  ".join('("%s", "%s", %s, "%s", "%s")' % (c, n, "true" if p else "false", o, r) for c, n, p, o, r in rows)
        content = ("/- GENERATED on every run by harness/props/c16.py: outcome of attribute get / set / del on the three\n"
                   "   classes for every class of attribute name, observed on the implementation -/\n"
                   "namespace DimModel.Gen\n\n/-- (class, name class, stored in attrs beforehand, operation, outcome) -/\n"
                   "def routingTable : List (String × String × Bool × String × String) := [\n  %s]\n\nend DimModel.Gen\n" % body)
        changed = core.write_table("TableC16", content)
        self._table = rows
        return {"changed": changed, "summary": {"routing rows": len(rows)}, "rows": rows}

    def table_failing_rows(self, info):
        bad = []
        for c, n, p, o, r in info["rows"]:
            ok = True
            if n in ("public", "public2"):
                ok = r == ("attrs" if (o == "set" or p) else "attrerr")
            elif n == "dim":
                ok = (r == "labels") if o in ("get", "set") else (r != "attrs" or p)
                if o == "del":
                    ok = True
            else:
                ok = r != "attrs"
            if not ok:
                bad.append({"class": c, "name_class": n, "stored": p, "op": o, "outcome": r})
        return bad

    def table_replay_hint(self):
        return "see harness/props/c16.py: probe(cls, name_class, name, present, op)"

    def extra_evidence(self):
        return {"tabulated_rows": len(getattr(self, "_table", []))}

    # ------------------------------------------------------------ propagation cases
    OPS_KEEP = ["getitem", "take_list", "ix", "sum_axis", "mean_tuple", "cumsum", "diff", "transpose", "swapaxes", "newaxis",
                "squeeze", "flatten", "reshape", "reindex_axis", "reindex_like", "sort_axis", "take_axis", "compress_axis",
                "dropna", "fillna", "setna", "interp_axis", "repeat", "broadcast", "put_copy", "median", "argmax", "rollaxis",
                "unflatten", "flatten_rev", "flatten_apart", "flatten_insert", "mean_tuple_rev", "sum_tuple_last"]
    OPS_DROP = ["add", "mul_scalar", "rsub", "eq", "lt", "neg", "stack", "concatenate", "pow", "stack_one", "concatenate_one",
                "concatenate_one_x"]
    OPS_AXIS_KEEP = ["axis_slice", "axis_list", "axis_reindex", "axis_take", "axis_sort", "axis_compress", "axis_transpose",
                     "axis_reindex_axisobj", "axis_reindex_axisobj_present", "axis_reindex_like"]

    def gen(self, rng, tier):
        n = 400 if tier == "quick" else 6000
        ops = self.OPS_KEEP + self.OPS_DROP + self.OPS_AXIS_KEEP
        for i in range(n):
            op = ops[i % len(ops)] if i < 2 * len(ops) else rng.choice(ops)
            keys = rng.sample(["units", "long_name", "history", "dtype", "copy", "n", "values", "name", "axes", "dims", "labels"], rng.randint(1, 3))
            vals = {}
            for k in keys:
                vals[k] = rng.choice(["K", 3, 2.5, [1, 2], {"a": 1}, "float32"]) if k != "dtype" else rng.choice(["int32", "K"])
            rank = rng.choice([2, 2, 3])
            if op in ("flatten_apart", "sum_tuple_last", "mean_tuple_rev"):
                rank = 3
            # warm: the axes have been asked for their ordering before (cached state from an earlier alignment / query)
            yield {"op": "propagate", "fn": op, "rank": rank, "attrs": vals, "axis_attrs": {"units": rng.choice(["m", 7]), "calendar": "x"},
                   "seed": rng.randint(0, 10 ** 6), "warm": rng.random() < 0.4, "xorder": rng.choice(["shuf", "inc", "dec"])}

    def impl(self, c):
        import random
        rng = random.Random(c["seed"])
        rank = c["rank"]
        names = ["x", "y", "z"][:rank]
        sizes = [3, 2, 1][:rank]
        xl = {"shuf": [30, 10, 20], "inc": [10, 20, 30], "dec": [30, 20, 10]}[c.get("xorder", "shuf")]
        axes = [Axis(np.array(xl[:sizes[0]]), "x")] + [Axis(np.arange(s) * 1.5, n) for n, s in zip(names[1:], sizes[1:])]
        for ax in axes:
            for k, v in c["axis_attrs"].items():
                ax.attrs[k] = copy.deepcopy(v)
        vals = np.arange(int(np.prod(sizes)), dtype=float).reshape(sizes) + 0.5
        a = DimArray(vals, axes=axes)
        for k, v in c["attrs"].items():
            a.attrs[k] = copy.deepcopy(v)
        want_attrs = copy.deepcopy(dict(a.attrs))
        want_ax = copy.deepcopy(dict(axes[0].attrs))
        fn = c["fn"]

        def run():
            with warnings.catch_warnings():
                warnings.simplefilter("ignore")
                b = DimArray(vals + 1, axes=[ax.copy() for ax in axes])
                b.attrs["other"] = 1
                if c.get("warm"):
                    for ax in a.axes:
                        ax.is_monotonic()
                    a + b.take([30], axis="x")
                r = {
                    "getitem": lambda: a[[10, 30]], "take_list": lambda: a.take([30], axis="x"), "ix": lambda: a.ix[0:2],
                    "sum_axis": lambda: a.sum(axis="x"), "mean_tuple": lambda: a.mean(axis=("x", "y")) if rank > 2 else a.mean(axis="y"),
                    "median": lambda: a.median(axis="x"), "argmax": lambda: a.argmax(axis="y"),
                    "cumsum": lambda: a.cumsum(axis="x"), "diff": lambda: a.diff(axis="x"),
                    "transpose": lambda: a.transpose(list(reversed(names))), "swapaxes": lambda: a.swapaxes(0, 1),
                    "rollaxis": lambda: a.rollaxis("y"),
                    "newaxis": lambda: a.newaxis("t", pos=1), "squeeze": lambda: a.newaxis("t").squeeze("t"),
                    "flatten": lambda: a.flatten(("x", "y")), "unflatten": lambda: a.flatten(("x", "y")).unflatten(),
                    "reshape": lambda: a.reshape("y,x", *names[2:]),
                    "flatten_rev": lambda: a.flatten(("y", "x")), "flatten_apart": lambda: a.flatten(("x", "z")),
                    "flatten_insert": lambda: a.flatten(("x", "y"), insert=rank - 2),
                    "mean_tuple_rev": lambda: a.mean(axis=("y", "x")), "sum_tuple_last": lambda: a.sum(axis=("y", "z")),
                    "repeat": lambda: a.newaxis("t").repeat(np.array([1, 2]), axis="t"),
                    "broadcast": lambda: a.broadcast([ax for ax in a.axes] + [Axis(np.array([1, 2]), "t")]),
                    "reindex_axis": lambda: a.reindex_axis([10, 15, 30], axis="x"), "reindex_like": lambda: a.reindex_like(b.take([30, 10], axis="x")),
                    "sort_axis": lambda: a.sort_axis(axis="x"), "take_axis": lambda: a.take_axis([20, 30] if sizes[0] == 3 else [30], axis="x"),
                    "compress_axis": lambda: a.compress_axis(np.array([True, False, True][:sizes[0]]), axis="x"),
                    "dropna": lambda: a.dropna(axis="x"), "fillna": lambda: a.fillna(0.), "setna": lambda: a.setna(0.5),
                    "interp_axis": lambda: a.interp_axis([12, 25], axis="x"), "put_copy": lambda: a.put(30, 1.0, axis="x", inplace=False),
                    "add": lambda: a + b, "mul_scalar": lambda: a * 2, "rsub": lambda: 1 - a, "pow": lambda: a ** 2, "eq": lambda: a == b.values,
                    "lt": lambda: a < 1, "neg": lambda: -a, "stack": lambda: da.stack([a, b], axis="s"), "concatenate": lambda: da.concatenate([a, b], axis="y"),
                    "stack_one": lambda: da.stack([a], axis="s"), "concatenate_one": lambda: da.concatenate([a], axis="y"),
                    "concatenate_one_x": lambda: da.concatenate([a], axis="x", align=True),
                    "axis_slice": lambda: a.ix[1:], "axis_list": lambda: a[[10, 30]], "axis_reindex": lambda: a.reindex_axis([10, 30, 40], axis="x"),
                    "axis_reindex_axisobj": lambda: a.reindex_axis(Axis(np.array([10, 30, 40]), "x", units="requested"), axis="x"),
                    "axis_reindex_axisobj_present": lambda: a.reindex_axis(Axis(np.array([30, 10]), "x", units="requested")),
                    "axis_reindex_like": lambda: a.reindex_like(b.take([30, 10], axis="x")),
                    "axis_take": lambda: a.take_axis([30, 10], axis="x"), "axis_sort": lambda: a.sort_axis(axis="x"),
                    "axis_compress": lambda: a.compress_axis(np.array([True, False, True][:sizes[0]]), axis="x"),
                    "axis_transpose": lambda: a.transpose(list(reversed(names))),
                }[fn]()
            out = {"is_dimarray": isinstance(r, DimArray)}
            if isinstance(r, DimArray):
                out["attrs"] = repr(sorted((k, repr(v)) for k, v in r.attrs.items()))
                out["vkind"] = r.values.dtype.kind
                if "x" in r.dims:
                    out["x_attrs"] = repr(sorted((k, repr(v)) for k, v in r.axes["x"].attrs.items()))
            return out
        o = core.guarded(run)
        o["want_attrs"] = repr(sorted((k, repr(v)) for k, v in want_attrs.items()))
        o["want_x"] = repr(sorted((k, repr(v)) for k, v in want_ax.items()))
        o["operand_attrs_after"] = repr(sorted((k, repr(v)) for k, v in a.attrs.items()))
        return o

    def request(self, c):
        # propagation is decided against the statement itself; the model side are the attrs theorems
        return {"op": "union", "a": {"name": "x", "kind": "i", "labels": []}, "b": {"name": "x", "kind": "i", "labels": []}, "join": "outer"}

    def judge(self, c, io, ans):
        prop_bad = []
        fn = c["fn"]
        if "err" in io:
            prop_bad.append("outcome:" + io["err"])
        else:
            o = io["ok"]
            if fn in self.OPS_KEEP:
                if not o["is_dimarray"] or o["attrs"] != io["want_attrs"]:
                    prop_bad.append("attrs:not_kept")
                if o.get("vkind") not in (None, "f", "O", "i", "b"):
                    prop_bad.append("vkind")
            elif fn in self.OPS_DROP:
                if o["is_dimarray"] and o["attrs"] != "[]":
                    prop_bad.append("attrs:not_dropped")
            else:
                if o.get("x_attrs") != io["want_x"]:
                    prop_bad.append("axes.attrs:not_kept")
        if io["operand_attrs_after"] != io["want_attrs"]:
            prop_bad.append("operand_modified")
        if not prop_bad:
            return None
        return {"kind": "P", "differs": prop_bad, "msg": io.get("msg"), "impl": io.get("ok")}

    def known(self, c, io, ans, mm, open_findings):
        ids = {f["id"] for f in open_findings}
        if "K08" in ids and ("values" in c["attrs"] or "axes" in c["attrs"]) and io.get("err") == "type" \
                and "multiple values for argument" in (io.get("msg") or ""):
            return "K08"
        return None

    def features(self, c, io):
        return {"outcome": "err:" + io["err"] if "err" in io else "ok", "fn": c["fn"], "collides": any(k in ("dtype", "copy", "values", "axes", "dims", "labels", "name") for k in c["attrs"])}

    def size(self, c):
        return len(c["attrs"]) + c["rank"]

    def snippet(self, c):
        return ("import sys; sys.path.insert(0, '/verif/harness'); import json, core; from props.c16 import PROP; "
                "case = json.load(open(REPLAY))['case']; print(PROP.impl(case))")


PROP = C16()

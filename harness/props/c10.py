"""C10 - rearranging dimensions preserves every element's label coordinates."""
import copy, itertools
import numpy as np
import core, gen, ops
from core import da, Axis, DimArray
from .base import Prop
from .c06 import lab_key


def distinct_array(rng, rank, zero=0.0):
    """axes of different lengths and kinds so that any mix-up changes shapes or labels
    (`zero`: share of arrays one of whose axes has no label at all)"""
    sizes = rng.sample([1, 2, 3, 4, 5], rank)
    if rng.random() < 0.3 and rank:
        sizes[rng.randrange(rank)] = 1
    if zero and rank and rng.random() < zero:
        sizes[rng.randrange(rank)] = 0
    dims = rng.sample(gen.DIMS, rank)
    axes = [gen.rand_axis(rng, d, n=n) for d, n in zip(dims, sizes)]
    arr = {"axes": axes, "vkind": rng.choice(["f", "i"])}
    if rng.random() < 0.5:
        arr["attrs_py"] = {"title": "T", "n": 1}
    for ax in axes:
        if rng.random() < 0.3:
            ax["attrs_py"] = {"units": "u" + ax["name"]}
    return arr


DUMMY = {"op": "union", "a": {"name": "x", "kind": "i", "labels": []}, "b": {"name": "x", "kind": "i", "labels": []}, "join": "outer"}


def apply_step10(a, st):
    """the spellings the shared ops.apply_step does not know"""
    fn = st["fn"]
    if fn == "repeat" and st.get("count") is not None:
        # repeat(<int>, axis): the new labels are 0, 1, 2, ...
        if st.get("kwaxis", True):
            return a.repeat(int(st["count"]), axis=ops.key_py(st["axis"]))
        return a.repeat(int(st["count"]), ops.key_py(st["axis"]))
    if fn == "transpose" and st.get("how") == "set":
        return a.transpose(set(ops.key_py(k) for k in st["dims"]))
    if fn == "repeat" and st.get("as_axis"):
        # repeat(<Axis object>): along the dimension the Axis names; repeat(<Axis object>, axis=): the Axis has a name of
        # its own, the dimension is the one asked for.  The Axis may carry metadata
        ax = core.build_axis(st["values"])
        return a.repeat(ax, axis=ops.key_py(st["axis"])) if st["as_axis"] == "named" else a.repeat(ax)
    if fn == "newaxis" and st.get("values_as") == "axis":
        # newaxis(name, values=<Axis object>): the new dimension has the requested name, whatever the Axis is called
        return a.newaxis(st["name"], values=core.build_axis(st["values"]), pos=st.get("pos", 0))
    return ops.apply_step(a, st)


def lean_step10(st, toks=None):
    """the step as the model reads it; Axis objects handed to the library (the values of repeat / newaxis in their Axis
    forms, the target axes of broadcast unless given as an OrderedDict of labels) go with their metadata"""
    axis_form = (st["fn"] == "repeat" and st.get("as_axis")) or (st["fn"] == "newaxis" and st.get("values_as") == "axis")
    targets_as_axes = st["fn"] == "broadcast" and st.get("how", "list") != "odict"
    st = ops.lean_step(st)
    for k in ("count", "kwaxis", "invalid", "values_as"):
        st.pop(k, None)
    if st.get("values") is not None:
        st["values"] = core.lean_axis(st["values"], toks if axis_form else None)
    if st.get("target") is not None:
        st["target"] = [core.lean_axis(t, toks if targets_as_axes else None) for t in st["target"]]
    return st


def other_name(rng, taken):
    """a name for an Axis object that is NOT the dimension it is used for (it may be another dimension's)"""
    return rng.choice([d for d in gen.DIMS + ["t", "u", "ww"] if d != taken])


def set_order(st):
    """the order in which this process iterates over the set built by apply_step10 (a set has no order of its
    own: any order is a legitimate reading of the request, the model is asked about the one that was used)"""
    keys = {}
    for k in st["dims"]:
        keys.setdefault(ops.key_py(k), k)
    return [keys[x] for x in set(ops.key_py(k) for k in st["dims"])]


def check_coordinates(inp, out):
    """the statement of C10 on (input observation, output observation): every output cell equals the
    input cell at the corresponding label coordinate (replicated along new / repeated dimensions);
    every surviving axis travels with its data"""
    bad = []
    in_dims = inp["dims"]
    for d, ax in zip(in_dims, inp["axes"]):
        if len(ax["labels"]) != 1 and d not in out["dims"]:
            bad.append("dims:lost")
    if len(set(out["dims"])) != len(out["dims"]):
        bad.append("dims:duplicate")
    if bad:
        return bad
    in_keys = [[lab_key(l) for l in ax["labels"]] for ax in inp["axes"]]
    for flat, coord in enumerate(itertools.product(*[ax["labels"] for ax in out["axes"]])):
        cd = {ax["name"]: lab_key(l) for ax, l in zip(out["axes"], coord)}
        idx = 0
        ok = True
        for d, ax, keys in zip(in_dims, inp["axes"], in_keys):
            if len(keys) == 1:
                p = 0
            else:
                if d not in cd or cd[d] not in keys:
                    ok = False
                    break
                p = keys.index(cd[d])
            idx = idx * len(keys) + p
        if not ok:
            bad.append("axes.labels:travel")
            break
        if out["values"][flat] != inp["values"][idx]:
            bad.append("values:moved")
            break
    return bad


class C10(Prop):
    id = "C10"
    theorems = ["isPerm_mem", "transposeBy_dims", "transposeBy_axes", "transposeBy_at", "transposeBy_attrs",
                "transpose_inv_axes", "transpose_inv_at", "newaxis_at", "squeezeDim_at", "repeatDim_at", "rollPerm_isPerm", "transposeBy_spec", "transpose_names_spec", "transpose_keys_spec", "transpose_keys_interchangeable", "swapaxes_keys_interchangeable", "transpose_default_spec",
                "swapaxes_spec", "rollaxis_spec", "rollaxis_lands_before", "squeeze_axis_spec", "squeeze_all_spec", "repeat_spec",
                "newaxis_spec", "newaxis_values_spec", "broadcast_spec", "sameByName_unique", "sameOn_unique",
                "keyGood_resolves", "pos_out_of_range_not_good", "transpose_first_bad_key", "transpose_pos_out_of_range",
                "transpose_ok_iff", "swapaxes_pos_out_of_range", "swapaxes_ok_iff", "rollaxis_pos_out_of_range",
                "rollaxis_start_out_of_range", "rollaxis_ok_iff", "squeeze_pos_out_of_range", "repeat_pos_out_of_range",
                "squeeze_ok_iff", "repeat_ok_iff", "resolves_spellings", "neg_position_interchangeable",
                "transpose_neg_position_interchangeable", "squeeze_ok_iff_counterexample"]
    rule = ("arrays of rank 0-4 whose axes have pairwise different lengths and mixed kinds (a share with singleton "
            "axes, a share with one zero-length axis), carrying array- and axis-level metadata; chains of 1-4 steps among "
            "transpose (list / tuple / varargs / set, names / positions / negative positions, default, .T), swapaxes "
            "(incl. swapaxes(i, i)), rollaxis (every axis, start), newaxis (every pos incl. -1, with and without values), "
            "squeeze (all / one axis), repeat (array, Axis or an integer count; an Axis object with a name of its own "
            "together with axis=, and newaxis(name, values=<such an Axis>): the dimension keeps the requested name), "
            "broadcast (list of axes / DimArray / OrderedDict targets in any order; target axes, and the Axis objects "
            "given to repeat / newaxis, carry metadata of their own and every result axis' metadata is compared with the model) and broadcast_arrays / align_dims (a share with a label-less dimension); "
            "the inverse-permutation round trip; requests that name no permutation / pair of the dimensions (too few, "
            "a dimension twice, an unknown name, an integer position out of range) must be refused. "
            "Integer positions outside [-ndim, ndim) are compared with the model on the error class for every function that "
            "takes a dimension position (transpose, swapaxes, rollaxis, squeeze, repeat; rank 0-3 systematically: the bad "
            "position first / last / alone / extra, among names and negative positions, next to an unknown name on either "
            "side - the first bad key decides between ValueError and IndexError -, two positions out of range, the boundary "
            "positions -ndim and ndim-1 accepted; rollaxis start outside [-ndim, ndim] refused with a good, an unknown and "
            "an out-of-range axis, start = +-ndim accepted) and in the random chains. "
            "Non-trivial = rank >= 2 or a dimension added/removed; distinct = canonical JSON")
    assumptions = ["comma-free dimension names; labels unique",
                   "NumPy's AxisError (np.rollaxis start out of range) is read as an IndexError, as the harness' exception map does "
                   "(it is a subclass of ValueError as well)",
                   "newaxis(pos=) is an insertion position, not a dimension position: positions beyond [-ndim-1, ndim] are not generated",
                   "transpose(set): any order of the dimensions is accepted by the oracle; the model is asked about the order "
                   "in which the running process iterates over the set"]

    def mirrors(self):
        import sys as _s
        r = _s.modules["dimarray.core.reshape"]
        al = _s.modules["dimarray.core.align"]
        from dimarray.core import bases
        return {"transpose": r.transpose, "swapaxes": r.swapaxes, "rollaxis": r.rollaxis, "newaxis": r.newaxis,
                "squeeze": r.squeeze, "repeat": r.repeat, "broadcast": r.broadcast, "reshape": r.reshape,
                "broadcast_arrays": al.broadcast_arrays, "align_dims": al.align_dims, "_get_axes": al._get_axes,
                "_get_axis_info": bases.AbstractHasAxes._get_axis_info}

    # ------------------------------------------------------------ generation
    def gen_step(self, rng, sim, allow_invalid=True):
        n = len(sim.axes)
        choices = ["transpose", "newaxis", "broadcast"]
        if n >= 1:
            choices += ["rollaxis", "squeeze", "squeeze_all"]
        if n >= 2:
            choices += ["transpose", "swapaxes"]
        if any(len(a["labels"]) == 1 for a in sim.axes):
            choices += ["repeat", "repeat", "squeeze"]
        fn = rng.choice(choices)
        if fn == "swapaxes" and rng.random() < 0.12:
            fn = "swapaxes_same"
        if fn == "transpose" and n >= 1 and allow_invalid:
            r = rng.random()
            if r < 0.10:
                fn = "transpose_set"
            elif r < 0.28:
                fn = "transpose_bad"
        if fn == "swapaxes" and allow_invalid and rng.random() < 0.12:
            fn = "swapaxes_bad"
        if fn in ("rollaxis", "squeeze", "repeat") and allow_invalid and rng.random() < 0.10:
            fn = fn + "_bad"
        if fn == "swapaxes_same":
            # swapaxes(i, i), the two operands spelled independently: nothing moves
            i = rng.randrange(n)
            return {"fn": "swapaxes", "a1": sim.key(rng, i), "a2": sim.key(rng, i), "same": True}
        if fn == "transpose_set":
            # a set of names / positions: every dimension once, in no particular order (last step of its chain)
            st = {"fn": "transpose", "dims": [sim.key(rng, p) for p in range(n)], "how": "set", "_last": True}
            if rng.random() < 0.5:
                st["dims"] = [["name", a["name"]] for a in sim.axes]
            rng.shuffle(st["dims"])
            return st
        if fn == "transpose_bad":
            # not a permutation of the dimensions: too few, a dimension twice, an unknown name, a position out of range
            perm = list(range(n))
            rng.shuffle(perm)
            keys = [sim.key(rng, p) for p in perm]
            kinds = ["unknown", "range", "range", "two"] + (["partial", "repeated", "range+partial"] if n >= 2 else ["extra"])
            kind = rng.choice(kinds)
            bad_pos = lambda: ["pos", rng.choice([n, n + 1, -n - 1, -n - 2])]
            bad_name = lambda: ["name", rng.choice([d for d in gen.DIMS + ["t", "u", "q"] if d not in sim.dims])]
            if kind == "partial":
                keys = keys[:rng.randint(1, n - 1)]
            elif kind == "repeated":
                i, j = rng.sample(range(n), 2)
                keys[i] = sim.key(rng, perm[j])
            elif kind == "extra":
                keys.append(sim.key(rng, perm[0]))
            elif kind == "unknown":
                keys[rng.randrange(n)] = bad_name()
            elif kind == "range":
                # a position outside [-ndim, ndim): anywhere, first or last key (the other keys by name / position, mixed)
                keys[rng.choice([0, n - 1, rng.randrange(n)])] = bad_pos()
            elif kind == "two":
                # two bad keys of different kinds (the first one decides the error class), or two positions out of range;
                # on a 1-d array the second bad key is an extra one
                if n == 1:
                    keys.append(keys[0])
                i, j = rng.sample(range(len(keys)), 2)
                keys[i] = bad_pos()
                keys[j] = bad_name() if rng.random() < 0.75 else bad_pos()
            else:
                # too few keys AND one of them out of range (the position is refused first)
                keys = keys[:rng.randint(1, n - 1)]
                keys[rng.randrange(len(keys))] = bad_pos()
            return {"fn": "transpose", "dims": keys, "how": rng.choice(["list", "tuple", "varargs"]), "invalid": kind, "_err": True}
        if fn == "swapaxes_bad":
            i = rng.randrange(n)
            kind = rng.choice(["unknown", "range", "range", "two"])
            bad_pos = lambda: ["pos", rng.choice([n, n + 1, -n - 1, -n - 2])]
            bad_name = lambda: ["name", rng.choice([d for d in gen.DIMS + ["t", "u", "q"] if d not in sim.dims])]
            ks = [sim.key(rng, i), bad_name() if kind == "unknown" else bad_pos()]
            if kind == "two":
                ks[0] = bad_name() if rng.random() < 0.75 else bad_pos()
            rng.shuffle(ks)
            return {"fn": "swapaxes", "a1": ks[0], "a2": ks[1], "invalid": kind, "_err": True}
        if fn in ("rollaxis_bad", "squeeze_bad", "repeat_bad"):
            # the dimension given by a position outside [-ndim, ndim) or by an unknown name; rollaxis: also a start
            # outside [-ndim, ndim] (with a good or a bad axis: the axis is looked at first)
            kind = rng.choice(["unknown", "range", "range"] + (["start", "start", "range+start", "unknown+start"] if fn == "rollaxis_bad" else []))
            if kind.startswith("range"):
                key = ["pos", rng.choice([n, n + 1, -n - 1, -n - 2])]
            elif kind.startswith("unknown"):
                key = ["name", rng.choice([d for d in gen.DIMS + ["t", "u", "q"] if d not in sim.dims])]
            else:
                key = sim.key(rng, rng.randrange(n))
            if fn == "rollaxis_bad":
                start = rng.choice([n + 1, n + 2, -n - 1, -n - 2]) if kind.endswith("start") else rng.randint(-n, n)
                return {"fn": "rollaxis", "axis": key, "start": start, "invalid": kind, "_err": True}
            if fn == "squeeze_bad":
                return {"fn": "squeeze", "axis": key, "invalid": kind, "_err": True}
            v = gen.clean(gen.rand_axis(rng, "v", n=rng.randint(1, 3)))
            if rng.random() < 0.3:
                cnt = rng.choice([1, 2, 3])
                v = {"name": "v", "kind": "i", "labels": [["n", k, 1] for k in range(cnt)]}
                return {"fn": "repeat", "values": v, "axis": key, "count": cnt, "kwaxis": rng.random() < 0.7, "invalid": kind, "_err": True}
            return {"fn": "repeat", "values": v, "axis": key, "as_axis": False, "invalid": kind, "_err": True}
        if fn == "transpose":
            r = rng.random()
            if r < 0.15:
                st = {"fn": "transpose", "dims": None, "T": rng.random() < 0.5}
                if n == 2:
                    sim.axes.reverse()
                elif n > 2:
                    st["_err"] = True
                return st
            perm = list(range(n))
            rng.shuffle(perm)
            st = {"fn": "transpose", "dims": [sim.key(rng, p) for p in perm], "how": rng.choice(["list", "tuple", "varargs"])}
            if n == 0:
                st["how"] = "list"
            sim.axes = [sim.axes[p] for p in perm]
            return st
        if fn == "swapaxes":
            i, j = rng.sample(range(n), 2)
            st = {"fn": "swapaxes", "a1": sim.key(rng, i), "a2": sim.key(rng, j)}
            sim.axes[i], sim.axes[j] = sim.axes[j], sim.axes[i]
            return st
        if fn == "rollaxis":
            i = rng.randrange(n)
            start = rng.randint(0, n)
            # (a negative start counts from the end, as in numpy.rollaxis)
            st = {"fn": "rollaxis", "axis": sim.key(rng, i) if rng.random() < 0.8 else ["pos", i],
                  "start": start - n if start < n and rng.random() < 0.25 else start}
            ax = sim.axes.pop(i)
            s2 = start - 1 if start > i else start
            sim.axes.insert(s2, ax)
            return st
        if fn == "newaxis":
            free = [d for d in gen.DIMS + ["t", "u"] if d not in sim.dims]
            if not free:
                return self.gen_step(rng, sim)
            name = rng.choice(free)
            pos = rng.randint(0, n)
            # (a negative position counts from the end of the RESULT's dimensions, as for np.expand_dims: -1 appends)
            st = {"fn": "newaxis", "name": name, "pos": pos if rng.random() < 0.7 else pos - (n + 1)}
            newax = {"name": name, "kind": "O", "labels": [["N"]]}
            if rng.random() < 0.4:
                v = gen.rand_axis(rng, name, n=rng.randint(1, 3))
                st["values"] = gen.clean(v)
                newax = gen.clean(v)
                if rng.random() < 0.4:
                    # values given as an Axis object with a name of its own (and, often, metadata): the new dimension
                    # is the REQUESTED one
                    st["values_as"] = "axis"
                    st["values"] = dict(st["values"], name=other_name(rng, name))
                    if rng.random() < 0.6:
                        st["values"]["attrs_py"] = {"units": "uv"}
            sim.axes.insert(pos, dict(newax, multi=None))
            return st
        if fn == "squeeze_all":
            sim.axes = [a for a in sim.axes if len(a["labels"]) != 1]
            return {"fn": "squeeze", "axis": None}
        if fn == "squeeze":
            singles = [i for i, a in enumerate(sim.axes) if len(a["labels"]) == 1]
            if singles and rng.random() < 0.85:
                i = rng.choice(singles)
                st = {"fn": "squeeze", "axis": sim.key(rng, i)}
                sim.axes.pop(i)
                return st
            i = rng.randrange(n)
            st = {"fn": "squeeze", "axis": sim.key(rng, i)}
            if len(sim.axes[i]["labels"]) == 1:
                sim.axes.pop(i)
            else:
                st["_err"] = True
            return st
        if fn == "repeat":
            singles = [i for i, a in enumerate(sim.axes) if len(a["labels"]) == 1]
            i = rng.choice(singles)
            if rng.random() < 0.3:
                # repeat(<int>, axis): labels 0 .. count-1
                cnt = rng.choice([1, 2, 2, 3, 4])
                v = {"name": sim.axes[i]["name"], "kind": "i", "labels": [["n", k, 1] for k in range(cnt)]}
                st = {"fn": "repeat", "values": v, "axis": sim.key(rng, i), "count": cnt, "kwaxis": rng.random() < 0.7}
                sim.axes[i] = dict(v, multi=None)
                return st
            v = gen.clean(gen.rand_axis(rng, sim.axes[i]["name"], n=rng.randint(1, 3)))
            st = {"fn": "repeat", "values": v, "axis": sim.key(rng, i), "as_axis": rng.random() < 0.3}
            sim.axes[i] = dict(v, multi=None)
            r = rng.random()
            if r < 0.3:
                # an Axis object with a name of its own together with axis=: the array is repeated along the dimension
                # that was asked for, which keeps its name
                st["as_axis"] = "named"
                st["values"] = dict(v, name=other_name(rng, v["name"]))
            if st["as_axis"] and rng.random() < 0.5:
                st["values"] = dict(st["values"], attrs_py={"units": "uv"})
            return st
        if fn == "broadcast":
            # target: the current axes plus new ones, in any order; singleton axes may be replaced
            target = []
            for a in sim.axes:
                if len(a["labels"]) == 1 and rng.random() < 0.2:
                    continue        # a singleton dimension the target does not list: dropped (the other singletons keep their label)
                if len(a["labels"]) == 1 and rng.random() < 0.5:
                    target.append(gen.clean(gen.rand_axis(rng, a["name"], n=rng.randint(2, 3))))
                else:
                    target.append({"name": a["name"], "kind": a["kind"], "labels": list(a["labels"])})
            free = [d for d in gen.DIMS + ["t", "u"] if d not in sim.dims]
            for d in rng.sample(free, min(len(free), rng.randint(0, 2))):
                target.append(gen.clean(gen.rand_axis(rng, d, n=rng.randint(1, 3))))
            rng.shuffle(target)
            for t in target:
                if rng.random() < 0.4:
                    t["attrs_py"] = {"units": "t" + t["name"]}      # the target's metadata is not the array's: never taken over
            st = {"fn": "broadcast", "target": target, "how": rng.choice(["list", "odict", "dimarray"])}
            if not target:
                st["how"] = "list"
            sim.axes = [dict(t, multi=None) for t in target]
            return st
        raise ValueError(fn)

    def gen_chain(self, rng):
        rank = rng.choice([0, 1, 2, 2, 3, 3, 4])
        arr = distinct_array(rng, rank, zero=0.12)
        sim = ops.Sim(arr)
        steps = []
        for _ in range(rng.choice([1, 1, 2, 3, 4])):
            st = self.gen_step(rng, sim)
            steps.append(st)
            if st.get("_err") or st.get("_last"):
                break
            if len(sim.axes) > 5:
                break
        c = {"op": "chain", "array": arr, "steps": steps}
        if steps[-1].get("invalid"):
            c["invalid"] = steps[-1]["invalid"]
        if steps[-1].get("_last"):
            # a set: the dimensions in any order, each with its own labels
            c["_expect_set"] = {a["name"]: list(a["labels"]) for a in sim.axes}
        elif not any(st.get("_err") for st in steps):
            # what was requested, tracked independently of the library and of the model: dims and labels per dimension
            c["_expect"] = {"dims": list(sim.dims), "labels": [list(a["labels"]) for a in sim.axes]}
        return c

    def gen_roundtrip(self, rng):
        rank = rng.choice([2, 3, 4])
        arr = distinct_array(rng, rank)
        perm = list(range(rank))
        rng.shuffle(perm)
        inv = [perm.index(i) for i in range(rank)]
        names = [a["name"] for a in arr["axes"]]
        return {"op": "chain", "array": arr, "roundtrip": True,
                "steps": [{"fn": "transpose", "dims": [["name", names[p]] for p in perm], "how": "list"},
                          {"fn": "transpose", "dims": [["pos", q] for q in inv], "how": "tuple"}]}

    def gen_bcast_arrays(self, rng):
        from .c06 import gen_arrays
        arrays = gen_arrays(rng, n=rng.choice([2, 2, 3]), allow_empty=False, minn=1)
        # broadcast_arrays requires aligned axes: give every dimension one label set
        base = {}
        for a in arrays:
            for ax in a["axes"]:
                if ax["name"] not in base:
                    base[ax["name"]] = (ax["kind"], ax["labels"])
                elif rng.random() < 0.9:
                    ax["kind"], ax["labels"] = base[ax["name"]]
        fn = rng.choice(["broadcast_arrays", "broadcast_arrays", "align_dims"])
        if rng.random() < 0.12 and base:
            # a dimension without any label, in every array that has it (the arrays that lack it are replicated along it
            # zero times: _get_axes takes the label-less axis, not an inserted singleton, as the common axis)
            cands = sorted(base)
            if cands:
                d0 = rng.choice(cands)
                for a in arrays:
                    for ax in a["axes"]:
                        if ax["name"] == d0:
                            ax["labels"] = []
        return {"op": "multi", "fn": fn, "arrays": [gen.clean(a) for a in arrays]}

    def systematic(self):
        """small exhaustive families of the less common spellings, on fixed arrays of rank 1-3"""
        def fixed(rank, single=None):
            return {"axes": [{"name": gen.DIMS[i], "kind": ["i", "O", "f"][i],
                              "labels": [gen.enc(v) for v in ([10, 20], ["a", "b", "c"], [0.5, 1.5, 2.5, 3.5])[i]][:1 if single == i else None]}
                             for i in range(rank)], "vkind": "f", "attrs_py": {"title": "T"}}
        for rank in (1, 2, 3):
            arr = fixed(rank)
            names = [a["name"] for a in arr["axes"]]
            expect = {"dims": names, "labels": [list(a["labels"]) for a in arr["axes"]]}
            spell = lambda i, k: [["name", names[i]], ["pos", i], ["pos", i - rank]][k % 3]
            for i in range(rank):
                # swapaxes(i, i): nothing moves
                for k in range(3):
                    yield {"op": "chain", "array": arr, "steps": [{"fn": "swapaxes", "a1": spell(i, k), "a2": spell(i, k + 1), "same": True}],
                           "_expect": expect}
                # positions out of range (alone, among names / positions / negative positions), unknown names
                for badv in (rank, rank + 1, -rank - 1):
                    keys = [["pos", j] for j in range(rank)]
                    keys[i] = ["pos", badv]
                    yield {"op": "chain", "array": arr, "invalid": "range",
                           "steps": [{"fn": "transpose", "dims": keys, "how": "list", "invalid": "range", "_err": True}]}
                    keys = [spell(j, j + i + badv) for j in range(rank)]
                    keys[i] = ["pos", badv]
                    yield {"op": "chain", "array": arr, "invalid": "range",
                           "steps": [{"fn": "transpose", "dims": keys, "how": "varargs", "invalid": "range", "_err": True}]}
                    for k in range(3):
                        yield {"op": "chain", "array": arr, "invalid": "range",
                               "steps": [{"fn": "swapaxes", "a1": spell(i, k), "a2": ["pos", badv], "invalid": "range", "_err": True}]}
                        yield {"op": "chain", "array": arr, "invalid": "range",
                               "steps": [{"fn": "swapaxes", "a1": ["pos", badv], "a2": spell(i, k), "invalid": "range", "_err": True}]}
                keys = [["name", d] for d in names]
                keys[i] = ["name", "q"]
                yield {"op": "chain", "array": arr, "invalid": "unknown",
                       "steps": [{"fn": "transpose", "dims": keys, "how": "tuple", "invalid": "unknown", "_err": True}]}
            if rank >= 2:
                for perm in itertools.permutations(range(rank)):
                    for k in range(3):
                        yield {"op": "chain", "array": arr, "_expect_set": {a["name"]: list(a["labels"]) for a in arr["axes"]},
                               "steps": [{"fn": "transpose", "dims": [spell(p, k) for p in perm], "how": "set", "_last": True}]}
                    # one dimension short / one dimension twice
                    yield {"op": "chain", "array": arr, "invalid": "partial",
                           "steps": [{"fn": "transpose", "dims": [["name", names[p]] for p in perm[:-1]], "how": "list", "invalid": "partial", "_err": True}]}
                    yield {"op": "chain", "array": arr, "invalid": "repeated",
                           "steps": [{"fn": "transpose", "dims": [["pos", p] for p in perm[:-1]] + [["name", names[perm[0]]]], "how": "varargs",
                                      "invalid": "repeated", "_err": True}]}
            # repeat(<int>, axis) of a singleton axis at every position
            for i in range(rank):
                arr1 = fixed(rank, single=i)
                for cnt in (1, 2, 3):
                    v = {"name": names[i], "kind": "i", "labels": [["n", k, 1] for k in range(cnt)]}
                    labels = [list(a["labels"]) for a in arr1["axes"]]
                    labels[i] = v["labels"]
                    yield {"op": "chain", "array": arr1, "_expect": {"dims": names, "labels": labels},
                           "steps": [{"fn": "repeat", "values": v, "axis": spell(i, cnt), "count": cnt, "kwaxis": cnt != 2}]}

    def systematic_singletons(self):
        """deterministic family (regression of seeded4/C10-1, whose detection had depended on the random stream): an array with
        TWO singleton dimensions broadcast onto a target that lacks one of them and lists the other with its single label, next
        to a new dimension - the kept singleton must keep its label; every `how`, every order of the target"""
        ax = lambda n, k, labs: {"name": n, "kind": k, "labels": [gen.enc(v) for v in labs]}
        arr = {"axes": [ax("w", "i", [7]), ax("y", "O", ["r3"]), ax("x", "f", [0.5, 1.5, 2.5])], "vkind": "f", "attrs_py": {"title": "T"}}
        for keep, drop in (("w", "y"), ("y", "w")):
            kept = [a for a in arr["axes"] if a["name"] != drop]
            new = ax("z", "i", [1990, 1991])
            for order in itertools.permutations(kept + [new]):
                for how in ("list", "odict", "dimarray"):
                    yield {"op": "chain", "array": arr, "steps": [{"fn": "broadcast", "target": [dict(t) for t in order], "how": how}],
                           "_expect": {"dims": [t["name"] for t in order], "labels": [list(t["labels"]) for t in order]}}
            # the same through a squeeze of the other singleton first (two steps)
            yield {"op": "chain", "array": arr, "steps": [{"fn": "squeeze", "axis": ["name", drop]},
                                                           {"fn": "broadcast", "target": [dict(t) for t in kept + [new]], "how": "list"}],
                   "_expect": {"dims": [t["name"] for t in kept + [new]], "labels": [list(t["labels"]) for t in kept + [new]]}}

    def systematic_positions(self):
        """every function that takes a dimension position, with positions just outside [-ndim, ndim) (and the boundary
        positions -ndim, ndim-1 just inside), alone and next to a second bad key of another kind, on rank 0-3"""
        def fixed(rank, single=None):
            return {"axes": [{"name": gen.DIMS[i], "kind": ["i", "O", "f"][i],
                              "labels": [gen.enc(v) for v in ([10, 20], ["a", "b", "c"], [0.5, 1.5, 2.5, 3.5])[i]][:1 if single == i else None]}
                             for i in range(rank)], "vkind": "f", "attrs_py": {"title": "T"}}
        Q = ["name", "q"]
        vals = {"name": "v", "kind": "i", "labels": [["n", 7, 1], ["n", 8, 1]]}

        def case(arr, st, invalid):
            st = dict(st)
            if invalid:
                st.update(invalid=invalid, _err=True)
                return {"op": "chain", "array": arr, "invalid": invalid, "steps": [st]}
            return {"op": "chain", "array": arr, "steps": [st]}
        for rank in (0, 1, 2, 3):
            arr = fixed(rank)
            names = [a["name"] for a in arr["axes"]]
            good = [["pos", j] for j in range(rank)]
            bads = (rank, rank + 1, -rank - 1, -rank - 2)
            for b in bads:
                B = ["pos", b]
                # transpose: the bad position first / last / extra / alone, with an unknown name before / after it
                lists = [[B], good + [B], [B] + good, [B, Q], [Q, B], good + [Q, B], good + [B, Q], [B, ["pos", -b]]]
                if rank >= 1:
                    lists += [[B] + good[1:], good[:-1] + [B], [Q] + good[1:-1] + [B], [B] + good[1:-1] + [Q],
                              [["name", names[0]]] * (rank - 1) + [B]]
                for how, ks in zip(itertools.cycle(["list", "tuple", "varargs"]), lists):
                    yield case(arr, {"fn": "transpose", "dims": ks, "how": how}, "two" if Q in ks else "range")
                # swapaxes: both operands bad
                for k1, k2 in ((B, B), (B, ["pos", -b if not -rank <= -b < rank else b + 1]), (B, Q), (Q, B)):
                    yield case(arr, {"fn": "swapaxes", "a1": k1, "a2": k2}, "two" if Q in (k1, k2) else "range")
                # rollaxis: bad axis with a good / a bad start
                for start in (0, rank, -rank, rank + 1, -rank - 1):
                    yield case(arr, {"fn": "rollaxis", "axis": B, "start": start}, "range" if -rank <= start <= rank else "range+start")
                yield case(arr, {"fn": "squeeze", "axis": B}, "range")
                yield case(arr, {"fn": "repeat", "values": vals, "axis": B, "as_axis": False}, "range")
                yield case(arr, {"fn": "repeat", "values": dict(vals, labels=[["n", k, 1] for k in range(2)]), "axis": B, "count": 2, "kwaxis": b > 0}, "range")
            for start in (0, 1, -1, rank + 1):
                yield case(arr, {"fn": "rollaxis", "axis": Q, "start": start}, "unknown" if -rank <= start <= rank else "unknown+start")
            yield case(arr, {"fn": "squeeze", "axis": Q}, "unknown")
            yield case(arr, {"fn": "repeat", "values": vals, "axis": Q, "as_axis": False}, "unknown")
            for i in range(rank):
                for k in range(3):
                    key = [["name", names[i]], ["pos", i], ["pos", i - rank]][k]
                    # rollaxis: a good axis with a start outside [-ndim, ndim] (refused) and on its boundary (accepted)
                    for start in (rank + 1, rank + 2, -rank - 1, -rank - 2):
                        yield case(arr, {"fn": "rollaxis", "axis": key, "start": start}, "start")
                    for start in (rank, -rank):
                        yield case(arr, {"fn": "rollaxis", "axis": key, "start": start}, None)
                    # squeeze / repeat of the singleton dimension i by every spelling incl. the boundary positions
                    arr1 = fixed(rank, single=i)
                    yield case(arr1, {"fn": "squeeze", "axis": key}, None)
                    yield case(arr1, {"fn": "repeat", "values": dict(vals, name=names[i]), "axis": key, "as_axis": False}, None)
            # the boundary positions just inside, for transpose and swapaxes
            if rank >= 1:
                yield case(arr, {"fn": "transpose", "dims": [["pos", -rank]] + good[1:], "how": "list"}, None)
                yield case(arr, {"fn": "transpose", "dims": good[:-1] + [["pos", -1]], "how": "tuple"}, None)
                yield case(arr, {"fn": "swapaxes", "a1": ["pos", -rank], "a2": ["pos", rank - 1]}, None)

    def gen(self, rng, tier):
        for c in self.systematic():
            yield c
        for c in self.systematic_singletons():
            yield c
        for c in self.systematic_positions():
            yield c
        n = 900 if tier == "quick" else 25000
        for _ in range(n):
            r = rng.random()
            if r < 0.75:
                yield self.gen_chain(rng)
            elif r < 0.85:
                yield self.gen_roundtrip(rng)
            else:
                yield self.gen_bcast_arrays(rng)
        if tier == "thorough":
            # all permutations of rank-3 and rank-4 arrays by name
            for rank in (3, 4):
                for perm in itertools.permutations(range(rank)):
                    arr = {"axes": [{"name": gen.DIMS[i], "kind": "i", "labels": [["n", k, 1] for k in range(i + 2)]} for i in range(rank)], "vkind": "f"}
                    yield {"op": "chain", "array": arr, "steps": [{"fn": "transpose", "dims": [["name", gen.DIMS[p]] for p in perm], "how": "list"}]}

    # ------------------------------------------------------------ implementation side
    def impl(self, c):
        toks = core.AttrTokens()
        if c["op"] == "multi":
            arrs = [core.build_array(a, k) for k, a in enumerate(c["arrays"])]
            before = [core.obs_array(a, toks) for a in arrs]
            fn = da.broadcast_arrays if c["fn"] == "broadcast_arrays" else __import__("sys").modules["dimarray.core.align"].align_dims
            out = core.guarded(lambda: [core.obs_array(r, toks) for r in fn(*arrs)])
            out["inputs"] = before
            if [core.obs_array(a, toks) for a in arrs] != before:
                out["operand_modified"] = True
            return out
        a = core.build_array(c["array"], 0)
        before = core.obs_array(a, toks)

        def run():
            cur = a
            for st in c["steps"]:
                cur = apply_step10(cur, st)
            return core.obs_array(cur, toks)
        out = core.guarded(run)
        out["input"] = before
        if core.obs_array(a, toks) != before:
            out["operand_modified"] = True
        return out

    def request(self, c):
        toks = core.AttrTokens()
        if c["op"] == "multi":
            return {"op": "multi", "fn": c["fn"], "arrays": [core.lean_array(gen.clean(a), toks) for a in c["arrays"]]}
        steps = []
        for st in c["steps"]:
            ls = lean_step10(st, toks)
            if st["fn"] == "transpose" and st.get("how") == "set":
                ls["dims"] = set_order(st)
            steps.append(ls)
        return {"op": "chain", "arrays": [core.lean_array(gen.clean(c["array"]), toks)], "steps": steps}

    def judge(self, c, io, ans):
        lean = ans["lib"]
        bad, prop_bad = [], []
        if c["op"] == "multi":
            if "ok" in lean:
                env = core.CellEnv([core.build_array(a, k).values for k, a in enumerate(c["arrays"])])
                louts = []
                for lo in lean["ok"]:
                    x = core.lean_obs_to_canon(lo, env); x["scalar"] = False
                    louts.append(x)
                if "err" in io:
                    bad.append("outcome")
                else:
                    for x, y in zip(io["ok"], louts):
                        bad += core.diff_obs({"ok": x}, {"ok": y})
            else:
                if "ok" in io:
                    bad.append("outcome")
                elif io["err"] != lean["err"]:
                    bad.append("M.errclass")
            if "ok" in io:
                for inp, out in zip(io["inputs"], io["ok"]):
                    prop_bad += check_coordinates(inp, out)
                if c["fn"] == "broadcast_arrays":
                    shapes = set(tuple(o["shape"]) for o in io["ok"]); dims = set(tuple(o["dims"]) for o in io["ok"])
                    if len(shapes) > 1 or len(dims) > 1:
                        prop_bad.append("broadcast:not_same_shape")
        else:
            if "ok" in lean:
                a = core.build_array(c["array"], 0)
                lo = core.lean_obs_to_canon(lean["ok"], core.CellEnv([a.values])); lo["scalar"] = False
                lean = {"ok": lo}
            d = core.diff_obs(io, lean)
            bad += [("M." + x if x == "errclass" else x) for x in d]
            if c.get("invalid"):
                # the request names no permutation / pair of the array's dimensions: there is no 'requested arrangement'
                # a result could have, the call has to be refused
                if "ok" in io:
                    prop_bad.append("outcome:invalid_request_accepted")
                elif io["err"] == "recursion":
                    prop_bad.append("outcome:recursion")
            if "ok" in io:
                prop_bad += check_coordinates(io["input"], io["ok"])
                if c.get("_expect_set") is not None:
                    want = c["_expect_set"]
                    if sorted(io["ok"]["dims"]) != sorted(want):
                        prop_bad.append("dims:not_as_requested")
                    elif any([lab_key(l) for l in x["labels"]] != [lab_key(l) for l in want[x["name"]]] for x in io["ok"]["axes"]):
                        prop_bad.append("axes.labels:not_as_requested")
                if io["ok"]["attrs"] != io["input"]["attrs"]:
                    prop_bad.append("attrs")
                if c.get("_expect"):
                    # the result's dims are the requested permutation / insertion / removal, every axis with its labels
                    if io["ok"]["dims"] != c["_expect"]["dims"]:
                        prop_bad.append("dims:not_as_requested")
                    elif [[lab_key(l) for l in x["labels"]] for x in io["ok"]["axes"]] != [[lab_key(l) for l in ls] for ls in c["_expect"]["labels"]]:
                        prop_bad.append("axes.labels:not_as_requested")
                if c.get("roundtrip"):
                    for k in ("dims", "shape", "values", "axes"):
                        if io["ok"][k] != io["input"][k]:
                            prop_bad.append("roundtrip." + k)
            elif "ok" in lean or c.get("_expect") or c.get("_expect_set") is not None:
                prop_bad.append("outcome:" + io["err"])
        if io.get("operand_modified"):
            prop_bad.append("operand_modified")
        if not bad and not prop_bad:
            return None
        return {"kind": "P" if prop_bad else "M", "differs": sorted(set(bad + prop_bad)), "msg": io.get("msg"),
                "trace": ans.get("trace")}

    def nontrivial(self, c):
        if c["op"] == "multi":
            return True
        return len(c["array"]["axes"]) >= 2 or any(s["fn"] in ("newaxis", "squeeze", "broadcast", "repeat") for s in c["steps"])

    def features(self, c, io):
        f = {"outcome": "err:" + io["err"] if "err" in io else "ok", "op": c["op"]}
        if c["op"] == "chain":
            f["rank"] = len(c["array"]["axes"]); f["len"] = len(c["steps"])
            for s in c["steps"]:
                f["fn:" + s["fn"]] = 1
                if s["fn"] == "repeat":
                    f["repeat.values"] = "int" if s.get("count") is not None else ("Axis+axis=" if s.get("as_axis") == "named" else "Axis" if s.get("as_axis") else "array")
                if s["fn"] == "newaxis" and s.get("values") is not None:
                    f["newaxis.values"] = "Axis" if s.get("values_as") == "axis" else "array"
                if s["fn"] == "broadcast":
                    f["broadcast.target_attrs"] = any(t.get("attrs_py") for t in s["target"])
                if s["fn"] == "transpose" and s.get("dims") is not None:
                    f["transpose.how"] = s.get("how", "list")
                if s["fn"] == "swapaxes" and s.get("same"):
                    f["swapaxes.same"] = 1
            f["invalid"] = c.get("invalid", "no")
            f["model"] = "lean"
            if c.get("invalid"):
                f["invalid.fn"] = c["steps"][-1]["fn"] + ":" + c["invalid"]
            f["zero_length_axis"] = any(len(a["labels"]) == 0 for a in c["array"]["axes"])
        else:
            f["fn:" + c["fn"]] = 1
            f["zero_length_axis"] = any(len(ax["labels"]) == 0 for a in c["arrays"] for ax in a["axes"])
        return f

    def size(self, c):
        if c["op"] == "multi":
            return 1000
        return 10 * len(c["steps"]) + sum(len(a["labels"]) for a in c["array"]["axes"])

    def reducers(self, c):
        out = []
        if c["op"] == "chain" and len(c["steps"]) > 1:
            for k in range(len(c["steps"])):
                c2 = copy.deepcopy(c); del c2["steps"][k]; c2.pop("roundtrip", None)
                out.append(c2)
        return out

    def snippet(self, c):
        return ("import sys; sys.path.insert(0, '/verif/harness'); import json, core; from props.c10 import PROP; "
                "case = json.load(open(REPLAY))['case']; print(PROP.impl(case))")


PROP = C10()

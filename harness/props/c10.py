"""C10 - rearranging dimensions preserves every element's label coordinates."""
import copy, itertools
import numpy as np
import core, gen, ops
from core import da, Axis, DimArray
from .base import Prop
from .c06 import lab_key


def distinct_array(rng, rank):
    """axes of different lengths and kinds so that any mix-up changes shapes or labels"""
    sizes = rng.sample([1, 2, 3, 4, 5], rank)
    if rng.random() < 0.3 and rank:
        sizes[rng.randrange(rank)] = 1
    dims = rng.sample(gen.DIMS, rank)
    axes = [gen.rand_axis(rng, d, n=n) for d, n in zip(dims, sizes)]
    arr = {"axes": axes, "vkind": rng.choice(["f", "i"])}
    if rng.random() < 0.5:
        arr["attrs_py"] = {"title": "T", "n": 1}
    for ax in axes:
        if rng.random() < 0.3:
            ax["attrs_py"] = {"units": "u" + ax["name"]}
    return arr


def check_coordinates(inp, out):
    """the statement of C10 on (input observation, output observation): every output cell equals the
    input cell at the corresponding label coordinate (replicated along new / repeated dimensions);
    every surviving axis travels with its data"""
    bad = []
    in_dims = inp["dims"]
    for d, ax in zip(in_dims, inp["axes"]):
        if len(ax["labels"]) != 1 and d not in out["dims"]:
            bad.append("dims:lost")
    if len(set(out["dims"])) != len(out["dims"]):
        bad.append("dims:duplicate")
    if bad:
        return bad
    in_keys = [[lab_key(l) for l in ax["labels"]] for ax in inp["axes"]]
    for flat, coord in enumerate(itertools.product(*[ax["labels"] for ax in out["axes"]])):
        cd = {ax["name"]: lab_key(l) for ax, l in zip(out["axes"], coord)}
        idx = 0
        ok = True
        for d, ax, keys in zip(in_dims, inp["axes"], in_keys):
            if len(keys) == 1:
                p = 0
            else:
                if d not in cd or cd[d] not in keys:
                    ok = False
                    break
                p = keys.index(cd[d])
            idx = idx * len(keys) + p
        if not ok:
            bad.append("axes.labels:travel")
            break
        if out["values"][flat] != inp["values"][idx]:
            bad.append("values:moved")
            break
    return bad


class C10(Prop):
    id = "C10"
    theorems = ["isPerm_mem", "transposeBy_dims", "transposeBy_axes", "transposeBy_at", "transposeBy_attrs",
                "transpose_inv_axes", "transpose_inv_at", "newaxis_at", "squeezeDim_at", "repeatDim_at", "rollPerm_isPerm", "transposeBy_spec", "transpose_names_spec", "transpose_keys_spec", "transpose_keys_interchangeable", "swapaxes_keys_interchangeable", "transpose_default_spec",
                "swapaxes_spec", "rollaxis_spec", "rollaxis_lands_before", "squeeze_axis_spec", "squeeze_all_spec", "repeat_spec",
                "newaxis_spec", "newaxis_values_spec", "broadcast_spec", "sameByName_unique", "sameOn_unique"]
    rule = ("arrays of rank 0-4 whose axes have pairwise different lengths and mixed kinds (a share with singleton "
            "axes), carrying array- and axis-level metadata; chains of 1-4 steps among transpose (list / tuple / varargs, "
            "names / positions / negative positions, default, .T), swapaxes, rollaxis (every axis, start), newaxis (every "
            "pos incl. -1, with and without values), squeeze (all / one axis), repeat (array or Axis), broadcast (list of "
            "axes / DimArray / OrderedDict targets in any order) and broadcast_arrays; the inverse-permutation round trip. "
            "Non-trivial = rank >= 2 or a dimension added/removed; distinct = canonical JSON")
    assumptions = ["comma-free dimension names; labels unique"]

    def mirrors(self):
        import sys as _s
        r = _s.modules["dimarray.core.reshape"]
        al = _s.modules["dimarray.core.align"]
        from dimarray.core import bases
        return {"transpose": r.transpose, "swapaxes": r.swapaxes, "rollaxis": r.rollaxis, "newaxis": r.newaxis,
                "squeeze": r.squeeze, "repeat": r.repeat, "broadcast": r.broadcast, "reshape": r.reshape,
                "broadcast_arrays": al.broadcast_arrays, "align_dims": al.align_dims, "_get_axes": al._get_axes,
                "_get_axis_info": bases.AbstractHasAxes._get_axis_info}

    # ------------------------------------------------------------ generation
    def gen_step(self, rng, sim, allow_invalid=True):
        n = len(sim.axes)
        choices = ["transpose", "newaxis", "broadcast"]
        if n >= 1:
            choices += ["rollaxis", "squeeze", "squeeze_all"]
        if n >= 2:
            choices += ["transpose", "swapaxes"]
        if any(len(a["labels"]) == 1 for a in sim.axes):
            choices += ["repeat", "repeat", "squeeze"]
        fn = rng.choice(choices)
        if fn == "transpose":
            r = rng.random()
            if r < 0.15:
                st = {"fn": "transpose", "dims": None, "T": rng.random() < 0.5}
                if n == 2:
                    sim.axes.reverse()
                elif n > 2:
                    st["_err"] = True
                return st
            perm = list(range(n))
            rng.shuffle(perm)
            st = {"fn": "transpose", "dims": [sim.key(rng, p) for p in perm], "how": rng.choice(["list", "tuple", "varargs"])}
            if n == 0:
                st["how"] = "list"
            sim.axes = [sim.axes[p] for p in perm]
            return st
        if fn == "swapaxes":
            i, j = rng.sample(range(n), 2)
            st = {"fn": "swapaxes", "a1": sim.key(rng, i), "a2": sim.key(rng, j)}
            sim.axes[i], sim.axes[j] = sim.axes[j], sim.axes[i]
            return st
        if fn == "rollaxis":
            i = rng.randrange(n)
            start = rng.randint(0, n)
            # (a negative start counts from the end, as in numpy.rollaxis)
            st = {"fn": "rollaxis", "axis": sim.key(rng, i) if rng.random() < 0.8 else ["pos", i],
                  "start": start - n if start < n and rng.random() < 0.25 else start}
            ax = sim.axes.pop(i)
            s2 = start - 1 if start > i else start
            sim.axes.insert(s2, ax)
            return st
        if fn == "newaxis":
            free = [d for d in gen.DIMS + ["t", "u"] if d not in sim.dims]
            if not free:
                return self.gen_step(rng, sim)
            name = rng.choice(free)
            pos = rng.randint(0, n)
            # (a negative position counts from the end of the RESULT's dimensions, as for np.expand_dims: -1 appends)
            st = {"fn": "newaxis", "name": name, "pos": pos if rng.random() < 0.7 else pos - (n + 1)}
            newax = {"name": name, "kind": "O", "labels": [["N"]]}
            if rng.random() < 0.4:
                v = gen.rand_axis(rng, name, n=rng.randint(1, 3))
                st["values"] = gen.clean(v)
                newax = gen.clean(v)
            sim.axes.insert(pos, dict(newax, multi=None))
            return st
        if fn == "squeeze_all":
            sim.axes = [a for a in sim.axes if len(a["labels"]) != 1]
            return {"fn": "squeeze", "axis": None}
        if fn == "squeeze":
            singles = [i for i, a in enumerate(sim.axes) if len(a["labels"]) == 1]
            if singles and rng.random() < 0.85:
                i = rng.choice(singles)
                st = {"fn": "squeeze", "axis": sim.key(rng, i)}
                sim.axes.pop(i)
                return st
            i = rng.randrange(n)
            st = {"fn": "squeeze", "axis": sim.key(rng, i)}
            if len(sim.axes[i]["labels"]) == 1:
                sim.axes.pop(i)
            else:
                st["_err"] = True
            return st
        if fn == "repeat":
            singles = [i for i, a in enumerate(sim.axes) if len(a["labels"]) == 1]
            i = rng.choice(singles)
            v = gen.clean(gen.rand_axis(rng, sim.axes[i]["name"], n=rng.randint(1, 3)))
            st = {"fn": "repeat", "values": v, "axis": sim.key(rng, i), "as_axis": rng.random() < 0.3}
            sim.axes[i] = dict(v, multi=None)
            return st
        if fn == "broadcast":
            # target: the current axes plus new ones, in any order; singleton axes may be replaced
            target = []
            for a in sim.axes:
                if len(a["labels"]) == 1 and rng.random() < 0.5:
                    target.append(gen.clean(gen.rand_axis(rng, a["name"], n=rng.randint(2, 3))))
                else:
                    target.append({"name": a["name"], "kind": a["kind"], "labels": list(a["labels"])})
            free = [d for d in gen.DIMS + ["t", "u"] if d not in sim.dims]
            for d in rng.sample(free, min(len(free), rng.randint(0, 2))):
                target.append(gen.clean(gen.rand_axis(rng, d, n=rng.randint(1, 3))))
            rng.shuffle(target)
            st = {"fn": "broadcast", "target": target, "how": rng.choice(["list", "odict", "dimarray"])}
            if not target:
                st["how"] = "list"
            sim.axes = [dict(t, multi=None) for t in target]
            return st
        raise ValueError(fn)

    def gen_chain(self, rng):
        rank = rng.choice([0, 1, 2, 2, 3, 3, 4])
        arr = distinct_array(rng, rank)
        sim = ops.Sim(arr)
        steps = []
        for _ in range(rng.choice([1, 1, 2, 3, 4])):
            st = self.gen_step(rng, sim)
            steps.append(st)
            if st.get("_err"):
                break
            if len(sim.axes) > 5:
                break
        c = {"op": "chain", "array": arr, "steps": steps}
        if not any(st.get("_err") for st in steps):
            # what was requested, tracked independently of the library and of the model: dims and labels per dimension
            c["_expect"] = {"dims": list(sim.dims), "labels": [list(a["labels"]) for a in sim.axes]}
        return c

    def gen_roundtrip(self, rng):
        rank = rng.choice([2, 3, 4])
        arr = distinct_array(rng, rank)
        perm = list(range(rank))
        rng.shuffle(perm)
        inv = [perm.index(i) for i in range(rank)]
        names = [a["name"] for a in arr["axes"]]
        return {"op": "chain", "array": arr, "roundtrip": True,
                "steps": [{"fn": "transpose", "dims": [["name", names[p]] for p in perm], "how": "list"},
                          {"fn": "transpose", "dims": [["pos", q] for q in inv], "how": "tuple"}]}

    def gen_bcast_arrays(self, rng):
        from .c06 import gen_arrays
        arrays = gen_arrays(rng, n=rng.choice([2, 2, 3]), allow_empty=False, minn=1)
        # broadcast_arrays requires aligned axes: give every dimension one label set
        base = {}
        for a in arrays:
            for ax in a["axes"]:
                if ax["name"] not in base:
                    base[ax["name"]] = (ax["kind"], ax["labels"])
                elif rng.random() < 0.9:
                    ax["kind"], ax["labels"] = base[ax["name"]]
        return {"op": "multi", "fn": rng.choice(["broadcast_arrays", "broadcast_arrays", "align_dims"]), "arrays": [gen.clean(a) for a in arrays]}

    def gen(self, rng, tier):
        n = 900 if tier == "quick" else 25000
        for _ in range(n):
            r = rng.random()
            if r < 0.75:
                yield self.gen_chain(rng)
            elif r < 0.85:
                yield self.gen_roundtrip(rng)
            else:
                yield self.gen_bcast_arrays(rng)
        if tier == "thorough":
            # all permutations of rank-3 and rank-4 arrays by name
            for rank in (3, 4):
                for perm in itertools.permutations(range(rank)):
                    arr = {"axes": [{"name": gen.DIMS[i], "kind": "i", "labels": [["n", k, 1] for k in range(i + 2)]} for i in range(rank)], "vkind": "f"}
                    yield {"op": "chain", "array": arr, "steps": [{"fn": "transpose", "dims": [["name", gen.DIMS[p]] for p in perm], "how": "list"}]}

    # ------------------------------------------------------------ implementation side
    def impl(self, c):
        toks = core.AttrTokens()
        if c["op"] == "multi":
            arrs = [core.build_array(a, k) for k, a in enumerate(c["arrays"])]
            before = [core.obs_array(a, toks) for a in arrs]
            fn = da.broadcast_arrays if c["fn"] == "broadcast_arrays" else __import__("sys").modules["dimarray.core.align"].align_dims
            out = core.guarded(lambda: [core.obs_array(r, toks) for r in fn(*arrs)])
            out["inputs"] = before
            if [core.obs_array(a, toks) for a in arrs] != before:
                out["operand_modified"] = True
            return out
        a = core.build_array(c["array"], 0)
        before = core.obs_array(a, toks)

        def run():
            cur = a
            for st in c["steps"]:
                cur = ops.apply_step(cur, st)
            return core.obs_array(cur, toks)
        out = core.guarded(run)
        out["input"] = before
        if core.obs_array(a, toks) != before:
            out["operand_modified"] = True
        return out

    def request(self, c):
        toks = core.AttrTokens()
        if c["op"] == "multi":
            return {"op": "multi", "fn": c["fn"], "arrays": [core.lean_array(gen.clean(a), toks) for a in c["arrays"]]}
        return {"op": "chain", "arrays": [core.lean_array(gen.clean(c["array"]), toks)],
                "steps": [ops.lean_step(st) for st in c["steps"]]}

    def judge(self, c, io, ans):
        lean = ans["lib"]
        bad, prop_bad = [], []
        if c["op"] == "multi":
            if "ok" in lean:
                env = core.CellEnv([core.build_array(a, k).values for k, a in enumerate(c["arrays"])])
                louts = []
                for lo in lean["ok"]:
                    x = core.lean_obs_to_canon(lo, env); x["scalar"] = False
                    louts.append(x)
                if "err" in io:
                    bad.append("outcome")
                else:
                    for x, y in zip(io["ok"], louts):
                        bad += core.diff_obs({"ok": x}, {"ok": y})
            else:
                if "ok" in io:
                    bad.append("outcome")
                elif io["err"] != lean["err"]:
                    bad.append("M.errclass")
            if "ok" in io:
                for inp, out in zip(io["inputs"], io["ok"]):
                    prop_bad += check_coordinates(inp, out)
                if c["fn"] == "broadcast_arrays":
                    shapes = set(tuple(o["shape"]) for o in io["ok"]); dims = set(tuple(o["dims"]) for o in io["ok"])
                    if len(shapes) > 1 or len(dims) > 1:
                        prop_bad.append("broadcast:not_same_shape")
        else:
            if "ok" in lean:
                a = core.build_array(c["array"], 0)
                lo = core.lean_obs_to_canon(lean["ok"], core.CellEnv([a.values])); lo["scalar"] = False
                lean = {"ok": lo}
            d = core.diff_obs(io, lean)
            bad += [("M." + x if x == "errclass" else x) for x in d]
            if "ok" in io:
                prop_bad += check_coordinates(io["input"], io["ok"])
                if io["ok"]["attrs"] != io["input"]["attrs"]:
                    prop_bad.append("attrs")
                if c.get("_expect"):
                    # the result's dims are the requested permutation / insertion / removal, every axis with its labels
                    if io["ok"]["dims"] != c["_expect"]["dims"]:
                        prop_bad.append("dims:not_as_requested")
                    elif [[lab_key(l) for l in x["labels"]] for x in io["ok"]["axes"]] != [[lab_key(l) for l in ls] for ls in c["_expect"]["labels"]]:
                        prop_bad.append("axes.labels:not_as_requested")
                if c.get("roundtrip"):
                    for k in ("dims", "shape", "values", "axes"):
                        if io["ok"][k] != io["input"][k]:
                            prop_bad.append("roundtrip." + k)
            elif "ok" in lean or c.get("_expect"):
                prop_bad.append("outcome:" + io["err"])
        if io.get("operand_modified"):
            prop_bad.append("operand_modified")
        if not bad and not prop_bad:
            return None
        return {"kind": "P" if prop_bad else "M", "differs": sorted(set(bad + prop_bad)), "msg": io.get("msg"),
                "trace": ans.get("trace")}

    def nontrivial(self, c):
        if c["op"] == "multi":
            return True
        return len(c["array"]["axes"]) >= 2 or any(s["fn"] in ("newaxis", "squeeze", "broadcast", "repeat") for s in c["steps"])

    def features(self, c, io):
        f = {"outcome": "err:" + io["err"] if "err" in io else "ok", "op": c["op"]}
        if c["op"] == "chain":
            f["rank"] = len(c["array"]["axes"]); f["len"] = len(c["steps"])
            for s in c["steps"]:
                f["fn:" + s["fn"]] = 1
        else:
            f["fn:" + c["fn"]] = 1
        return f

    def size(self, c):
        if c["op"] == "multi":
            return 1000
        return 10 * len(c["steps"]) + sum(len(a["labels"]) for a in c["array"]["axes"])

    def reducers(self, c):
        out = []
        if c["op"] == "chain" and len(c["steps"]) > 1:
            for k in range(len(c["steps"])):
                c2 = copy.deepcopy(c); del c2["steps"][k]; c2.pop("roundtrip", None)
                out.append(c2)
        return out

    def snippet(self, c):
        return ("import sys; sys.path.insert(0, '/verif/harness'); import json, core; from props.c10 import PROP; "
                "case = json.load(open(REPLAY))['case']; print(PROP.impl(case))")


PROP = C10()

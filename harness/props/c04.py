"""C04 - arithmetic aligns operands by dimension name and by label."""
import copy, itertools, math, operator
from fractions import Fraction
import numpy as np
import core, gen
from core import da, Axis, DimArray
from .base import Prop
from .c06 import gen_arrays, lab_key, cell_index
from . import c04vals

OPS = {"add": (operator.add, np.add), "sub": (operator.sub, np.subtract), "mul": (operator.mul, np.multiply),
       "truediv": (operator.truediv, np.true_divide), "floordiv": (operator.floordiv, np.floor_divide),
       "pow": (operator.pow, np.power)}
DT = {"f": np.float64, "i": np.int64}


def small_values(shape, vkind, k):
    """values that include 0 and 1 (exponent 0, base 1: where IEEE pow is not NaN-absorbing)"""
    n = int(np.prod(shape)) if len(shape) else 1
    v = (np.arange(n) + k) % 4
    return v.astype(DT[vkind]).reshape(shape)


def build(c, k):
    ad = c["arrays"][k]
    a = core.build_array(ad, k)
    if c.get("small"):
        vals = small_values(a.shape, ad.get("vkind", "f"), k)
        if ad.get("vkind", "f") == "f":
            for i in ad.get("nan_at", ()):
                vals.flat[i] = np.nan
        a = DimArray(vals, axes=[ax.copy() for ax in a.axes])
    return a


def same(x, y):
    if x == y:
        return True
    return False


def check_operation_property(c, ia, ib, out, ufunc):
    """the statement of C04 checked on the implementation's result"""
    bad = []
    want_dims = ia["dims"] + [d for d in ib["dims"] if d not in ia["dims"]]
    if out["dims"] != want_dims:
        bad.append("dims")
        return bad
    for ax in out["axes"]:
        d = ax["name"]
        keys = [lab_key(l) for l in ax["labels"]]
        sets = []
        for inp in (ia, ib):
            if d in inp["dims"]:
                sets.append(set(lab_key(l) for l in inp["axes"][inp["dims"].index(d)]["labels"]))
        if len(set(keys)) != len(keys):
            bad.append("axes.labels:duplicate")
        if set(keys) != set.union(*sets):
            bad.append("axes.labels:set")
    if bad:
        return bad
    va = np.array([core_val(v) for v in ia["values"]], dtype=float) if ia["vkind"] != "O" else None
    for flat, coord in enumerate(itertools.product(*[ax["labels"] for ax in out["axes"]])):
        cd = {ax["name"]: l for ax, l in zip(out["axes"], coord)}
        pa = cell_index(ia, {d: cd[d] for d in ia["dims"]})
        pb = cell_index(ib, {d: cd[d] for d in ib["dims"]})
        got = out["values"][flat]
        if pa is None or pb is None:
            if got != ["nan"]:
                bad.append("values:nan_elsewhere")
                break
        else:
            x = typed(ia["values"][pa], ia["vkind"]); y = typed(ib["values"][pb], ib["vkind"])
            with np.errstate(all="ignore"):
                want = ufunc(x, y)
            # operands that had to be reindexed were promoted to float first
            with np.errstate(all="ignore"):
                want_f = ufunc(np.float64(x), np.float64(y))
            if got != core.canon_value(want.item()) and got != core.canon_value(want_f.item()):
                bad.append("values:op")
                break
    return bad


def core_val(v):
    if v[0] == "n":
        return float(Fraction(v[1], v[2]))
    if v[0] == "nan":
        return float("nan")
    if v[0] == "inf":
        return float("inf") if v[1] else float("-inf")
    if v[0] == "b":
        return float(v[1])
    return float("nan")


def typed(v, kind):
    x = core_val(v)
    return np.int64(x) if kind == "i" else np.float64(x)


class C04(Prop):
    id = "C04"
    theorems = ["opTable_complete", "opTable_all_forms", "bcastShape_isSome", "zipBroadcast_get", "bcastIdx_get",
                "getDims_first_prefix", "operation_attrs_dropped", "operation_same_dims_spec", "operation_same_dims_labels", "operation_same_dims_succeeds", "operation_succeeds", "operation_dims", "operation_dims_cover", "operation_general_spec", "operation_general_labels", "operation_unshared_labels",
                "operation_disjoint_dims", "operation_broadcast_sub", "operation_comma_name_counterexample",
                "add_nanAbsorbing", "sub_nanAbsorbing", "mul_nanAbsorbing", "truediv_nanAbsorbing", "floordiv_nanAbsorbing",
                "pow_nan_right_iff", "pow_nan_left_iff", "pow_not_nanAbsorbing", "opX_nanAbsorbing_iff", "cmpX_nan",
                "operation_cell_spec", "operation_missing_is_nan", "operation_missing_is_nan_op", "operation_pow_missing_not_nan"]
    rule = ("pairs of arrays of rank 0-3 over a pool of 1-3 dimension names with arbitrary overlap and order of "
            "dimensions; per-dimension label sets equal / overlapping / nested / disjoint, stored increasing / "
            "decreasing / shuffled, int/float/str and mixed int/float kinds; all six operators, both operand orders; "
            "scalar operands in both orders and ndarray right operands; a share of cases with values in {0,1,2,3} so "
            "that pow meets base 1 / exponent 0. The operator table (6 operators x {a op b, a op scalar, scalar op a, a "
            "op ndarray} on the probe operands 8 and 2) is tabulated from the implementation on every run. "
            "Stratum opx (what the operator computes in a cell, Lib/OpVals.lean): float64 arrays with CONCRETE cells (small "
            "integers, dyadic rationals, zeros, NaN, +inf, -inf sprinkled) for every operator of the table (+ - * / // **) x "
            "{a op b with alignment, a op scalar, scalar op a (python float / np.float64 / 0-d array), a op ndarray incl. "
            "ndarrays that do not broadcast / have more dimensions}, and the comparisons == != < <= > >= with a scalar, an "
            "ndarray, a DimArray on equal axes and one on different axes (False / True / ValueError: comparisons do not "
            "align); the driver evaluates operation / operationNd / compareNd on exact cells and every cell is compared "
            "(NaN / inf positions and error classes exactly, rationals exactly when they are float64, else 1e-12); oracle: "
            "NumPy's ufunc on the two label-matched cells, the missing operand being NaN, and the literal sentence 'NaN "
            "elsewhere' (violated by ** at base 1 / exponent 0: K01). "
            "Non-trivial = two arrays sharing a dimension with different labels or different dims; distinct = canonical JSON")
    assumptions = ["default options op.reindex=True, op.broadcast=True", "what the ufunc computes inside a cell is NumPy's (evaluated by NumPy) in the symbolic strata",
                   "stratum opx: float64 data only; rounding is not modelled (a model value that is exactly a float64 must be returned exactly, any other within 1e-12 relative); the model has ONE zero (-0.0 read as 0, zero operands are +0.0); pow is modelled for exponents NaN / +-inf / integers (generated exponents are integers); & and | (TypeError on floats) are not modelled"]

    def mirrors(self):
        import sys as _s
        op = _s.modules["dimarray.core.operation"]
        al = _s.modules["dimarray.core.align"]
        from dimarray.core import bases, dimarraycls
        return {"operation": op.operation, "align_dims": al.align_dims, "align": al.align, "OpMixin": bases.OpMixin,
                "_binary_op": dimarraycls.DimArray._binary_op, "_rbinary_op": dimarraycls.DimArray._rbinary_op,
                "__eq__": dimarraycls.DimArray.__eq__, "__ne__": dimarraycls.DimArray.__ne__, "_cmp": dimarraycls.DimArray._cmp,
                "_to_array_equiv": dimarraycls.DimArray._to_array_equiv}

    # ---- the operator table, regenerated from the implementation on every run
    def pre_build(self):
        a = DimArray(np.array([8.0]), axes=[Axis(np.array([0]), "x")])
        b = DimArray(np.array([2.0]), axes=[Axis(np.array([0]), "x")])
        rows = []
        for name, (pyop, _) in OPS.items():
            for form in ("arr_arr", "arr_scalar", "scalar_arr", "arr_nd", "arr_arr_rev"):
                try:
                    with np.errstate(all="ignore"):
                        if form == "arr_arr":
                            r = pyop(a, b)
                        elif form == "arr_arr_rev":
                            r = pyop(b, a)
                        elif form == "arr_scalar":
                            r = pyop(a, 2.0)
                        elif form == "scalar_arr":
                            r = pyop(8.0, b)
                        else:
                            r = pyop(a, np.array([2.0]))
                    v = float(np.asarray(r.values if isinstance(r, DimArray) else r).reshape(-1)[0])
                    fr = Fraction(v)
                    rows.append((name, form, "ok", fr.numerator, fr.denominator, isinstance(r, DimArray)))
                except Exception as e:  # noqa
                    rows.append((name, form, core.exc_class(e), 0, 1, False))
        body = ",\n  ".join('(.%s, "%s", %s, (%d : Int), %d)' % (n, f, "true" if (o == "ok" and isda) else "false", num, den)
                            for n, f, o, num, den, isda in rows)
        content = ("/- GENERATED on every run by harness/props/c04.py: every operator of DimArray, in every operand form,\n"
                   "   evaluated by the implementation on the probe operands 8 and 2 -/\n"
                   "import DimModel.Lib.Operation\nnamespace DimModel.Gen\nopen DimModel.Lib\n\n"
                   "/-- (operator, form, returned a DimArray without raising, result numerator, denominator) -/\n"
                   "def opTable : List (Op × String × Bool × Int × Nat) := [\n  %s]\n\nend DimModel.Gen\n" % body)
        changed = core.write_table("TableC04", content)
        self._table = rows
        return {"changed": changed, "summary": {"operator table rows": len(rows)}, "rows": rows}

    def table_failing_rows(self, info):
        sem = {"add": lambda x, y: x + y, "sub": lambda x, y: x - y, "mul": lambda x, y: x * y, "truediv": lambda x, y: x / y,
               "floordiv": lambda x, y: Fraction(math.floor(x / y)), "pow": lambda x, y: x ** int(y)}
        bad = []
        for n, f, o, num, den, isda in info["rows"]:
            x, y = (Fraction(2), Fraction(8)) if f == "arr_arr_rev" else (Fraction(8), Fraction(2))
            if o != "ok" or not isda or Fraction(num, den) != sem[n](x, y):
                bad.append({"operator": n, "form": f, "outcome": o, "value": [num, den], "expected": str(sem[n](x, y))})
        return bad

    def table_replay_hint(self):
        return ("a = DimArray([8.]); b = DimArray([2.]); forms: a op b, b op a, a op 2.0, 8.0 op b, a op np.array([2.]); "
                "each must return a DimArray holding 8 op 2 (resp. 2 op 8)")

    def extra_evidence(self):
        return {"tabulated_rows": len(getattr(self, "_table", []))}

    # ------------------------------------------------------------ generation
    def gen(self, rng, tier):
        n = 900 if tier == "quick" else 25000
        names = list(OPS)
        from .c06 import midshuffle_pairs
        for c in c04vals.gen_cases(self, rng, tier):
            yield c
        for k, arrays in enumerate(midshuffle_pairs()):
            yield {"op": "binop", "form": "arrays", "operator": names[k % len(names)] if names[k % len(names)] != "pow" else "sub",
                   "arrays": [gen.clean(a) for a in arrays], "small": False}
        for _ in range(n):
            r = rng.random()
            op = rng.choice(names)
            if r < 0.75:
                arrays = gen_arrays(rng, n=2, maxrank=3, allow_empty=rng.random() < 0.1)
                for a in arrays:
                    a["vkind"] = rng.choice(["f", "f", "i"])
                if rng.random() < 0.12:
                    # a fourth dimension name (the quantifier goes up to 4 dimensions), on either or both operands
                    used = {ax["name"] for a in arrays for ax in a["axes"]}
                    free = [d for d in gen.DIMS if d not in used]
                    if free:
                        d4 = free[0]
                        l4 = [["n", 5, 1], ["n", 9, 1]]
                        for a in rng.sample(arrays, rng.randint(1, 2)):
                            a["axes"].insert(rng.randint(0, len(a["axes"])),
                                             {"name": d4, "kind": "i", "labels": l4[:rng.randint(1, 2)] if rng.random() < 0.7 else l4[::-1]})
                for a in arrays:
                    if a["vkind"] == "f" and rng.random() < 0.2:
                        # NaN already present in an operand: it propagates like any other value
                        size = 1
                        for ax in a["axes"]:
                            size *= len(ax["labels"])
                        if size:
                            a["nan_at"] = sorted(set(rng.randrange(size) for _ in range(rng.randint(1, 2))))
                c = {"op": "binop", "form": "arrays", "operator": op, "arrays": [gen.clean(a) for a in arrays],
                     "small": rng.random() < 0.35}
                if op in ("pow",):
                    c["small"] = True      # keep exponents small
                if rng.random() < 0.3:
                    c["arrays"][0]["attrs_py"] = {"title": "a"}
                yield c
            else:
                arr = gen.rand_array(rng, rank=rng.choice([0, 1, 2, 3]), maxn=3)
                arr["vkind"] = rng.choice(["f", "i"])
                form = rng.choice(["scalar", "scalar_rev", "nd"])
                c = {"op": "binop", "form": form, "operator": op, "arrays": [gen.clean(arr)], "small": True,
                     "scalar": rng.choice([2, 3, 2.5, 0.5]) if op != "pow" else rng.choice([2, 3])}
                if form != "nd" and rng.random() < 0.5:
                    # NumPy scalars (what a.mean() or a.values[0] return) and 0-d arrays are scalars too
                    c["scalar_type"] = rng.choice(["float64", "float32", "nd0"] + (["int64", "int32"] if float(c["scalar"]).is_integer() else []))
                if form == "nd":
                    shape = [len(a["labels"]) for a in arr["axes"]]
                    k = rng.randint(0, len(shape))
                    nds = shape[len(shape) - k:]
                    if nds and rng.random() < 0.3:
                        nds[0] = 1
                    c["ndshape"] = nds
                yield c

    # ------------------------------------------------------------ implementation side
    def operands(self, c):
        a = build(c, 0)
        if c["form"] == "arrays":
            return a, build(c, 1)
        if c["form"] in ("scalar", "scalar_rev"):
            t = c.get("scalar_type")
            return a, (c["scalar"] if not t else np.array(float(c["scalar"])) if t == "nd0" else getattr(np, t)(c["scalar"]))
        nd = (np.arange(int(np.prod(c["ndshape"])) if c["ndshape"] else 1, dtype=float) % 3 + 1).reshape(c["ndshape"])
        return a, nd

    def impl(self, c):
        if c["op"] == "opx":
            return c04vals.impl(c)
        toks = core.AttrTokens()
        a, b = self.operands(c)
        pyop = OPS[c["operator"]][0]
        before = core.obs_array(a, toks), (core.obs_array(b, toks) if isinstance(b, DimArray) else None)

        def run():
            with np.errstate(all="ignore"):
                r = pyop(b, a) if c["form"] == "scalar_rev" else pyop(a, b)
            o = core.obs_array(r, toks)
            o["is_dimarray"] = isinstance(r, DimArray)
            return o
        out = core.guarded(run)
        out["inputs"] = before
        after = core.obs_array(a, toks), (core.obs_array(b, toks) if isinstance(b, DimArray) else None)
        if before != after:
            out["operand_modified"] = True
        return out

    def request(self, c):
        if c["op"] == "opx":
            return c04vals.request(c)
        toks = core.AttrTokens()
        r = {"op": "binop", "arrays": [core.lean_array(gen.clean(a), toks) for a in c["arrays"]]}
        if c["form"] == "arrays":
            r["form"] = "arrays"
        else:
            r["form"] = "nd"
            r["ndshape"] = c.get("ndshape", []) if c["form"] == "nd" else []
            r["flip"] = c["form"] == "scalar_rev"
        return r

    def judge(self, c, io, ans):
        if c["op"] == "opx":
            return c04vals.judge(self, c, io, ans)
        lean = ans["lib"]
        ufunc = OPS[c["operator"]][1]
        a, b = self.operands(c)
        bad, prop_bad = [], []
        if "ok" in lean:
            kinds = ans.get("okinds") or [c["arrays"][0].get("vkind", "f"), "f"]

            class Env(core.CellEnv):
                def ev(self, cell):
                    if cell[0] == "op":
                        x, y = self.ev(cell[1]), self.ev(cell[2])
                        if c["form"] == "arrays":
                            x = DT.get(kinds[0], np.float64)(x) if not (isinstance(x, float) and math.isnan(x) and kinds[0] == "i") else np.float64(x)
                            y = DT.get(kinds[1], np.float64)(y) if not (isinstance(y, float) and math.isnan(y) and kinds[1] == "i") else np.float64(y)
                        with np.errstate(all="ignore"):
                            return ufunc(x, y)
                    return core.CellEnv.ev(self, cell)
            rhs = None
            if c["form"] != "arrays":
                rhs = np.asarray(b)
            env = Env([a.values] + ([b.values] if isinstance(b, DimArray) else []), rhs=rhs)
            lo = core.lean_obs_to_canon(lean["ok"], env); lo["scalar"] = False
            lean = {"ok": lo}
        d = core.diff_obs(io, lean, keys=("dims", "shape", "axes", "values", "attrs"))
        bad += [("M." + x if x == "errclass" else x) for x in d]
        if "ok" in io:
            if not io["ok"].get("is_dimarray") and (len(c["arrays"][0]["axes"]) > 0 or c["form"] == "arrays"):
                prop_bad.append("not_a_dimarray")
            if c["form"] == "arrays":
                prop_bad += check_operation_property(c, io["inputs"][0], io["inputs"][1], io["ok"], ufunc)
            else:
                # NumPy result on .values with the DimArray's axes unchanged
                with np.errstate(all="ignore"):
                    want = ufunc(np.asarray(b), a.values) if c["form"] == "scalar_rev" else ufunc(a.values, np.asarray(b))
                wv = [core.canon_value(v) for v in np.asarray(want).reshape(-1).tolist()]
                if io["ok"]["values"] != wv:
                    prop_bad.append("values:numpy")
                if [(x["name"], x["labels"]) for x in io["ok"]["axes"]] != [(x["name"], x["labels"]) for x in io["inputs"][0]["axes"]]:
                    prop_bad.append("axes:changed")
        elif "ok" in lean:
            prop_bad.append("outcome:" + io["err"])
        if io.get("operand_modified"):
            prop_bad.append("operand_modified")
        if not bad and not prop_bad:
            return None
        return {"kind": "P" if prop_bad else "M", "differs": sorted(set(bad + prop_bad)), "msg": io.get("msg")}

    def known(self, c, io, ans, mm, open_findings):
        ids = {f["id"] for f in open_findings}
        if c["op"] == "opx":
            return c04vals.known(c, io, ans, mm, ids)
        if "K01" in ids and c["operator"] == "pow" and c["form"] == "arrays" and mm["differs"] == ["values:nan_elsewhere"]:
            return "K01"
        if "K05" in ids and "err" in io and io["err"] == "index" and ans["lib"].get("err") == "index":
            for d in set(ax["name"] for a in c["arrays"] for ax in a["axes"]):
                lens = [len(ax["labels"]) for a in c["arrays"] for ax in a["axes"] if ax["name"] == d]
                if 0 in lens and any(l > 0 for l in lens):
                    return "K05"
        return None

    def nontrivial(self, c):
        if c["op"] == "opx":
            return c["form"] != "arrays" or c["arrays"][0]["axes"] != c["arrays"][1]["axes"]
        if c["form"] != "arrays":
            return True
        a, b = c["arrays"]
        return [x["name"] for x in a["axes"]] != [x["name"] for x in b["axes"]] or \
            any(x["labels"] != y["labels"] for x in a["axes"] for y in b["axes"] if x["name"] == y["name"])

    def features(self, c, io):
        if c["op"] == "opx":
            return c04vals.features(c, io)
        return {"outcome": "err:" + io["err"] if "err" in io else "ok", "form": c["form"], "operator": c["operator"],
                "small": c.get("small", False), "scalar_type": c.get("scalar_type") or ("python" if c["form"].startswith("scalar") else "-"), "ranks": "%d,%d" % (len(c["arrays"][0]["axes"]), len(c["arrays"][1]["axes"]) if len(c["arrays"]) > 1 else -1)}

    def size(self, c):
        return sum(len(ax["labels"]) + 5 for a in c["arrays"] for ax in a["axes"])

    def snippet(self, c):
        return ("import sys; sys.path.insert(0, '/verif/harness'); import json, core; from props.c04 import PROP; "
                "case = json.load(open(REPLAY))['case']; print(PROP.impl(case))")


PROP = C04()

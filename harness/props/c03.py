"""C03 - assignment writes exactly the addressed cells."""
import copy, itertools, math
import numpy as np
import core, gen
from core import da, Axis, DimArray
from .base import Prop
from . import c01, c02

DT = {"f": np.float64, "i": np.int64, "b": bool, "O": object}


def rhs_values(n, kind, flavour=None):
    if kind == "f" and flavour == "f32":
        return (np.arange(n, dtype=np.float32) + np.float32(7000.5))
    if kind == "f" and flavour == "whole":
        return (np.arange(n, dtype=float) + 7000.0)              # floats that happen to be integral
    if kind == "f" and flavour == "huge":
        return np.array([[np.inf, 1e20, -np.inf, 3e9][k % 4] for k in range(n)], dtype=float)   # not representable as int64
    if kind == "f":
        return (np.arange(n, dtype=float) + 7000.5)
    if kind == "i":
        return np.arange(n, dtype=np.int64) + 7000
    if kind == "b":
        return (np.arange(n) % 2 == 0)
    out = np.empty(n, dtype=object)
    for i in range(n):
        out[i] = "r%d" % i
    return out


class C03(Prop):
    id = "C03"
    theorems = ["lastSel_some_iff", "lastSel_get", "put_frame", "put_writes", "put_shape", "selCoord_expand", "get_put",
                "put_labels_unchanged", "put_kind", "maybeCast_table_agrees", "maybeCast_table_lossless",
                "maybeCast_table_covers_numeric_object", "putBool_spec", "putBool_shape_error"]
    rule = ("arrays of rank 0-4 (bool/int/float/object values) and every index form of C01/C02 (label and position "
            "scalars, lists with repeats, masks, slices, dicts by name/position, axis=, Ellipsis, full N-d boolean masks); "
            "scalar, 0-d and broadcastable array right-hand sides of kind bool/int/float/str; spellings a[idx]=v, "
            "a.put(...), .loc/.ix/.iloc[idx]=v; inplace in {True, False}; cast in {True, False} (cast=False restricted to "
            "kind pairs NumPy can assign). The (array kind, assigned kind) -> result kind table of _maybe_cast_type is "
            "tabulated from the implementation on every run. Non-trivial = rank >= 1 and a non-empty selection; "
            "distinct = canonical JSON")
    assumptions = ["NumPy's element cast on assignment (cast=False) is NumPy's business: expected values are cast with NumPy"]

    def mirrors(self):
        from dimarray.core import bases, dimarraycls, indexing
        return {"_setitem": bases.AbstractDimArray._setitem, "_setvalues_ortho": dimarraycls.DimArray._setvalues_ortho,
                "_setvalues_bool": dimarraycls.DimArray._setvalues_bool, "_maybe_cast_type": indexing._maybe_cast_type,
                "orthogonal_indexer": indexing.orthogonal_indexer, "_get_indices": bases.AbstractHasAxes._get_indices}

    # ---- finite decision table
    def pre_build(self):
        from dimarray.core.indexing import _maybe_cast_type
        samples = {"b": np.array([True]), "i": np.array([1]), "u": np.array([1], dtype=np.uint8), "f": np.array([1.5]),
                   "O": np.array(["x"], dtype=object), "U": np.array(["x"]), "S": np.array([b"x"])}
        rows = []
        for a in core.KINDS:
            for v in core.KINDS:
                r = _maybe_cast_type(samples[a].copy(), samples[v][0] if v != "O" else "x")
                # the assigned value's kind as NumPy sees it
                vk = np.asarray(samples[v][0] if v != "O" else "x").dtype.kind
                rows.append((a, vk, r.dtype.kind))
        rows = sorted(set(rows))
        body = ",\n  ".join("(%s, %s, %s)" % (core.lean_kind(a), core.lean_kind(v), core.lean_kind(k)) for a, v, k in rows)
        content = ("/- GENERATED on every run by harness/props/c03.py from dimarray.core.indexing._maybe_cast_type -/\n"
                   "import DimModel.Core.Basic\nnamespace DimModel.Gen\n\n"
                   "/-- (array kind, assigned kind, resulting array kind) -/\n"
                   "def maybeCastTable : List (Kind × Kind × Kind) := [\n  %s]\n\nend DimModel.Gen\n" % body)
        changed = core.write_table("TableC03", content)
        self._table = rows
        return {"changed": changed, "summary": {"_maybe_cast_type rows": len(rows)}, "rows": rows}

    def table_failing_rows(self, info):
        def model(a, v):
            if a == v or a == "O" or (a == "f" and v == "i") or (a == "U" and v == "S"):
                return a
            if a == "i" and v == "f":
                return "f"
            if a == "S" and v == "U":
                return "U"
            return "O"
        return [{"array_kind": a, "assigned_kind": v, "impl": k, "model": model(a, v)} for a, v, k in info["rows"] if k != model(a, v)]

    def table_replay_hint(self):
        return "from dimarray.core.indexing import _maybe_cast_type; _maybe_cast_type(np.array of array_kind, value of assigned_kind).dtype.kind"

    def extra_evidence(self):
        return {"tabulated_rows": len(getattr(self, "_table", []))}

    # ------------------------------------------------------------ generation
    def gen_case(self, rng, tier):
        base = c01.PROP.gen_case(rng, tier) if rng.random() < 0.7 else next(c02.PROP.nd_cases(rng, 1))
        base.pop("keepdims", None)
        if base["spelling"] in ("nloc",) or base.get("tol"):
            base["spelling"] = "take"; base.pop("tol", None)
            # tolerance indices may not be labels: regenerate as plain label indices
            base = c01.PROP.gen_case(rng, tier)
            while base["spelling"] in ("nloc",) or base.get("tol") or base.get("keepdims"):
                base = c01.PROP.gen_case(rng, tier)
        if base["mode"] == "position" and any(len(ax["labels"]) == 0 for ax in base["array"]["axes"]):
            # NumPy's bounds checking of index arrays on zero-length dimensions depends on which keys
            # orthogonal_indexer leaves as slices; not part of any property: not generated
            return self.gen_case(rng, tier)
        c = dict(base)
        c["op"] = "put"
        akind = rng.choice(["f", "f", "i", "b", "O"])
        c["array"] = dict(c["array"], vkind=akind)
        c["array"].pop("vdtype", None)     # (the property speaks about dtype kinds; narrow dtypes of a kind are not its subject)
        c["cast"] = rng.random() < 0.5
        if c["cast"]:
            c["rkind"] = rng.choice(["f", "i", "b", "O"])
        else:
            c["rkind"] = {"f": rng.choice(["f", "i", "b"]), "i": rng.choice(["i", "b", "f"]), "b": "b", "O": rng.choice(["O", "f", "i", "b"])}[akind]
        c["inplace"] = rng.random() < 0.6
        c["rhs"] = rng.choice(["scalar", "scalar", "zerod", "array", "array", "array_bcast"])
        if c["cast"] and c["rkind"] == "f":
            c["rflavour"] = rng.choice(["frac", "frac", "whole", "huge", "f32"] + (["f32", "f32"] if akind == "i" else []))
            if c["rflavour"] == "f32" and akind == "i":
                # integers beyond single precision, a single-precision right-hand side: the cells that are NOT addressed
                # must come through the widening unchanged
                c["array"]["vbase"] = 2 ** 24 + 1
        return c

    def gen_boolnd(self, rng):
        rank = rng.choice([2, 2, 3])
        arr = gen.rand_array(rng, rank=rank, maxn=3, minn=1)
        akind = rng.choice(["f", "i", "O"])
        arr["vkind"] = akind
        shape = [len(a["labels"]) for a in arr["axes"]]
        n = int(np.prod(shape))
        cast = rng.random() < 0.5
        return {"op": "put", "array": arr, "boolnd": [rng.random() < 0.4 for _ in range(n)], "cast": cast,
                "rkind": rng.choice(["f", "i", "O"]) if cast else {"f": "f", "i": "i", "O": "O"}[akind], "inplace": rng.random() < 0.6, "rhs": "scalar",
                "option": "label", "mode": "label", "spelling": "getitem", "index": {"form": "tuple", "ix": []}, "_ixkinds": ["boolnd"]}

    def gen(self, rng, tier):
        n = 1200 if tier == "quick" else 30000
        for _ in range(n):
            yield self.gen_boolnd(rng) if rng.random() < 0.08 else self.gen_case(rng, tier)

    # ------------------------------------------------------------ implementation side
    def selection_shape(self, c):
        """shape of what the same index reads (None when the read raises)"""
        old = da.get_option("indexing.by")
        try:
            da.set_option("indexing.by", c["option"])
            a = core.build_array(c["array"], 0)
            r = c01.call_take(a, copy.deepcopy(c))
            return tuple(np.shape(r))
        except Exception:
            return None
        finally:
            da.set_option("indexing.by", old)

    def rhs_of(self, c):
        kind = c["rkind"]
        if c["rhs"] in ("scalar", "zerod") or c.get("boolnd") is not None:
            v = rhs_values(1, kind, c.get("rflavour"))[0]
            if kind != "O":
                # (a single-precision scalar stays a NumPy scalar: .item() would make it a Python float)
                v = (v if c.get("rflavour") == "f32" else v.item()) if c["rhs"] == "scalar" else np.array(v)
            return v, None
        shp = self.selection_shape(c)
        if shp and any(s == 0 for s in shp):
            # empty selection: nothing is written, but the right-hand side must still broadcast to its shape
            if c["rhs"] == "array":
                return rhs_values(0, kind, c.get("rflavour")).reshape(shp), list(shp)
            if len(shp) > 1 and int(np.prod(shp[1:])) > 0:
                n = int(np.prod(shp[1:]))
                return rhs_values(n, kind, c.get("rflavour")).reshape(shp[1:]), list(shp[1:])
        if not shp or any(s == 0 for s in shp):
            v = rhs_values(1, kind, c.get("rflavour"))[0]
            return (v.item() if kind != "O" else v), None
        if c["rhs"] == "array_bcast" and len(shp) >= 1:
            shp = shp[1:] if len(shp) > 1 else (1,)
        n = int(np.prod(shp))
        return rhs_values(n, kind, c.get("rflavour")).reshape(shp), list(shp)

    def impl(self, c):
        old = da.get_option("indexing.by")
        try:
            da.set_option("indexing.by", c["option"])
            a = core.build_array(c["array"], 0)
            a.attrs["title"] = "T"
            orig = core.obs_array(a)
            value, rshape = self.rhs_of(c)
            c["_rshape"] = rshape

            def run():
                if c.get("boolnd") is not None:
                    mask = np.array(c["boolnd"], dtype=bool).reshape(a.shape)
                    kw = {"cast": True} if c["cast"] else {}
                    if c["inplace"] and not kw:
                        a[mask] = value
                        res = a
                    else:
                        r = a.put(mask, value, inplace=c["inplace"], **kw)
                        res = a if c["inplace"] else r
                    return {"result": core.obs_array(res), "readback": None}
                res = c01.call_put(a, copy.deepcopy(c), value)
                out = {"result": core.obs_array(res)}
                rb = core.guarded(lambda: core.obs_array(c01.call_take(res, copy.deepcopy(c))))
                out["readback"] = rb
                return out
            out = core.guarded(run)
            out["orig_before"] = orig
            out["orig_after"] = core.obs_array(a)
            return out
        finally:
            da.set_option("indexing.by", old)

    def request(self, c):
        value, rshape = self.rhs_of(c)
        r = {"op": "put", "arrays": [core.lean_array(gen.clean(c["array"]), None)], "rkind": c["rkind"], "cast": c["cast"]}
        if c.get("boolnd") is not None:
            r["boolnd"] = c["boolnd"]
        else:
            r["index"] = c["index"]
            r["cfg"] = c01.cfg_of(c)
            r["cfg"]["keepdims"] = False
            r["rshape"] = rshape
        return r

    def judge(self, c, io, ans):
        lean = ans["lib"]
        bad, prop_bad = [], []
        a = core.build_array(c["array"], 0)
        value, rshape = self.rhs_of(c)
        env = core.CellEnv([a.values], rhs=np.asarray(value, dtype=object if c["rkind"] == "O" else None))
        if "ok" in lean:
            k = lean["ok"]["vkind"]
            lo = core.lean_obs_to_canon(lean["ok"], env, cast_kind=k if k in DT else None)
            lo["scalar"] = False
            lo["attrs"] = None
            lean = {"ok": lo}
        imp = io if "err" in io else {"ok": io["ok"]["result"]}
        d = core.diff_obs(imp, lean, keys=("dims", "shape", "axes", "values", "vkind"))
        bad += [("M." + x if x == "errclass" else x) for x in d]
        if "ok" in io:
            res = io["ok"]["result"]
            before = io["orig_before"]
            # frame: labels, dims, metadata untouched
            for k2 in ("dims", "shape", "attrs"):
                if res[k2] != before[k2]:
                    prop_bad.append("frame." + k2)
            if [(x["name"], x["labels"]) for x in res["axes"]] != [(x["name"], x["labels"]) for x in before["axes"]]:
                prop_bad.append("frame.axes")
            # inplace=False leaves the original untouched
            if not c["inplace"] and io["orig_after"] != before:
                prop_bad.append("original_modified")
            if c["inplace"] and io["orig_after"] != res:
                prop_bad.append("inplace_not_applied")
            # exactly the cells the same index reads are written
            sel = self.selected_cells(c)
            if sel is not None:
                for i, (x, y) in enumerate(zip(before["values"], res["values"])):
                    if i not in sel and x != y and not (c["cast"] and same_number(x, y)):
                        prop_bad.append("frame.values"); break
                rv = rhs_values(1, c["rkind"], c.get("rflavour"))
                if c["cast"]:
                    # no assigned value is truncated or lost: every selected cell holds one of the assigned values
                    allowed = set(map(lambda v: json_key(core.canon_value(v if not isinstance(v, np.generic) else v.item())),
                                      np.asarray(value, dtype=object).reshape(-1).tolist()))
                    for i in sel:
                        if json_key(res["values"][i]) not in allowed and not any(same_number(res["values"][i], json_unkey(k3)) for k3 in allowed):
                            prop_bad.append("written.values"); break
            # read-back returns what was written (no repeats in the index => lean's readback is exact)
            rb = io["ok"]["readback"]
            lrb = ans.get("readback")
            if rb is not None and lrb is not None and "ok" in lrb and "ok" in rb:
                k = lrb["ok"]["vkind"]
                lo = core.lean_obs_to_canon(lrb["ok"], env, cast_kind=k if k in DT else None)
                lo["scalar"] = len(lo["dims"]) == 0
                if rb["ok"]["values"] != lo["values"]:
                    prop_bad.append("readback.values")
        elif "ok" in lean:
            prop_bad.append("outcome:" + io["err"])
        if not bad and not prop_bad:
            return None
        return {"kind": "P" if prop_bad else "M", "differs": sorted(set(bad + prop_bad)), "msg": io.get("msg")}

    def selected_cells(self, c):
        """flat positions that the same index reads (through an index-tracking array)"""
        if c.get("boolnd") is not None:
            return set(i for i, m in enumerate(c["boolnd"]) if m)
        old = da.get_option("indexing.by")
        try:
            da.set_option("indexing.by", c["option"])
            a = core.build_array(c["array"], 0)
            t = DimArray(np.arange(a.size).reshape(a.shape), axes=[ax.copy() for ax in a.axes])
            r = c01.call_take(t, copy.deepcopy(c))
            return set(int(x) for x in np.asarray(r).reshape(-1).tolist())
        except Exception:
            return None
        finally:
            da.set_option("indexing.by", old)

    def nontrivial(self, c):
        return len(c["array"]["axes"]) >= 1

    def features(self, c, io):
        f = {"outcome": "err:" + io["err"] if "err" in io else "ok", "akind": c["array"]["vkind"], "rkind": c["rkind"],
             "cast": c["cast"], "inplace": c["inplace"], "rhs": c["rhs"], "spelling": c["spelling"], "mode": c["mode"]}
        for k in c.get("_ixkinds", []):
            f["ix:" + k] = 1
        return f

    def size(self, c):
        return c01.PROP.size(c)

    def snippet(self, c):
        return ("import sys; sys.path.insert(0, '/verif/harness'); import json, core; from props.c03 import PROP; "
                "case = json.load(open(REPLAY))['case']; print(PROP.impl(case))")


def json_key(v):
    import json
    return json.dumps(v)


def json_unkey(k):
    import json
    return json.loads(k)


def same_number(x, y):
    """2 (int) and 2.0 (float) are the same value after a widening cast; True and 1 too"""
    def num(v):
        if v[0] == "n":
            from fractions import Fraction
            return Fraction(v[1], v[2])
        if v[0] == "b":
            return int(v[1])
        return None
    a, b = num(x), num(y)
    return a is not None and a == b


PROP = C03()

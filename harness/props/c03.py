"""C03 - assignment writes exactly the addressed cells."""
import copy, itertools, math
import numpy as np
import core, gen
from core import da, Axis, DimArray
from .base import Prop
from . import c01, c02

DT = {"f": np.float64, "i": np.int64, "b": bool, "O": object}
TOKS = core.AttrTokens()
KNOWN_SPELLINGS = set(c01.LABEL_SPELLINGS + c01.POS_SPELLINGS + ["nloc"])
KNOWN_KEYS = {"op", "array", "option", "spelling", "mode", "as_array", "index", "bare", "tol", "keepdims"}
# narrower / unsigned value dtypes of a kind.  Every stored value AND every generated right-hand side of the SAME
# NumPy kind is exactly representable in them (the property speaks about widening between kinds, not about widths
# inside a kind): what is exercised is the kind-pair logic of the cast on these dtypes ('u' is its own NumPy kind)
NARROW = {"i": ["int32", "int16", "uint16", "uint32", "uint64", "uint8"], "f": ["float32"]}


def meta_of(a):
    """array-level and axis-level metadata (opaque tokens)"""
    return {"attrs": TOKS.enc(a.attrs), "axes": [TOKS.enc(ax.attrs) for ax in a.axes]}


def to_object_array(value):
    """the assigned value as NumPy sees it, element-wise as python objects"""
    if isinstance(value, DimArray):
        value = value.values
    v = np.asarray(value)
    return v.astype(object) if v.dtype != object else v


def rhs_values(n, kind, flavour=None):
    if kind == "f" and flavour == "f32":
        return (np.arange(n, dtype=np.float32) + np.float32(7000.5))
    if kind == "f" and flavour == "whole":
        return (np.arange(n, dtype=float) + 7000.0)              # floats that happen to be integral
    if kind == "f" and flavour == "huge":
        return np.array([[np.inf, 1e20, -np.inf, 3e9][k % 4] for k in range(n)], dtype=float)   # not representable as int64
    if kind == "f":
        return (np.arange(n, dtype=float) + 7000.5)
    if kind == "i":
        return np.arange(n, dtype=np.int64) + 7000
    if kind == "b":
        return (np.arange(n) % 2 == 0)
    out = np.empty(n, dtype=object)
    for i in range(n):
        out[i] = "r%d" % i
    return out


class C03(Prop):
    id = "C03"
    theorems = ["lastSel_some_iff", "lastSel_get", "put_frame", "put_writes", "put_shape", "selCoord_expand", "get_put",
                "put_labels_unchanged", "put_kind", "maybeCast_table_agrees", "maybeCast_table_lossless",
                "maybeCast_table_covers_numeric_object", "putBool_spec", "putBool_shape_error", "put_writes_what_take_reads", "putResult_cells", "put_label_eq", "put_label_spec", "put_label_scalar", "put_label_array",
                "put_ok_iff", "put_unresolved_error", "put_misfit_error", "put_normalize_error", "put_error_generic", "take_put_generic",
                "take_put", "take_put_scalar", "take_put_array", "put_cast_only_kind", "maybeCastKind_spec", "put_mask_length_checked_example",
                "putIndices_cases", "put_zero_length", "put_zero_length_counterexample"]
    rule = ("arrays of rank 0-4 (bool/int/float/object values) and every index form of C01/C02 (label and position "
            "scalars, lists with repeats, masks, slices, dicts by name/position, axis=, Ellipsis, full N-d boolean masks); "
            "scalar, 0-d and broadcastable array right-hand sides of kind bool/int/float/str; spellings a[idx]=v, "
            "a.put(...), .loc/.ix/.iloc[idx]=v; inplace in {True, False}; cast in {True, False} (cast=False restricted to "
            "kind pairs NumPy can assign). Further strata: put(..., tol=) (tuple, dict-by-name and axis= forms) / .nloc[idx]=v on "
            "near-miss labels; right-hand "
            "sides given as nested Python lists or as DimArrays; narrower / unsigned value dtypes (int16/32, uint8-64, "
            "float32; values and same-kind right-hand sides exactly representable); N-d boolean masks (ndarray or DimArray "
            "mask, spelled a[m]=v, a.ix[m]=v, a.loc[m]=v, a.put(m, v)) with scalar, length-1, one-value-per-True-cell "
            "array and list right-hand sides on bool/int/float/object arrays; the `a.values = v` setter (scalar, 0-d, "
            "full-shape, trailing-dims, list and DimArray values of every kind, rank 0-3); per-dimension boolean masks of "
            "the WRONG length (shorter; longer with every True inside the axis; longer with a True beyond it) in an "
            "otherwise readable index: must raise IndexError like the read and leave the array untouched; refused writes "
            "with cast=True and a widening right-hand side (a position beyond the axis or an absent label, as a scalar "
            "or inside a list, in an otherwise readable index): IndexError, and - as for EVERY assignment that raises - "
            "values, dtype kind, axes and metadata are what they were. Zero-length stratum: arrays of rank 1-3 with ONE zero-length "
            "axis, position (mostly) and label mode, on the empty axis a full / empty / out-of-range slice, an empty list, "
            "positions (necessarily beyond the axis) as a scalar or in a list, an empty mask, on the other axes positions "
            "inside and beyond the axis (scalar, list), slices, masks (also all-False), full slices, shorter tuples; scalar, "
            "selection-shaped and broadcast array right-hand sides (shape from the lengths of the index entries when the "
            "read is refused); compared with the mirror: outcome and error class, kind, axes (put_zero_length: nothing is "
            "written; NumPy looks at the positions in lists only when every index array of orthogonal_indexer's key - "
            "not the integers, not the leading / trailing full slices - selects something). The general stream no longer "
            "excludes position-mode assignments on arrays with a zero-length axis. A fixed grid runs every (array "
            "dtype, assigned kind/flavour) pair with cast through the setter, an indexed put and a boolean put. Array and "
            "axis metadata are set on every array and must come through unchanged. Independently of the model, an oracle "
            "recomputes every cell from the positions the same index reads (index-tracking array) and the broadcast "
            "right-hand side. The (array kind, assigned kind) -> result kind table of _maybe_cast_type is "
            "tabulated from the implementation on every run. Non-trivial = rank >= 1 and a non-empty selection; "
            "distinct = canonical JSON")
    assumptions = ["NumPy's element cast on assignment (cast=False) is NumPy's business: expected values are cast with NumPy",
                   "widths inside a dtype kind are not the property's subject: narrow / unsigned arrays only meet same-kind values they can represent",
                   "a DimArray right-hand side carries the axes of the selection it is assigned to (no statement about re-alignment)"]

    def mirrors(self):
        from dimarray.core import bases, dimarraycls, indexing
        return {"_setitem": bases.AbstractDimArray._setitem, "_setvalues_ortho": dimarraycls.DimArray._setvalues_ortho,
                "_setvalues_bool": dimarraycls.DimArray._setvalues_bool, "_maybe_cast_type": indexing._maybe_cast_type,
                "values.setter": dimarraycls.DimArray.values.fset,
                "orthogonal_indexer": indexing.orthogonal_indexer, "_get_indices": bases.AbstractHasAxes._get_indices}

    # ---- finite decision table
    def pre_build(self):
        from dimarray.core.indexing import _maybe_cast_type
        samples = {"b": np.array([True]), "i": np.array([1]), "u": np.array([1], dtype=np.uint8), "f": np.array([1.5]),
                   "O": np.array(["x"], dtype=object), "U": np.array(["x"]), "S": np.array([b"x"])}
        rows = []
        for a in core.KINDS:
            for v in core.KINDS:
                r = _maybe_cast_type(samples[a].copy(), samples[v][0] if v != "O" else "x")
                # the assigned value's kind as NumPy sees it
                vk = np.asarray(samples[v][0] if v != "O" else "x").dtype.kind
                rows.append((a, vk, r.dtype.kind))
        rows = sorted(set(rows))
        body = ",\n  ".join("(%s, %s, %s)" % (core.lean_kind(a), core.lean_kind(v), core.lean_kind(k)) for a, v, k in rows)
        content = ("/- GENERATED on every run by harness/props/c03.py from dimarray.core.indexing._maybe_cast_type -/\n"
                   "import DimModel.Core.Basic\nnamespace DimModel.Gen\n\n"
                   "/-- (array kind, assigned kind, resulting array kind) -/\n"
                   "def maybeCastTable : List (Kind × Kind × Kind) := [\n  %s]\n\nend DimModel.Gen\n" % body)
        changed = core.write_table("TableC03", content)
        self._table = rows
        return {"changed": changed, "summary": {"_maybe_cast_type rows": len(rows)}, "rows": rows}

    def table_failing_rows(self, info):
        def model(a, v):
            if a == v or a == "O" or (a == "f" and v == "i") or (a == "U" and v == "S"):
                return a
            if a == "i" and v == "f":
                return "f"
            if a == "S" and v == "U":
                return "U"
            return "O"
        return [{"array_kind": a, "assigned_kind": v, "impl": k, "model": model(a, v)} for a, v, k in info["rows"] if k != model(a, v)]

    def table_replay_hint(self):
        return "from dimarray.core.indexing import _maybe_cast_type; _maybe_cast_type(np.array of array_kind, value of assigned_kind).dtype.kind"

    def extra_evidence(self):
        return {"tabulated_rows": len(getattr(self, "_table", []))}

    # ------------------------------------------------------------ generation
    def _supported(self, base):
        """only the case shapes of C01/C02 that this plugin knows how to turn into an assignment"""
        if set(k for k in base if not k.startswith("_")) - KNOWN_KEYS:
            return False
        if base.get("op") != "take" or base.get("spelling") not in KNOWN_SPELLINGS:
            return False
        idx = base.get("index", {})
        if idx.get("form") == "tuple":
            ixs = idx["ix"]
        elif idx.get("form") == "dict":
            ixs = [x for _, x in idx["items"]]
        elif idx.get("form") == "axis":
            ixs = [idx["ix"]]
        else:
            return False
        if base["spelling"] == "nloc" and idx["form"] != "tuple":
            return False
        return all(x[0] in ("sc", "li", "ma", "sl", "el") for x in ixs)

    def base_case(self, rng, tier):
        while True:
            base = c01.PROP.gen_case(rng, tier) if rng.random() < 0.7 else next(c02.PROP.nd_cases(rng, 1))
            if not self._supported(base):
                continue
            base.pop("keepdims", None)
            if (base["spelling"] == "nloc" or base.get("tol")) and rng.random() < 0.15:
                continue            # (tolerance look-ups: put(..., tol=) and .nloc[...] = v; a modest share of the stream)
            if base.get("tol") and base["index"]["form"] == "tuple" and rng.random() < 0.5:
                self.tol_other_form(rng, base)
            return base

    def tol_other_form(self, rng, base):
        """put(idx, v, tol=) with the near-miss labels given in a dict by dimension name or through axis="""
        ixs, axes = base["index"]["ix"], base["array"]["axes"]
        if not ixs or len(ixs) > len(axes) or any(x[0] == "el" for x in ixs):
            return
        if rng.random() < 0.5:
            ds = [d for d in range(len(ixs)) if ixs[d] != ["sl", None, None, None]] or [0]
            base["index"] = {"form": "dict", "items": [[["name", axes[d]["name"]], ixs[d]] for d in ds]}
            base["spelling"] = "take_dict"
            base["_ixkinds"] = [base["_ixkinds"][d] for d in ds] + ["tol_dict"]
        else:
            d = rng.randrange(len(ixs))
            base["index"] = {"form": "axis", "ix": ixs[d], "axis": rng.choice([["name", axes[d]["name"]], ["pos", d], ["pos", d - len(axes)]])}
            base["spelling"] = "take_axis_name" if base["index"]["axis"][0] == "name" else "take_axis_pos"
            base["_ixkinds"] = [base["_ixkinds"][d], "tol_axis"]
        base.pop("bare", None)

    def pick_narrow(self, rng, arr, cast, p):
        """a narrower / unsigned dtype of the array's kind (see NARROW)"""
        akind = arr["vkind"]
        if akind in NARROW and rng.random() < (p if akind == "f" else 1.6 * p):
            vc = rng.choice(NARROW[akind])
            if vc == "uint8" and not cast:
                vc = "uint16"       # (cast=False: the assigned 7000+k must fit, NumPy's own cast is not the subject)
            arr["vcast"] = vc

    def gen_case(self, rng, tier):
        c = dict(self.base_case(rng, tier))
        c["op"] = "put"
        akind = rng.choice(["f", "f", "i", "b", "O"])
        c["array"] = dict(c["array"], vkind=akind)
        c["array"].pop("vdtype", None)     # (narrow dtypes are chosen below, under the representability condition of NARROW)
        c["cast"] = rng.random() < 0.5
        if c["cast"]:
            c["rkind"] = rng.choice(["f", "i", "b", "O"])
        else:
            c["rkind"] = {"f": rng.choice(["f", "i", "b"]), "i": rng.choice(["i", "b", "f"]), "b": "b", "O": rng.choice(["O", "f", "i", "b"])}[akind]
        c["inplace"] = rng.random() < 0.6
        c["rhs"] = rng.choice(["scalar", "scalar", "zerod", "array", "array", "array_bcast"])
        if c["rhs"] in ("array", "array_bcast") and rng.random() < 0.35:
            c["rhs_as"] = rng.choice(["list", "dimarray"])
        self.pick_narrow(rng, c["array"], c["cast"], 0.25)
        if c["cast"] and c["rkind"] == "f":
            c["rflavour"] = rng.choice(["frac", "frac", "whole", "huge", "f32"] + (["f32", "f32"] if akind == "i" else []))
            if c["rflavour"] == "huge" and c["array"].get("vcast") == "float32":
                c["rflavour"] = "frac"      # (1e20 is not a single-precision number: a width inside a kind, not the property's subject)
            if akind == "i" and (c["rflavour"] == "f32" or rng.random() < 0.4):
                # integers beyond single precision (and, often, a single-precision right-hand side): the cells that are
                # NOT addressed must come through the widening unchanged
                c["array"]["vbase"] = 2 ** 24 + 1
        return c

    def gen_boolnd(self, rng):
        rank = rng.choice([2, 2, 3])
        arr = gen.rand_array(rng, rank=rank, maxn=3, minn=1)
        akind = rng.choice(["f", "i", "O", "b"])
        arr["vkind"] = akind
        shape = [len(a["labels"]) for a in arr["axes"]]
        n = int(np.prod(shape))
        cast = rng.random() < 0.5
        self.pick_narrow(rng, arr, cast, 0.2)
        c = {"op": "put", "array": arr, "boolnd": [rng.random() < 0.4 for _ in range(n)], "cast": cast,
             "rkind": rng.choice(["f", "i", "O", "b"]) if cast else {"f": rng.choice(["f", "f", "i"]), "i": rng.choice(["i", "i", "b"]), "O": rng.choice(["O", "O", "f"]), "b": "b"}[akind],
             "inplace": rng.random() < 0.6, "rhs": rng.choice(["scalar", "scalar", "array", "array", "array1"]),
             "option": "label", "mode": "label", "spelling": rng.choice(["getitem", "getitem", "put", "ix", "loc"]),
             "maskform": rng.choice(["ndarray", "ndarray", "dimarray"]),
             "index": {"form": "tuple", "ix": []}, "_ixkinds": ["boolnd"]}
        if c["rhs"] == "array" and rng.random() < 0.3:
            c["rhs_as"] = rng.choice(["list", "dimarray"])
        return c

    def gen_setter(self, rng):
        """`a.values = v`: the whole array is addressed, the values are overwritten in place with cast"""
        # (rank 0 included: `a.values = v` on a 0-d DimArray used to raise IndexError - the setter wrote through
        # `self._values[:] = v`, which NumPy refuses on a 0-d array - although a[()] = v works)
        rank = rng.choice([0, 1, 1, 2, 2, 3])
        arr = gen.rand_array(rng, rank=rank, maxn=3, minn=0 if rng.random() < 0.15 else 1)
        arr["vkind"] = rng.choice(["f", "i", "i", "b", "O"])
        if rank >= 2 and rng.random() < 0.3:
            arr["order"] = "F"
        self.pick_narrow(rng, arr, True, 0.3)
        c = {"op": "put", "setter": True, "array": arr, "cast": True, "inplace": True, "rkind": rng.choice(["f", "i", "b", "O"]),
             "rhs": rng.choice(["scalar", "scalar", "zerod", "array", "array", "array_bcast", "array_bcast"]),
             "option": "label", "mode": "label", "spelling": "values_setter",
             "index": {"form": "tuple", "ix": []}, "_ixkinds": ["setter"]}
        if c["rhs"] in ("array", "array_bcast") and rng.random() < 0.4:
            c["rhs_as"] = rng.choice(["list", "dimarray"])
        if c["rkind"] == "f":
            c["rflavour"] = rng.choice(["frac", "frac", "whole", "huge", "f32"])
            if c["rflavour"] == "huge" and arr.get("vcast") == "float32":
                c["rflavour"] = "frac"
            if arr["vkind"] == "i" and (c["rflavour"] == "f32" or rng.random() < 0.4):
                arr["vbase"] = 2 ** 24 + 1
        return c


    def gen_zerolen(self, rng):
        """arrays with ONE zero-length axis, indexed by position (mostly) or by label: on the zero-length axis a full
        slice, an (empty or out-of-range) slice, an empty list, a position / a list of positions (necessarily beyond the
        axis), an empty mask; on the other axes positions / lists inside and beyond the axis, slices, masks (also
        all-False) and full slices.  No cell exists, so nothing can be written: the question is WHEN the assignment is
        refused - NumPy checks the positions of an index array only when the index arrays that orthogonal_indexer builds
        (everything but integers and the leading / trailing runs of full slices, which stay slices) select something"""
        rank = rng.choice([1, 2, 2, 2, 3, 3])
        arr = gen.rand_array(rng, rank=rank, maxn=3, minn=1)
        z = rng.randrange(rank)
        arr["axes"][z] = gen.rand_axis(rng, arr["axes"][z]["name"], n=0)
        arr["vkind"] = rng.choice(["f", "i", "O"])
        axes = arr["axes"]
        posmode = rng.random() < 0.75
        option = rng.choice(["label", "label", "position"])
        if posmode:
            sp = rng.choice(["ix", "iloc", "take_position"] if option == "label" else ["getitem_position_option", "iloc", "take_position"])
        else:
            sp = rng.choice(["getitem", "take", "loc", "take_label"] if option == "label" else ["loc", "take_label", "ix_from_position"])
        ixs, kinds = [], []
        for d, ax in enumerate(axes):
            n = len(ax["labels"])
            r = rng.random()
            if posmode:
                if r < 0.28:
                    ix, k = ["sl", None, None, None], "full"
                elif r < 0.40:
                    b = lambda: rng.choice([None] + list(range(-n - 2, n + 3)))
                    s, e = b(), b()
                    ix, k = ["sl", None if s is None else ["n", s, 1], None if e is None else ["n", e, 1], rng.choice([None, None, 1, 2, -1])], "slice"
                elif r < 0.52:
                    ix, k = ["sc", ["n", rng.randint(-n - 1, n + 1), 1]], "scalar"
                elif r < 0.62:
                    ix, k = ["li", []], "list_empty"
                elif r < 0.88:
                    ix, k = ["li", [["n", rng.randint(-n - 2, n + 2), 1] for _ in range(rng.randint(1, 3))]], "list"
                else:
                    ix, k = ["ma", [rng.random() < 0.4 for _ in range(n)]], "mask"
            else:
                if n == 0:
                    ix, k = rng.choice([(["sl", None, None, None], "full"), (["li", []], "list_empty"), (["ma", []], "mask"),
                                        (["sc", gen.absent_label(rng, ax)], "scalar"), (["li", [gen.absent_label(rng, ax)]], "list")])
                elif r < 0.25:
                    ix, k = ["li", []], "list_empty"
                elif r < 0.4:
                    ix, k = ["ma", [False] * n], "mask"
                else:
                    ix, k = c01.PROP.gen_ix_label(rng, ax)
            ixs.append(ix); kinds.append(k)
        if posmode and rank > 1 and rng.random() < 0.5:
            # the decisive configuration: a list with a position beyond its axis next to a dimension that selects nothing
            # (a full slice that stays a slice at the start / end of the key, or one that becomes an index array in the
            # middle of it, an empty slice, an empty list, an empty mask)
            d = rng.choice([k for k in range(rank) if k != z])
            n = len(axes[d]["labels"])
            ps = [["n", rng.randrange(n), 1] for _ in range(rng.randint(0, 2))]
            ps.insert(rng.randint(0, len(ps)), ["n", rng.choice([n + rng.randint(0, 2), -n - 1 - rng.randint(0, 2)]), 1])
            ixs[d], kinds[d] = ["li", ps], "list_beyond"
            ixs[z], kinds[z] = rng.choice([(["sl", None, None, None], "full"), (["sl", None, None, None], "full"), (["sl", ["n", 0, 1], ["n", 0, 1], None], "slice"),
                                           (["li", []], "list_empty"), (["ma", []], "mask")])
        while len(ixs) > 1 and ixs[-1] == ["sl", None, None, None] and rng.random() < 0.3:
            ixs.pop(); kinds.pop()              # (a shorter tuple: completed with full slices)
        akind = arr["vkind"]
        cast = rng.random() < 0.5
        c = {"op": "put", "array": arr, "option": option, "spelling": sp, "mode": "position" if posmode else "label",
             "as_array": rng.random() < 0.6, "bare": False, "index": {"form": "tuple", "ix": ixs},
             "cast": cast, "rkind": rng.choice(["f", "i", "O"]) if cast else {"f": rng.choice(["f", "i"]), "i": "i", "O": rng.choice(["O", "f"])}[akind],
             "inplace": rng.random() < 0.6, "rhs": rng.choice(["scalar", "scalar", "array", "array", "array_bcast"]),
             "zerolen": True, "_ixkinds": kinds + ["zerolen", "zerolen_" + c_mode_tag(posmode)]}
        if c["cast"] and c["rkind"] == "f":
            c["rflavour"] = "frac"
        return c

    @staticmethod
    def index_slots(c):
        """the per-dimension entries of the case's index as (holder, key, dimension): holder[key] is the entry that
        addresses dimension number `dimension` (None for an index with an Ellipsis)"""
        idx, axes = c["index"], c["array"]["axes"]
        dims = [x["name"] for x in axes]
        if idx["form"] == "tuple":
            if any(x[0] == "el" for x in idx["ix"]):
                return None
            return [(idx["ix"], j, j) for j in range(min(len(idx["ix"]), len(axes)))]
        if idx["form"] == "dict":
            slots = []
            for it in idx["items"]:
                k = it[0]
                d = dims.index(k[1]) if k[0] == "name" and k[1] in dims else k[1] % len(dims) if k[0] == "pos" and dims and -len(dims) <= k[1] < len(dims) else None
                if d is not None:
                    slots.append((it, 1, d))
            return slots
        k = idx["axis"]
        d = dims.index(k[1]) if k[0] == "name" and k[1] in dims else k[1] % len(dims) if k[0] == "pos" and dims and -len(dims) <= k[1] < len(dims) else None
        return [(idx, "ix", d)] if d is not None else []

    def gen_refused(self, rng, tier):
        """an index that reads fine, with one dimension's entry replaced by one the same read refuses - a position
        beyond the axis (scalar, or inside a list / array of positions) or a label that is not on the axis - assigned
        with cast=True and a right-hand side of a kind that WIDENS the array: the assignment must raise IndexError like
        the read and change nothing, the dtype included (a cast performed before the refusal is a modification)"""
        while True:
            c = self.gen_case(rng, tier)
            axes = c["array"]["axes"]
            slots = self.index_slots(c)
            if not slots or c["spelling"] == "nloc" or c.get("tol"):
                continue
            pos0 = self.positions(c)
            if pos0 is None or pos0.size == 0:
                # (an empty selection along another dimension: whether NumPy still checks the bounds of an index array
                # then depends on which keys orthogonal_indexer leaves as slices; not part of any property)
                continue
            holder, key, d = rng.choice(slots)
            n = len(axes[d]["labels"])
            if c["mode"] == "position":
                far = lambda: ["n", rng.choice([n + rng.randint(0, 2), -n - 1 - rng.randint(0, 2)]), 1]
                if rng.random() < 0.4:
                    holder[key] = ["sc", far()]
                    what = "position_scalar"
                else:
                    ps = [["n", rng.randrange(n), 1] for _ in range(rng.randint(0, 2))] if n else []
                    ps.insert(rng.randint(0, len(ps)), far())
                    holder[key] = ["li", ps]
                    what = "position_list"
            else:
                if rng.random() < 0.4:
                    holder[key] = ["sc", gen.absent_label(rng, axes[d], frac=True)]
                    what = "label_scalar"
                else:
                    ls = [rng.choice(axes[d]["labels"]) for _ in range(rng.randint(0, 2))] if n else []
                    ls.insert(rng.randint(0, len(ls)), gen.absent_label(rng, axes[d], frac=True))
                    holder[key] = ["li", ls]
                    what = "label_list"
            if self.positions(c) is not None:
                continue            # (e.g. a dict that names the dimension twice: the replaced entry is not the one read)
            akind = rng.choice(["i", "i", "b", "f"])
            c["array"] = dict(c["array"], vkind=akind)
            c["array"].pop("vcast", None); c["array"].pop("vbase", None)
            c["cast"] = True
            c["rkind"] = {"i": rng.choice(["f", "O"]), "b": rng.choice(["i", "f", "O"]), "f": "O"}[akind]
            c.pop("rflavour", None)
            if c["rkind"] == "f":
                c["rflavour"] = "frac"
            c["rhs"] = "scalar"               # (the selection has no shape to broadcast an array to)
            c.pop("rhs_as", None)
            c["refused"] = what
            c["_ixkinds"] = list(c.get("_ixkinds", [])) + ["refused", "refused_" + what]
            return c

    def gen_badmask(self, rng, tier):
        """an index that reads fine, with one dimension's entry replaced by a boolean mask whose length is NOT the
        length of that axis (shorter, longer with every True inside the axis, longer with a True beyond it): reading
        through it is an IndexError, so no cell may be written - the assignment must raise IndexError too and leave
        the array as it was (a length-0 mask is not generated: NumPy reads an empty selection through it)"""
        while True:
            c = self.gen_case(rng, tier)
            axes = c["array"]["axes"]
            slots = self.index_slots(c)
            if not slots or c["spelling"] == "nloc" or self.positions(c) is None:
                continue
            holder, key, d = rng.choice(slots)
            n = len(axes[d]["labels"])
            m = rng.choice([k for k in (n - 2, n - 1, n + 1, n + 1, n + 2) if k >= 1])
            how = rng.choice(["inside", "inside", "any"])
            mask = [(rng.random() < 0.6) and (how == "any" or j < n) for j in range(m)]
            if how == "inside" and n and m and not any(mask):
                mask[rng.randrange(min(n, m))] = True
            holder[key] = ["ma", mask]
            c["badmask"] = True
            c["_ixkinds"] = list(c.get("_ixkinds", [])) + ["badmask", "badmask_" + ("short" if m < n else "long_inside" if not any(mask[n:]) else "long_beyond")]
            if c["rhs"] != "scalar":
                c["rhs"] = "scalar"           # (the selection has no shape to broadcast an array to)
            c.pop("rhs_as", None)
            return c

    def kind_grid(self):
        """every (array dtype, assigned kind / flavour) pair with cast, on one 2x3 array, through the values setter
        (scalar and full array), an indexed put and a full-shape boolean put with one value per True cell"""
        axes = [{"name": "x", "kind": "i", "labels": [["n", 10, 1], ["n", 20, 1]], "_order": "inc"},
                {"name": "y", "kind": "O", "labels": [["s", "a"], ["s", "b"], ["s", "c"]], "_order": "inc"}]
        dts = [("f", None), ("f", "float32"), ("i", None), ("b", None), ("O", None)] + [("i", d) for d in NARROW["i"]]
        rks = [("f", "frac"), ("f", "whole"), ("f", "huge"), ("f", "f32"), ("i", None), ("b", None), ("O", None)]
        for (ak, vc), (rk, fl) in itertools.product(dts, rks):
            if vc == "float32" and fl == "huge":
                continue
            arr = {"axes": copy.deepcopy(axes), "vkind": ak}
            if vc:
                arr["vcast"] = vc
            if ak == "i" and vc not in ("int16", "uint16", "uint8"):
                arr["vbase"] = 2 ** 24 + 1
            common = {"op": "put", "cast": True, "rkind": rk, "option": "label", "mode": "label"}
            if fl:
                common["rflavour"] = fl
            for rhs in ("scalar", "array"):
                yield dict(common, array=copy.deepcopy(arr), setter=True, inplace=True, rhs=rhs, spelling="values_setter",
                           index={"form": "tuple", "ix": []}, _ixkinds=["setter", "grid"])
            yield dict(common, array=copy.deepcopy(arr), inplace=False, rhs="array", spelling="take", as_array=False, bare=False,
                       index={"form": "tuple", "ix": [["li", [["n", 20, 1]]], ["sl", None, None, None]]}, _ixkinds=["list", "full", "grid"])
            yield dict(common, array=copy.deepcopy(arr), boolnd=[True, False, False, True, True, False], inplace=True, rhs="array",
                       spelling="put", maskform="ndarray", index={"form": "tuple", "ix": []}, _ixkinds=["boolnd", "grid"])

    def gen(self, rng, tier):
        for c in self.kind_grid():
            yield c
        n = 1300 if tier == "quick" else 34000
        for _ in range(n):
            r = rng.random()
            yield (self.gen_boolnd(rng) if r < 0.10 else self.gen_setter(rng) if r < 0.18 else self.gen_badmask(rng, tier) if r < 0.24
                   else self.gen_refused(rng, tier) if r < 0.30 else self.gen_zerolen(rng) if r < 0.40 else self.gen_case(rng, tier))

    # ------------------------------------------------------------ implementation side
    def build(self, arr):
        """the real array of a case (core.build_array + the narrow / unsigned dtypes of NARROW)"""
        a = core.build_array(arr, 0)
        vc = arr.get("vcast")
        v = a.values
        if vc and v.dtype.kind in "if":
            dt = np.dtype(vc)
            if dt.kind in "iu":
                info = np.iinfo(dt)
                fits = v.size == 0 or (int(v.min()) >= info.min and int(v.max()) <= info.max)
            else:
                w = v.astype(dt).astype(v.dtype)
                fits = bool(np.all((w == v) | np.isnan(v)))
            if fits:
                b = DimArray(v.astype(dt), axes=[ax for ax in a.axes])
                b.attrs.update(a.attrs)
                a = b
        return a

    def decorate(self, a):
        """metadata on the array and on every axis: assignment must leave them alone"""
        a.attrs.setdefault("title", "T")
        a.attrs["n"] = 3
        for i, ax in enumerate(a.axes):
            ax.attrs["units"] = "u%d" % i
            ax.attrs["pos"] = i
        return a

    def mask_of(self, c, a):
        return np.array(c["boolnd"], dtype=bool).reshape(a.shape)

    def positions(self, c):
        """flat positions of the cells that the same index reads, in the shape of what it reads (None when the
        read raises): an index-tracking array read through the same index; a full-shape boolean mask reads its True
        cells in C order (NumPy); the values setter addresses the whole array"""
        old = da.get_option("indexing.by")
        try:
            da.set_option("indexing.by", c["option"])
            a = self.build(c["array"])
            if c.get("boolnd") is not None:
                return np.flatnonzero(self.mask_of(c, a).reshape(-1))
            if c.get("setter"):
                return np.arange(a.size).reshape(a.shape)
            t = DimArray(np.arange(a.size).reshape(a.shape), axes=[ax.copy() for ax in a.axes])
            r = c01.call_take(t, copy.deepcopy(c))
            return np.asarray(r.values if isinstance(r, DimArray) else r)
        except Exception:
            return None
        finally:
            da.set_option("indexing.by", old)

    @staticmethod
    def zl_shape(c):
        """shape of the selection of a position-mode tuple index, from the lengths of its entries alone (no bounds
        check): None when an entry has no length of its own (a mask of another length, a zero step)"""
        if c["mode"] != "position":
            return None
        axes = c["array"]["axes"]
        ixs = list(c["index"]["ix"]) + [["sl", None, None, None]] * (len(axes) - len(c["index"]["ix"]))
        shp = []
        for ix, ax in zip(ixs, axes):
            n = len(ax["labels"])
            if ix[0] == "li":
                shp.append(len(ix[1]))
            elif ix[0] == "ma":
                if len(ix[1]) != n:
                    return None
                shp.append(sum(1 for m in ix[1] if m))
            elif ix[0] == "sl":
                if ix[3] == 0:
                    return None
                shp.append(len(range(*slice(None if ix[1] is None else ix[1][1], None if ix[2] is None else ix[2][1], ix[3]).indices(n))))
        return tuple(shp)

    def rhs_raw(self, c):
        """the assigned value as a scalar / ndarray, and its shape for the model (None = scalar)"""
        kind, fl = c["rkind"], c.get("rflavour")
        if c.get("boolnd") is not None and c["rhs"] in ("array", "array1"):
            k = sum(1 for m in c["boolnd"] if m) if c["rhs"] == "array" else 1
            return rhs_values(k, kind, fl), [k]
        if c["rhs"] in ("scalar", "zerod") or c.get("boolnd") is not None:
            v = rhs_values(1, kind, fl)[0]
            if kind != "O":
                # (a single-precision scalar stays a NumPy scalar: .item() would make it a Python float)
                v = (v if fl == "f32" else v.item()) if c["rhs"] == "scalar" else np.array(v)
            return v, None
        pos = self.positions(c)
        shp = None if pos is None else tuple(pos.shape)
        if shp is None and c.get("zerolen"):
            shp = self.zl_shape(c)      # (the read is refused, the assignment need not be: see gen_zerolen)
        if shp and any(s == 0 for s in shp):
            # empty selection: nothing is written, but the right-hand side must still broadcast to its shape
            if c["rhs"] == "array":
                return rhs_values(0, kind, fl).reshape(shp), list(shp)
            if len(shp) > 1 and int(np.prod(shp[1:])) > 0:
                n = int(np.prod(shp[1:]))
                return rhs_values(n, kind, fl).reshape(shp[1:]), list(shp[1:])
        if not shp or any(s == 0 for s in shp):
            v = rhs_values(1, kind, fl)[0]
            return (v.item() if kind != "O" else v), None
        if c["rhs"] == "array_bcast" and len(shp) >= 1:
            shp = shp[1:] if len(shp) > 1 else (1,)
        n = int(np.prod(shp))
        return rhs_values(n, kind, fl).reshape(shp), list(shp)

    def rhs_of(self, c):
        """(value as handed to the library, shape for the model): an array right-hand side may be spelled as a nested
        Python list or as a DimArray (carrying the axes of the selection it is assigned to)"""
        raw, rshape = self.rhs_raw(c)
        how = c.get("rhs_as")
        if not how or not isinstance(raw, np.ndarray) or raw.ndim == 0 or raw.size == 0:
            return raw, rshape
        if how == "list":
            return raw.tolist(), rshape
        old = da.get_option("indexing.by")
        try:
            da.set_option("indexing.by", c["option"])
            a = self.build(c["array"])
            axes = None
            if c.get("setter"):
                sel_axes = list(a.axes)
            elif c.get("boolnd") is not None:
                sel_axes = None
            else:
                r = c01.call_take(a, copy.deepcopy(c))
                sel_axes = list(r.axes) if isinstance(r, DimArray) else None
            if sel_axes is not None:
                shp = tuple(ax.size for ax in sel_axes)
                if raw.shape == shp:
                    axes = [ax.copy() for ax in sel_axes]
                elif len(shp) > 1 and raw.shape == shp[1:]:
                    axes = [ax.copy() for ax in sel_axes[1:]]
            return (DimArray(raw.copy(), axes=axes) if axes else DimArray(raw.copy())), rshape
        except Exception:
            return raw, rshape
        finally:
            da.set_option("indexing.by", old)

    def do_put(self, a, c, value):
        """perform the assignment; returns the modified array (a itself when in place)"""
        if c.get("setter"):
            a.values = value
            return a
        inplace, cast = c["inplace"], c["cast"]
        kw = {"cast": True} if cast else {}
        if c.get("boolnd") is not None:
            mask = self.mask_of(c, a)
            if c.get("maskform") == "dimarray":
                mask = DimArray(mask, axes=[ax.copy() for ax in a.axes])
            sp = c["spelling"]
            if inplace and not kw and sp in ("getitem", "ix", "loc"):
                if sp == "getitem":
                    a[mask] = value
                elif sp == "ix":
                    a.ix[mask] = value
                else:
                    a.loc[mask] = value
                return a
            r = a.put(mask, value, inplace=inplace, **kw)
            return a if inplace else r
        if c["spelling"] == "nloc":
            k, _ = c01.make_key(c)
            if inplace and not kw:
                a.nloc[k[1]] = value
                return a
            r = a.put(k[1], value, indexing="label", tol=np.inf, inplace=inplace, **kw)
            return a if inplace else r
        return c01.call_put(a, copy.deepcopy(c), value)

    def impl(self, c):
        old = da.get_option("indexing.by")
        try:
            da.set_option("indexing.by", c["option"])
            a = self.decorate(self.build(c["array"]))
            orig, orig_meta = core.obs_array(a), meta_of(a)
            value, rshape = self.rhs_of(c)

            def run():
                res = self.do_put(a, c, value)
                out = {"result": core.obs_array(res), "meta": meta_of(res), "readback": None}
                if c.get("boolnd") is not None:
                    out["readback"] = core.guarded(lambda: core.obs_array(res[self.mask_of(c, res)]))
                elif not c.get("setter"):
                    out["readback"] = core.guarded(lambda: core.obs_array(c01.call_take(res, copy.deepcopy(c))))
                return out
            out = core.guarded(run)
            out["orig_before"], out["meta_before"] = orig, orig_meta
            out["orig_after"], out["meta_after"] = core.obs_array(a), meta_of(a)
            return out
        finally:
            da.set_option("indexing.by", old)

    def modelled(self, c):
        """the Lean mirror models a full-shape boolean assignment with ONE assigned value only"""
        return not (c.get("boolnd") is not None and c["rhs"] == "array")

    def request(self, c):
        if not self.modelled(c):
            return {"op": "union", "a": {"name": "x", "kind": "i", "labels": []}, "b": {"name": "x", "kind": "i", "labels": []}, "join": "outer"}
        value, rshape = self.rhs_of(c)
        la = core.lean_array(gen.clean(c["array"]), None)
        if self.build(c["array"]).values.dtype.kind == "u":
            la["vkind"] = "u"           # unsigned is a NumPy kind of its own for _maybe_cast_type
        r = {"op": "put", "arrays": [la], "rkind": c["rkind"], "cast": c["cast"]}
        if c.get("boolnd") is not None:
            r["boolnd"] = c["boolnd"]
        else:
            r["index"] = c["index"]
            r["cfg"] = c01.cfg_of(c)
            r["cfg"]["keepdims"] = False
            r["rshape"] = rshape
        return r

    # ------------------------------------------------------------ the property, stated on the implementation's output
    def oracle(self, c, io, value):
        """cells: every cell the same index reads holds the (broadcast) assigned value - passed through NumPy's cast to
        the array's dtype when cast=False, unchanged ("not truncated or lost") when cast=True - and every other cell
        holds what it held; read-back: reading the same index returns what was written (index without repeats)"""
        bad = []
        pos = self.positions(c)
        if pos is None:
            return bad, False
        vo = to_object_array(value)
        while vo.ndim > pos.ndim and vo.shape[0] == 1:
            vo = vo[0]
        try:
            bv = np.broadcast_to(vo, pos.shape)
        except ValueError:
            return bad, False           # a right-hand side that does not broadcast: outside the property
        if "ok" not in io:
            return bad, True
        a = self.build(c["array"])
        dt = a.values.dtype
        cast = c["cast"]

        def expect(x):
            if cast or dt == object:
                return core.canon_value(x)
            try:
                return core.canon_value(np.asarray(x).astype(dt)[()])
            except Exception:
                return None

        def same(e, got):
            return e is None or e == got or same_number(e, got)

        plist = [int(p) for p in pos.reshape(-1).tolist()]
        want = [expect(x) for x in bv.reshape(-1).tolist()] if bv.size else []
        allowed = {}
        for p, e in zip(plist, want):
            allowed.setdefault(p, []).append(e)
        res, before = io["ok"]["result"]["values"], io["orig_before"]["values"]
        if len(res) != len(before):
            return ["shape"], True
        for i, (x, y) in enumerate(zip(before, res)):
            if i in allowed:
                if not any(same(e, y) for e in allowed[i]):
                    bad.append("written.values"); break
            elif x != y and not (cast and same_number(x, y)):
                bad.append("frame.values"); break
        rb = io["ok"].get("readback")
        if rb is not None and len(set(plist)) == len(plist):
            if "ok" not in rb:
                bad.append("readback.outcome")
            elif len(rb["ok"]["values"]) != len(want) or not all(same(e, y) for e, y in zip(want, rb["ok"]["values"])):
                bad.append("readback.values")
        return bad, True

    def judge(self, c, io, ans):
        bad, prop_bad = [], []
        a = self.build(c["array"])
        value, rshape = self.rhs_of(c)
        modelled = self.modelled(c)
        lean = ans["lib"] if modelled else None
        if modelled:
            env = core.CellEnv([a.values], rhs=to_object_array(value) if c["rkind"] == "O" else np.asarray(value.values if isinstance(value, DimArray) else value))
            if "ok" in lean:
                k = core.ckind(lean["ok"]["vkind"])
                lo = core.lean_obs_to_canon(lean["ok"], env, cast_kind=k if k in DT else None)
                lo["vkind"] = k
                lo["scalar"] = False
                lo["attrs"] = None
                lean = {"ok": lo}
            imp = io if "err" in io else {"ok": io["ok"]["result"]}
            d = core.diff_obs(imp, lean, keys=("dims", "shape", "axes", "values", "vkind"))
            bad += [("M." + x if x == "errclass" else x) for x in d]
        obad, decided = self.oracle(c, io, value)
        prop_bad += obad
        if c.get("badmask"):
            # the same index reads nothing (IndexError): nothing may be written, and the assignment must say so
            if "err" not in io:
                prop_bad.append("badmask.accepted")
            elif io["err"] != "index":
                prop_bad.append("badmask.errclass:" + io["err"])
            if io["orig_after"] != io["orig_before"] or io["meta_after"] != io["meta_before"]:
                prop_bad.append("badmask.original_modified")
        if c.get("refused"):
            # the same index reads nothing (IndexError): the assignment must say so
            if "err" not in io:
                prop_bad.append("refused.accepted")
            elif io["err"] != "index":
                prop_bad.append("refused.errclass:" + io["err"])
        if "err" in io and (io["orig_after"] != io["orig_before"] or io["meta_after"] != io["meta_before"]):
            # an assignment that raises has written nothing: values, dtype kind, axes and metadata are what they were
            # (cast=True must not widen the array before the index / the right-hand side is refused)
            prop_bad.append("refused.original_modified")
        if "ok" in io:
            res = io["ok"]["result"]
            before = io["orig_before"]
            # frame: labels, dims, metadata (of the array and of every axis) untouched
            for k2 in ("dims", "shape"):
                if res[k2] != before[k2]:
                    prop_bad.append("frame." + k2)
            if io["ok"]["meta"]["attrs"] != io["meta_before"]["attrs"]:
                prop_bad.append("frame.attrs")
            if io["ok"]["meta"]["axes"] != io["meta_before"]["axes"]:
                prop_bad.append("frame.axes.attrs")
            if [(x["name"], x["labels"]) for x in res["axes"]] != [(x["name"], x["labels"]) for x in before["axes"]]:
                prop_bad.append("frame.axes")
            # inplace=False leaves the original untouched
            if not c["inplace"] and (io["orig_after"] != before or io["meta_after"] != io["meta_before"]):
                prop_bad.append("original_modified")
            if c["inplace"] and io["orig_after"] != res:
                prop_bad.append("inplace_not_applied")
            if not modelled:
                # resulting dtype kind, from the widening rules of the property (the table proved loss-free)
                ak, vk = a.values.dtype.kind, np.asarray(value.values if isinstance(value, DimArray) else value).dtype.kind
                want = self.cast_model(ak, vk) if c["cast"] else ak
                if core.ckind(want) != res["vkind"]:
                    bad.append("vkind")
            # read-back returns what was written (no repeats in the index => lean's readback is exact)
            rb = io["ok"]["readback"]
            lrb = ans.get("readback") if modelled else None
            if rb is not None and lrb is not None and "ok" in lrb and "ok" in rb:
                k = core.ckind(lrb["ok"]["vkind"])
                lo = core.lean_obs_to_canon(lrb["ok"], env, cast_kind=k if k in DT else None)
                lo["scalar"] = len(lo["dims"]) == 0
                if rb["ok"]["values"] != lo["values"]:
                    prop_bad.append("readback.values")
        elif (modelled and "ok" in lean) or (not modelled and decided):
            prop_bad.append("outcome:" + io["err"])
        if not bad and not prop_bad:
            return None
        return {"kind": "P" if prop_bad else "M", "differs": sorted(set(bad + prop_bad)), "msg": io.get("msg")}

    @staticmethod
    def cast_model(a, v):
        if a == v or a == "O" or (a == "f" and v == "i") or (a == "U" and v == "S"):
            return a
        if a == "i" and v == "f":
            return "f"
        if a == "S" and v == "U":
            return "U"
        return "O"

    def nontrivial(self, c):
        return len(c["array"]["axes"]) >= 1

    def features(self, c, io):
        f = {"outcome": "err:" + io["err"] if "err" in io else "ok", "akind": c["array"]["vkind"], "rkind": c["rkind"],
             "cast": c["cast"], "inplace": c["inplace"], "rhs": c["rhs"], "spelling": c["spelling"], "mode": c["mode"],
             "rhs_as": c.get("rhs_as", "plain"), "vdtype": c["array"].get("vcast", "default"),
             "tol": "nloc" if c["spelling"] == "nloc" else "tol=" if c.get("tol") else "none",
             "stratum": "boolnd" if c.get("boolnd") is not None else "values_setter" if c.get("setter") else "badmask" if c.get("badmask") else "refused" if c.get("refused") else "zerolen" if c.get("zerolen") else "index",
             "modelled": self.modelled(c)}
        if c.get("boolnd") is not None:
            f["boolnd.mask"] = c.get("maskform", "ndarray")
            f["boolnd.rhs"] = c["rhs"]
            f["boolnd.spelling"] = c["spelling"]
        if c.get("setter"):
            f["setter.rhs"] = c["rhs"] + ("/" + c["rhs_as"] if c.get("rhs_as") else "")
            f["setter.kinds"] = c["array"]["vkind"] + "<-" + c["rkind"]
        for k in c.get("_ixkinds", []):
            f["ix:" + k] = 1
        return f

    def size(self, c):
        return c01.PROP.size(c)

    def snippet(self, c):
        return ("import sys; sys.path.insert(0, '/verif/harness'); import json, core; from props.c03 import PROP; "
                "case = json.load(open(REPLAY))['case']; print(PROP.impl(case))")


def c_mode_tag(posmode):
    return "position" if posmode else "label"


def json_key(v):
    import json
    return json.dumps(v)


def json_unkey(k):
    import json
    return json.loads(k)


def same_number(x, y):
    """2 (int) and 2.0 (float) are the same value after a widening cast; True and 1 too"""
    def num(v):
        if v[0] == "n":
            from fractions import Fraction
            return Fraction(v[1], v[2])
        if v[0] == "b":
            return int(v[1])
        return None
    a, b = num(x), num(y)
    return a is not None and a == b


PROP = C03()

"""C20 - on-disk netCDF access is equivalent to in-memory access (against the vendored stand-in)."""
import copy, itertools, json, math, os, random, warnings
from fractions import Fraction
import numpy as np
import core, gen
from core import da, Axis, DimArray, Dataset
from .base import Prop
from .c06 import lab_key
from . import c01, c02, c19
from .c14 import rv as c14rv

NCDIR = os.path.join(core.WORK, "nc")


def obs(r):
    """canonical observation; for arrays with the metadata (variable and axes) and the dtype kind"""
    return c19.obs(r)


def meta_of(o):
    """what `same` compares beyond dims / shape / values / labels: present for arrays only"""
    return {k: o.get(k) for k in ("attrs_py", "axes_attrs", "dtype")}


class Handle(object):
    """the on-disk variable with the read / write entry points under the names call_take / call_put use"""
    def __init__(self, h):
        self.h = h

    def __getitem__(self, k):
        return self.h[k]

    def __setitem__(self, k, v):
        self.h[k] = v

    def take(self, indices=None, **kw):
        return self.h.read(indices, **kw)

    def put(self, indices, values, inplace=True, **kw):
        kw.pop("cast", None)
        return self.h.write(indices, values, **kw)

    def sel(self, **kw):
        return self.h.sel(**kw)

    def isel(self, **kw):
        return self.h.isel(**kw)

    loc = property(lambda self: self.h.loc)
    ix = property(lambda self: self.h.ix)
    iloc = property(lambda self: self.h.iloc)
    nloc = property(lambda self: self.h.nloc)


def same(x, y, meta=True):
    if ("err" in x) or ("err" in y):
        return ("err" in x) and ("err" in y) and x["err"] == y["err"]
    a, b = x["ok"], y["ok"]
    for k in ("dims", "shape", "values"):
        if a[k] != b[k]:
            return False
    if [(ax["name"], [lab_key(l) for l in ax["labels"]]) for ax in a["axes"]] != [(ax["name"], [lab_key(l) for l in ax["labels"]]) for ax in b["axes"]]:
        return False
    # "exactly what the same index returns on the fully loaded array": metadata of the variable and of the remaining
    # axes, kind of the values
    # (a selection reduced to a single element comes back as a 0-d array from the file and as a bare scalar, which
    #  has no metadata, from memory: the element is compared, the wrapper is not)
    if not meta or a.get("scalar") or b.get("scalar"):
        return True
    return meta_of(a) == meta_of(b)


class C20(Prop):
    id = "C20"
    theorems = ["sim_store", "load_store", "ondisk_read_eq_take", "ncPut_spec", "ncPut_length", "ondisk_write_eq_put", "ondisk_write_error", "ondisk_history", "ondisk_history_read", "writeRecord_append",
                "read_multi_eq_memory", "read_multi_inconsistent", "read_multi_file_error", "read_multi_var_eq_memory",
                "read_multi_consistent_counterexample",
                "readFile_storeDs_eq", "readFile_storeDs", "reloadDs_same", "write_read_multi_eq_memory", "write_read_multi_inconsistent",
                "readFile_storeDs_shared_counterexample", "readFile_storeDs_keys_counterexample",
                "readFile_storeDs_indexed_partial", "readFile_storeDs_indexed_error"]
    rule = ("files written through dimarray (vendored netCDF4 stand-in): a variable of rank 0-3 with int/float/str labels in any "
            "order is read through the on-disk handle - open_nc(f)[name][idx], .ix / .loc / .sel / .isel, read_nc(f, name, "
            "indices=, indexing=, tol=) - with every index form of C01/C02 (scalars, lists, masks, slices, dicts, tolerance) in "
            "label and position mode and compared with the same index on the fully loaded array; on-disk assignments followed "
            "by a read are compared with the same assignment in memory (scalar, ndarray and DimArray right-hand sides; also "
            "on files whose dimensions have no coordinate variable: default range labels); metadata of the variable and of the "
            "axes and the dtype kind of partial reads (float, int, str values); a Dataset in a file indexed through read_nc / "
            "open_nc(f).read / .sel / .isel / .loc / .iloc / .ix with names = None, list, str, tol=, keepdims=, and "
            "open_nc(f)[dimname]; records written beyond the end of an unlimited dimension one or several at a time, also by writes that start on the last existing records and run on beyond the end (int / "
            "float / str labels, float / int values), read after each write, rewritten afterwards; lists of 2-3 files or a "
            "glob pattern read at once (new axis / existing axis; keys given, default, re-indexing; names str / list; "
            "indices=; concatenate_only) against stack_ds / concatenate_ds of the single reads, and - outcome, error class, keys, "
            "dimensions, labels, label kinds, cells - against the model's multi-file read (OnDisk.readMulti / readMultiVar of "
            "Lib/OnDiskMulti.lean: per-file DatasetOnDisk.read on the flat stores, the consistency loop, the dispatch to "
            "DSV.concatenateDsA + reindexAxisDs / DSV.stackDsA with align / sort / join / keys; driver op read_multi). "
            "Proof-only: readFile (storeDs ds) none none returns ds (keys, axes, attrs, cells; WfDs: plain axes, distinct dims / keys, "
            "shared axes, shapes), hence the multi-file read of files written from Datasets is stack_ds / concatenate_ds of them (SameDs). "
            "Non-trivial = rank >= 1; distinct = canonical JSON")
    assumptions = ["multi-file tie: a read with names= and an index along a dimension that none of the requested variables has is decided by the "
                   "per-file oracle alone (the library never resolves that index; the mirror OnDiskMulti.readFile resolves it on the file's axes)",
                   "PARTIAL: the vendored stand-in's fidelity to netCDF4-python / libnetcdf (orthogonal indexing with "
                   "unsorted / repeated integer sequences, 0-d variables, unlimited dimensions) is assumed"]

    def mirrors(self):
        import sys as _s
        ncio = _s.modules.get("dimarray.io.nc")
        if not ncio:
            return {}
        return {"DimArrayOnDisk.read": ncio.DimArrayOnDisk.read, "DimArrayOnDisk.write": ncio.DimArrayOnDisk.write,
                "_getvalues_ortho": ncio.DimArrayOnDisk._getvalues_ortho, "_getaxes_ortho": ncio.DimArrayOnDisk._getaxes_ortho,
                "AxisOnDisk.__getitem__": ncio.AxisOnDisk.__getitem__, "DatasetOnDisk.read": ncio.DatasetOnDisk.read,
                "read_nc": ncio.read_nc, "_read_multinc": ncio._read_multinc}

    # TODO(defect): assigning a DimArray through the on-disk handle when a dimension is indexed with a scalar raises
    # ValueError (DimArrayOnDisk.write looks every dimension of the variable up in the assigned array's axes, the
    # scalar-indexed ones are not there); the same assignment works in memory.  The form is skipped while this is True.
    SKIP_DIMARRAY_RHS_SCALAR = False
    # TODO(defect): assigning a DimArray through the on-disk handle with a slice (or nothing) along a dimension that has
    # no coordinate variable raises IndexError (DimArrayOnDisk.write wraps the slice in a list - np.ndim(slice) is 0 -
    # and indexes the default np.arange with it).  Skipped while this is True.
    SKIP_DIMARRAY_RHS_NOCOORD_SLICE = False

    def gen(self, rng, tier):
        n = 900 if tier == "quick" else 15000
        for i in range(n):
            r = rng.random()
            if r < 0.5:
                base = c01.PROP.gen_case(rng, tier) if rng.random() < 0.7 else next(c02.PROP.nd_cases(rng, 1))
                if base["spelling"] in ("getitem_position_option", "ix_from_position") or base["option"] != "label":
                    base["option"] = "label"
                    if base["spelling"] == "getitem_position_option":
                        base["spelling"] = "ix"
                    if base["spelling"] == "ix_from_position":
                        base["spelling"] = "loc"
                    if base["spelling"] == "take" and base["mode"] == "position":
                        base["spelling"] = "take_position"
                if base["spelling"] in ("take_dict_pos",):
                    base["spelling"] = "take_dict"
                    for it in base["index"]["items"]:
                        if it[0][0] == "pos":
                            it[0] = ["name", base["array"]["axes"][it[0][1]]["name"]]
                base["array"]["vkind"] = rng.choice(["f", "f", "i", "O"])
                if any(len(ax["labels"]) == 0 for ax in base["array"]["axes"]):
                    continue
                # metadata on the variable and on its axes: a partial read carries them like the in-memory take does
                base["array"]["attrs_py"] = c19.attrs_for(rng)
                for ax in base["array"]["axes"]:
                    ax["attrs_py"] = c19.attrs_for(rng, 1)
                if rng.random() < 0.1 and base["spelling"] in ("take", "take_label", "take_position"):
                    base["keepdims"] = True          # (c01 draws it for 8% of these spellings only)
                c = dict(base, op="read", via=rng.choice(["handle", "handle", "read_nc"]), seed=i)
                yield c
            elif r < 0.68:
                yield self.gen_history(rng, i)
            elif r < 0.81:
                for _ in range(6):
                    c = self.gen_dsread(rng, i)
                    if c is not None:
                        yield c
                        break
            elif r < 0.88:
                yield self.gen_unlimited(rng, i)
            else:
                c = self.gen_multi(rng, i)
                if c is not None:
                    yield c

    def near_label(self, rng, ax):
        b = rng.choice(ax["labels"])
        v = Fraction(b[1], b[2]) + Fraction(rng.choice([-3, -1, 0, 1, 2, 5]), 8)
        return ["n", v.numerator, v.denominator]

    def gen_dsread(self, rng, i):
        """a Dataset in a file, indexed along one dimension through the dataset-level entry points"""
        dd = c19.gen_ds(rng)
        if not dd["dims"] or not dd["vars"]:
            return None
        d = rng.choice(dd["dims"])
        ax = dd["axes"][d]
        pos = rng.random() < 0.4
        ix, kind = c01.PROP.gen_ix_pos(rng, len(ax["labels"])) if pos else c01.PROP.gen_ix_label(rng, dict(ax, _order="?"))
        having = sorted(k for k, v in dd["vars"].items() if d in v["dims"])
        if not having:
            return None
        c = {"op": "dsread", "ds": dd, "dim": d, "ix": ix, "mode": "position" if pos else "label", "_ixkind": kind, "seed": i}
        r = rng.random()
        if r < 0.3:
            c["names"] = None
        elif r < 0.75:
            # (the listed variables include one that has the indexed dimension: otherwise the loaded
            #  Dataset does not have the dimension at all and there is nothing to compare with)
            c["names"] = sorted(set(rng.sample(sorted(dd["vars"]), rng.randint(1, len(dd["vars"]))) + [rng.choice(having)]))
        else:
            c["names"] = rng.choice(having)          # a single name: the result is an array
        single = isinstance(c["names"], str)
        vias = ["read_nc", "read_nc", "open.read", "open.read_axis"]
        if c["names"] is None and rng.random() < 0.65:
            vias = ["open.isel", "open.iloc", "open.ix"] if pos else ["open.sel", "open.loc"]
        if rng.random() < 0.12:
            vias = ["dimvar"]        # open_nc(f)[dimname]: the coordinate variable through the variable handle
            c["names"] = None
        c["via"] = rng.choice(vias)
        if c["via"] in ("read_nc", "open.read", "open.read_axis"):
            if rng.random() < 0.25:
                c["keepdims"] = True
            if not pos and ax["kind"] in "if" and rng.random() < 0.3:
                # nearest-label access with a tolerance
                c["tol"] = rng.choice([["fin", 1, 2], ["fin", 1, 4], ["inf"]])
                c["ix"] = ["sc", self.near_label(rng, ax)] if rng.random() < 0.5 else ["li", [self.near_label(rng, ax) for _ in range(rng.randint(1, 3))]]
                c["_ixkind"] = "tol"
        return c

    def gen_unlimited(self, rng, i):
        """records written beyond the end of an unlimited dimension, one or several at a time, with int / float /
        str labels; optionally existing records are then rewritten (same labels, new values)"""
        arr = gen.rand_array(rng, rank=rng.choice([1, 2, 2, 3]), maxn=3, minn=1)
        arr["vkind"] = rng.choice(["f", "f", "i"])
        u = rng.randrange(len(arr["axes"]))
        lk = rng.choice(["i", "i", "f", "O"])
        n = rng.randint(1, 4)
        if lk == "i":
            labels = [["n", 2000 + 3 * k, 1] for k in range(n)]
        else:
            labels = gen.rand_axis(rng, arr["axes"][u]["name"], kind=lk, n=n)["labels"]
        arr["axes"][u]["kind"] = lk
        arr["axes"][u]["labels"] = labels
        plain = rng.random() < 0.35          # one record at a time, nothing rewritten: the form the mirror models
        if plain:
            arr["vkind"] = "f"
        chunks, k = [], 0
        while k < n:
            m = 1 if plain else rng.choice([1, 1, 2, 3])
            chunks.append(list(range(k, min(n, k + m))))
            k += m
        c = {"op": "unlimited", "array": gen.clean(arr), "udim": u, "chunks": chunks,
             "hows": [rng.choice(["list", "list", "slice"]) for _ in chunks], "interleave": rng.random() < 0.5, "seed": i}
        r2 = random.Random("straddle%d" % i)
        if not plain and len(chunks) > 1 and r2.random() < 0.45:
            # a write that STRADDLES the current end: it starts on the last record(s) already in the file (same labels, same
            # values) and runs on beyond the end - the new records' labels must be written all the same
            for j in range(1, len(chunks)):
                if r2.random() < 0.7:
                    back = r2.choice([1, 1, 2])
                    chunks[j] = list(range(max(0, chunks[j][0] - back), chunks[j][0])) + chunks[j]
            c["chunks"], c["straddle"] = chunks, True
        if not plain and rng.random() < 0.4:
            ps = sorted(rng.sample(range(n), rng.randint(1, min(2, n))))
            c["overwrite"] = {"pos": ps, "mode": rng.choice(["position", "label"])}
        return c

    def gen_multi(self, rng, i):
        dd = c19.gen_ds(rng, netcdf3=True)
        if not dd["dims"] or not dd["vars"]:
            return None
        for v in dd["vars"].values():
            v["vkind"] = "f"
            v["attrs_py"] = {}
            if not v["dims"] or dd["dims"][0] not in v["dims"]:
                v["dims"] = [dd["dims"][0]] + [d for d in v["dims"] if d != dd["dims"][0]]
        dd["axes"] = {d: dd["axes"][d] for d in dd["dims"] if any(d in v["dims"] for v in dd["vars"].values())}
        dd["dims"] = list(dd["axes"])
        for ax in dd["axes"].values():
            ax["attrs_py"] = {}
        dd["attrs"] = {}
        c = {"op": "multi", "ds": dd, "n": rng.choice([2, 3]), "how": rng.choice(["stack", "concat"]), "seed": i}
        if rng.random() < 0.6:
            # align / sort / join options, on files whose secondary axes are equal, permuted or partly different
            c["opts"] = {"align": rng.random() < 0.7, "sort": rng.random() < 0.4}
            if rng.random() < 0.7:
                c["opts"]["join"] = rng.choice(["inner", "inner", "outer"])
            cand = dd["dims"][1:] if c["how"] == "concat" else dd["dims"]
            if cand and rng.random() < 0.85:
                d1 = rng.choice(cand)
                ax = dd["axes"][d1]
                sec = []
                for k in range(c["n"]):
                    labs = list(ax["labels"])
                    m = rng.choice(["same", "permute", "replace", "drop", "add"])
                    if m == "permute":
                        rng.shuffle(labs)
                    elif m == "replace" and labs:
                        labs[rng.randrange(len(labs))] = gen.absent_label(rng, dict(ax, labels=labs))
                    elif m == "drop" and len(labs) > 1:
                        labs.pop(rng.randrange(len(labs)))
                    elif m == "add":
                        labs.insert(rng.randrange(len(labs) + 1), gen.absent_label(rng, dict(ax, labels=labs)))
                    sec.append(labs)
                c["secondary"] = {"dim": d1, "labels": sec}
        # the other forms of the call
        r = rng.random()
        if r < 0.2:
            c["names"] = rng.choice(sorted(dd["vars"]))          # a single name: arrays are joined, not datasets
        elif r < 0.4:
            c["names"] = sorted(rng.sample(sorted(dd["vars"]), rng.randint(1, len(dd["vars"]))))
        if rng.random() < 0.25:
            c["glob"] = True                                     # a pattern instead of a list of names
        elif rng.random() < 0.65:
            c["file_order"] = rng.choice(["rev", "rot"])         # the list of names is not in alphabetical order
        if c["how"] == "concat" and rng.random() < 0.4:
            c["concat_order"] = "dec"                            # later files hold smaller labels along the joined axis
        d0 = dd["dims"][0]
        if c["how"] == "stack":
            if rng.random() < 0.25:
                c["keys"] = "default"                            # no keys: taken from the file names
            elif rng.random() < 0.3:
                c["keys"] = "numbers"
        elif dd["axes"][d0]["kind"] in "if" and rng.random() < 0.35:
            # keys= with an existing axis: the concatenated result is re-indexed on them (positions in the joined axis;
            # -1 stands for a label that is on no file)
            total = c["n"] * len(dd["axes"][d0]["labels"])
            c["keys"] = [rng.choice([-1] + list(range(total)) * 3) for _ in range(rng.randint(1, 4))]
            c["keys"] = sorted(set(c["keys"]), key=c["keys"].index)
        if rng.random() < 0.25:
            cand = dd["dims"][1:] if c["how"] == "concat" else dd["dims"]
            if cand:
                # indices= applies to every file before they are joined
                d = rng.choice(cand)
                ax = dd["axes"][d]
                pos = rng.random() < 0.5
                ix, kind = c01.PROP.gen_ix_pos(rng, len(ax["labels"])) if pos else c01.PROP.gen_ix_label(rng, dict(ax, _order="?"))
                c["indices"] = {"dim": d, "ix": ix, "mode": "position" if pos else "label", "_ixkind": kind}
        if rng.random() < 0.15:
            c["concatenate_only"] = True
        return c

    def gen_history(self, rng, i):
        """a stored variable and 1-4 on-disk assignments / reads through the handle"""
        arr = gen.clean(gen.rand_array(rng, rank=rng.choice([1, 2, 2, 3]), maxn=4, minn=1))
        arr["vkind"] = "f"
        nocoord = []
        if rng.random() < 0.25:
            # dimensions without a coordinate variable: their labels are the default range 0 .. n-1
            nocoord = sorted(rng.sample(range(len(arr["axes"])), rng.randint(1, len(arr["axes"]))))
            for d in nocoord:
                ax = arr["axes"][d]
                ax["kind"] = "i"
                ax["labels"] = [["n", k, 1] for k in range(len(ax["labels"]))]
        steps = []
        for _ in range(rng.randint(1, 4)):
            pos = rng.random() < 0.4
            ixs, kinds = [], []
            for ax in arr["axes"]:
                ix, k = c01.PROP.gen_ix_pos(rng, len(ax["labels"])) if pos else c01.PROP.gen_ix_label(rng, ax)
                ixs.append(ix); kinds.append(k)
            st = {"kind": "write" if rng.random() < 0.6 else "read", "option": "label",
                  "spelling": rng.choice(["ix", "iloc"]) if pos else rng.choice(["getitem", "loc"]),
                  "mode": "position" if pos else "label", "as_array": rng.random() < 0.3,
                  "index": {"form": "tuple", "ix": ixs}, "_ixkinds": kinds,
                  "rhs": rng.choice(["scalar", "scalar", "array", "array_bcast", "dimarray"])}
            if not pos and rng.random() < 0.3 and any(ax["kind"] in "if" and ax["labels"] for ax in arr["axes"]):
                # nearest-label access with a tolerance: requests a little off the stored labels
                st["spelling"] = "take"
                st["tol"] = rng.choice([["fin", 1, 2], ["fin", 1, 4], ["inf"]])
                st["as_array"] = False
                for d, ax in enumerate(arr["axes"]):
                    if ax["kind"] in "if" and ax["labels"] and rng.random() < 0.8:
                        def near():
                            b = rng.choice(ax["labels"])
                            v = Fraction(b[1], b[2]) + Fraction(rng.choice([-3, -1, 0, 1, 2, 5]), 8)
                            return ["n", v.numerator, v.denominator]
                        ixs[d] = ["sc", near()] if rng.random() < 0.5 else ["li", [near() for _ in range(rng.randint(1, 3))]]
                        kinds[d] = "tol"
            if "tol" not in st and rng.random() < 0.25:
                # a single-dimension index given with the axis= keyword (by name or by position)
                d = rng.randrange(len(arr["axes"]))
                st["spelling"] = "take_position" if pos else "take"
                st["index"] = {"form": "axis", "ix": ixs[d], "axis": rng.choice([["name", arr["axes"][d]["name"]], ["pos", d], ["pos", d - len(arr["axes"])]])}
                st["_ixkinds"] = [kinds[d]]
            if st["rhs"] == "dimarray" and rng.random() < 0.3:
                st["relabel"] = True          # the assigned DimArray carries other labels than the file: values go in all the same
            if st["rhs"] == "dimarray" and self.SKIP_DIMARRAY_RHS_SCALAR and any(x[0] == "sc" for x in ([st["index"]["ix"]] if st["index"]["form"] == "axis" else st["index"]["ix"])):
                st["rhs"] = "array"
            if st["rhs"] == "dimarray" and nocoord and self.SKIP_DIMARRAY_RHS_NOCOORD_SLICE and (
                    st["index"]["form"] != "tuple" or any(st["index"]["ix"][d][0] not in ("li", "ma") for d in nocoord)):
                st["rhs"] = "array"
            steps.append(st)
        c = {"op": "history", "array": arr, "steps": steps, "seed": i}
        if nocoord:
            c["nocoord"] = nocoord
        return c

    def plan(self, c):
        """per step: the case handed to call_take / call_put, the assigned value and its shape, the offset of
        its cells in the right-hand-side vector (the selection shape depends on the axes only, which no
        assignment changes)"""
        a = core.build_array(c["array"], 0)
        out = []
        for k, st in enumerate(c["steps"]):
            sc = dict(copy.deepcopy(st), array=c["array"])
            base = 1000 * k
            value, rshape, sel = base + 0.5, None, None
            if st["kind"] == "write":
                try:
                    sel = tuple(np.shape(c01.call_take(a, copy.deepcopy(sc))))
                except Exception:
                    sel = None
                if sel and st["rhs"] != "scalar":
                    shp = sel          # ("array" and "dimarray": the shape of the selection)
                    if st["rhs"] == "array_bcast":
                        shp = sel[1:] if len(sel) > 1 else (1,)
                    n = int(np.prod(shp))
                    if n > 0 or st["rhs"] == "array":
                        value = (np.arange(n, dtype=float) + base + 0.5).reshape(shp)
                        rshape = list(shp)
            out.append({"case": sc, "value": value, "rshape": rshape, "base": base, "sel": sel})
        return out

    def create_nocoord(self, p, a, nocoord):
        """a file whose listed dimensions have no coordinate variable; the variable is written from a plain ndarray"""
        f = da.open_nc(p, mode="w")
        for k, ax in enumerate(a.axes):
            if k in nocoord:
                f.axes.append(ax.name, size=len(ax.values))       # str + size: a dimension and nothing else
            else:
                f.axes.append(ax)
        f.nc.createVariable("v", a.values.dtype, a.dims)
        f["v"][()] = a.values
        f.close()

    def history(self, c, paths):
        a = core.build_array(c["array"], 0)
        p = self.path(c); paths.append(p)
        if c.get("nocoord"):
            self.create_nocoord(p, a, c["nocoord"])
        else:
            a.write_nc(p, "v", mode="w")
        mem = da.read_nc(p, "v")
        loaded = obs(mem)
        f = da.open_nc(p, mode="a")
        h = Handle(f["v"])
        res = []
        for st in self.plan(c):
            sc = st["case"]
            if sc["kind"] == "read":
                exp = core.guarded(lambda: obs(c01.call_take(mem, copy.deepcopy(sc))))
                got = core.guarded(lambda: obs(c01.call_take(h, copy.deepcopy(sc))))
            else:
                value = st["value"]
                if sc["rhs"] == "dimarray" and isinstance(value, np.ndarray):
                    # the same numbers as a DimArray carrying the axes of the selection
                    part = c01.call_take(mem, copy.deepcopy(sc))
                    relab = (lambda v: v + 1000 if v.dtype.kind in "if" else np.array([str(x) + "_" for x in v], dtype=object)) if sc.get("relabel") else (lambda v: v.copy())
                    value = DimArray(value, axes=[Axis(relab(ax.values), ax.name) for ax in part.axes])

                def w(target):
                    c01.call_put(target, dict(copy.deepcopy(sc), inplace=True, cast=False), value)
                    return None
                exp = core.guarded(lambda: w(mem))
                got = core.guarded(lambda: w(h))
            res.append({"got": got, "expected": exp, "sel": st["sel"]})
        f.close()
        return {"ok": {"history": res, "got": core.guarded(lambda: obs(da.read_nc(p, "v"))), "expected": {"ok": obs(mem)},
                       "input": obs(a), "loaded": loaded}}

    # ------------------------------------------------------------ implementation side
    def path(self, c, k=0):
        os.makedirs(NCDIR, exist_ok=True)
        return os.path.join(NCDIR, "c20_%d_%d_%d.nc" % (os.getpid(), c["seed"], k))

    def impl(self, c):
        with warnings.catch_warnings():
            warnings.simplefilter("ignore")
            paths = []
            try:
                if c["op"] in ("read", "write"):
                    a = core.build_array(c["array"], 0)
                    p = self.path(c); paths.append(p)
                    a.write_nc(p, "v", mode="w")
                    if c["op"] == "read":
                        mem = da.read_nc(p, "v")
                        loaded = {"got": {"ok": obs(mem)}, "expected": {"ok": obs(a)}}
                        c2 = copy.deepcopy(c)
                        exp = core.guarded(lambda: obs(c01.call_take(mem, c2)))
                        if c["via"] == "handle":
                            f = da.open_nc(p)
                            got = core.guarded(lambda: obs(c01.call_take(Handle(f["v"]), copy.deepcopy(c))))
                            f.close()
                        else:
                            k, kw = c01.make_key(copy.deepcopy(c))
                            mode = "position" if c["mode"] == "position" else "label"
                            if c["spelling"] == "nloc":
                                kw["tol"] = np.inf
                            if k[0] == "axis":
                                got = core.guarded(lambda: obs(da.read_nc(p, "v", indices=k[1], axis=k[2], indexing=mode, **kw)))
                            else:
                                got = core.guarded(lambda: obs(da.read_nc(p, "v", indices=k[1], indexing=mode, **kw)))
                        return {"ok": {"got": got, "expected": exp, "loaded": loaded}}
                    # write through the handle, then read everything back
                    mem = da.read_nc(p, "v")
                    value = 77.5
                    c2 = dict(copy.deepcopy(c), inplace=True, cast=False)
                    exp = core.guarded(lambda: obs(c01.call_put(mem, c2, value)))
                    f = da.open_nc(p, mode="a")

                    def dowrite():
                        c01.call_put(Handle(f["v"]), dict(copy.deepcopy(c), inplace=True, cast=False), value)
                        return True
                    w = core.guarded(dowrite)
                    f.close()
                    got = core.guarded(lambda: obs(da.read_nc(p, "v"))) if "ok" in w else w
                    return {"ok": {"got": got, "expected": exp}}
                if c["op"] == "history":
                    return self.history(c, paths)
                if c["op"] == "dsread":
                    return self.dsread(c, paths)
                if c["op"] == "unlimited":
                    p = self.path(c); paths.append(p)
                    return self.unlimited(c, paths)
                if c["op"] == "multi":
                    return self.multi(c, paths)
            finally:
                for p in paths:
                    try:
                        os.remove(p)
                    except OSError:
                        pass

    def dsread(self, c, paths):
        ds = c19.build_ds(c["ds"])
        p = self.path(c); paths.append(p)
        ds.write_nc(p)
        dim, mode, names = c["dim"], c["mode"], c.get("names")
        via = c.get("via", "read_nc")
        key = c01.py_index(c["ix"], {"kind": "i"} if mode == "position" else c["ds"]["axes"][dim])
        kw = {}
        tol = c.get("tol")
        if tol is not None:
            kw["tol"] = np.inf if tol[0] == "inf" else float(tol[1]) / tol[2]
        if c.get("keepdims"):
            kw["keepdims"] = True
        fresh = lambda: copy.deepcopy(key)

        def o(r):
            return c19.obs_dataset(r) if isinstance(r, Dataset) else {"array": obs(r)}

        def ondisk():
            if via == "read_nc":
                return o(da.read_nc(p, names, indices={dim: fresh()}, indexing=mode, **kw))
            with da.open_nc(p) as f:
                if via == "open.read":
                    return o(f.read(names, indices={dim: fresh()}, indexing=mode, **kw))
                if via == "open.read_axis":
                    return o(f.read(names, indices=fresh(), axis=dim, indexing=mode, **kw))
                if via == "open.sel":
                    return o(f.sel(**{dim: fresh()}))
                if via == "open.isel":
                    return o(f.isel(**{dim: fresh()}))
                if via == "open.loc":
                    return o(f.loc[{dim: fresh()}])
                if via == "open.iloc":
                    return o(f.iloc[{dim: fresh()}])
                if via == "open.ix":
                    return o(f.ix[{dim: fresh()}])
                if via == "dimvar":
                    return o(f[dim].read(fresh(), indexing=mode))
            raise ValueError(via)

        def inmemory():
            if via == "dimvar":
                # the coordinate variable, fully loaded: the labels along their own axis
                # (its metadata is the metadata of the axis)
                ax = da.read_nc(p).axes[dim]
                full = DimArray(ax.values.copy(), axes=[ax.copy()])
                full.attrs.update(ax.attrs)
                return o(full.take(fresh(), indexing=mode))
            if isinstance(names, str):
                return o(da.read_nc(p)[names].take(indices={dim: fresh()}, indexing=mode, **kw))
            mem = da.read_nc(p, names)
            if via in ("read_nc", "open.read"):
                return o(mem.take(indices={dim: fresh()}, indexing=mode, **kw))
            if via == "open.read_axis":
                return o(mem.take(indices=fresh(), axis=dim, indexing=mode, **kw))
            if via == "open.sel":
                return o(mem.sel(**{dim: fresh()}))
            if via == "open.isel":
                return o(mem.isel(**{dim: fresh()}))
            if via == "open.loc":
                return o(mem.loc[{dim: fresh()}])
            if via == "open.iloc":
                return o(mem.iloc[{dim: fresh()}])
            if via == "open.ix":
                return o(mem.ix[{dim: fresh()}])
            raise ValueError(via)
        got = core.guarded(ondisk)
        exp = core.guarded(inmemory)
        # the reference itself: the fully loaded Dataset is the one that was written (values, labels, metadata on the
        # three levels) - otherwise a loss common to the full and the partial read would go unseen
        full, wrote = c19.obs_dataset(da.read_nc(p)), c19.obs_dataset(ds)
        bad = [] if full["keys"] == wrote["keys"] else ["keys"]
        if not bad:
            for k in wrote["keys"]:
                bad += c19.PROP.cmp_var(full["vars"][k], wrote["vars"][k], k)
            bad += c19.PROP.cmp_axes(full["axes"], wrote["axes"], "")
            if c19.nc_attrs(full["attrs"]) != c19.nc_attrs(wrote["attrs"]):
                bad.append("dataset_attrs")
        return {"ok": {"got": got, "expected": exp, "multi": True, "loaded_bad": bad}}

    def multi_build(self, c):
        """the Datasets that are written to the files of a 'multi' case, and the numbers of their files"""
        dds = [copy.deepcopy(c["ds"]) for _ in range(c["n"])]
        if c.get("secondary"):
            for ddi, labs in zip(dds, c["secondary"]["labels"]):
                ddi["axes"][c["secondary"]["dim"]]["labels"] = labs
        dss = [c19.build_ds(ddi, base=10 * i) for i, ddi in enumerate(dds)]
        d0 = c["ds"]["dims"][0]
        if c["how"] == "concat":
            # files hold consecutive pieces along the first dimension: relabel so that labels differ
            for i, ds in enumerate(dss):
                ax = ds.axes[d0]
                if ax.values.dtype.kind in "if":
                    # (the later files may hold the SMALLER labels: the pieces are joined in the order given, sort= is about
                    #  the secondary axes)
                    ax[:] = ax.values + 100 * ((len(dss) - 1 - i) if c.get("concat_order") == "dec" else i)
        # an explicit list of files is read in the order GIVEN, whatever the names: the files of a list are numbered so
        # that the list is not in alphabetical order (a glob pattern is expanded in sorted order, there the numbers ascend)
        ks = list(range(len(dss)))
        if not c.get("glob") and c.get("file_order") == "rev":
            ks.reverse()
        elif not c.get("glob") and c.get("file_order") == "rot":
            ks = ks[1:] + ks[:1]
        return dss, ks

    def multi_keys(self, c, dss):
        """the keys= argument of a 'multi' case (None: not given)"""
        if c["how"] == "stack":
            return {"default": None, "numbers": [10 * (i + 1) for i in range(c["n"])]}.get(c.get("keys"), ["f%d" % i for i in range(c["n"])])
        if c.get("keys"):
            # positions in the joined axis -> labels (numeric axis, made distinct above)
            d0 = c["ds"]["dims"][0]
            alll = np.concatenate([ds.axes[d0].values for ds in dss])
            keys = [alll[k] if k >= 0 else alll.max() + 1000 for k in c["keys"]]
            return np.array(keys, dtype=alll.dtype).tolist()
        return None

    def multi(self, c, paths):
        dss, ks = self.multi_build(c)
        opts = dict(c.get("opts") or {})
        d0 = c["ds"]["dims"][0]
        for i, ds in enumerate(dss):
            p = self.path(c, ks[i]); paths.append(p)
            ds.write_nc(p)
        names = c.get("names")
        arg = os.path.join(NCDIR, "c20_%d_%d_*.nc" % (os.getpid(), c["seed"])) if c.get("glob") else list(paths)
        rkw = {}
        idx = c.get("indices")
        if idx:
            key = c01.py_index(idx["ix"], {"kind": "i"} if idx["mode"] == "position" else c["ds"]["axes"][idx["dim"]])
            rkw = {"indices": {idx["dim"]: key}, "indexing": idx["mode"]}
        if c.get("concatenate_only"):
            opts["concatenate_only"] = True

        def single(p):
            """one file, read on its own with the same indices (that such a read equals indexing the loaded
            Dataset is what the 'dsread' cases check)"""
            return da.read_nc(p, [names] if isinstance(names, str) else names, **copy.deepcopy(rkw))

        def o(r):
            if isinstance(r, Dataset):
                return c19.obs_dataset(r)
            return dict(c19.obs_dataset(Dataset({names: r})), array=True)

        def pick(ds1):
            return o(ds1[names]) if isinstance(names, str) else o(ds1)
        jopts = {k: v for k, v in opts.items() if k != "concatenate_only"}
        note = {}
        if c["how"] == "stack":
            keys = self.multi_keys(c, dss)
            kk = {} if keys is None else {"keys": keys}
            rk = copy.deepcopy(rkw)
            got = core.guarded(lambda: da.read_nc(arg, names, axis="file", **kk, **opts, **rk))
            if keys is None and "ok" in got:
                # "file names will be taken instead": every label names its file
                labs = [str(x) for x in got["ok"].axes["file"].values.tolist()]
                note["default_keys_ok"] = len(labs) == len(paths) and all(
                    l in (q, os.path.splitext(q)[0], os.path.basename(q), os.path.splitext(os.path.basename(q))[0]) for l, q in zip(labs, paths))
                keys = labs
            if "ok" in got:
                got = {"ok": o(got["ok"])}
            if c.get("concatenate_only"):
                exp = {"err": "required", "msg": "concatenate_only and the axis is in no file"}
            else:
                exp = core.guarded(lambda: pick(da.stack_ds([single(p) for p in paths], axis="file", keys=keys, **jopts)))
        else:
            keys = self.multi_keys(c, dss)
            kk = {} if keys is None else {"keys": keys}
            rk = copy.deepcopy(rkw)
            got = core.guarded(lambda: o(da.read_nc(arg, names, axis=d0, **kk, **opts, **rk)))

            def expected():
                r = da.concatenate_ds([single(p) for p in paths], axis=d0, **jopts)
                if keys is not None:
                    r = r.reindex_axis(keys, axis=d0)
                return pick(r)
            exp = core.guarded(expected)
        return {"ok": {"got": got, "expected": exp, "multi": True, "note": note}}

    def unlimited(self, c, paths):
        """write records one group after the other along an unlimited dimension; the axis is extended
        with the supplied labels"""
        a = core.build_array(c["array"], 0)
        p = paths[0]
        u = c.get("udim", 0)
        n = a.shape[u]
        chunks = c.get("chunks") or [[i] for i in range(n)]
        hows = c.get("hows") or [c.get("how", "list")] * len(chunks)
        final = a.copy()
        reads = []

        def key_of(ps, how):
            sel = list(ps) if how == "list" else slice(ps[0], ps[-1] + 1)
            return tuple(sel if k == u else slice(None) for k in range(a.ndim))

        def run():
            f = da.open_nc(p, mode="w")
            for k, ax in enumerate(a.axes):
                f.axes.append(ax.name if k == u else ax)      # str => unlimited dimension
            f.nc.createVariable("v", a.values.dtype, a.dims)
            for ps, how in zip(chunks, hows):
                # writing beyond the current end of the unlimited dimension extends the axis with the labels
                # supplied by the assigned DimArray
                key = key_of(ps, how)
                f["v"].ix[key] = a.ix[key]
                if c.get("interleave"):
                    sofar = tuple(slice(0, ps[-1] + 1) if k == u else slice(None) for k in range(a.ndim))
                    reads.append({"got": core.guarded(lambda: obs(f["v"].read())), "expected": {"ok": obs(a.ix[sofar])}})
            ow = c.get("overwrite")
            if ow:
                # existing records are assigned again: same labels, new values
                key = key_of(ow["pos"], "list")
                new = a.ix[key].copy()
                new.values[...] = (new.values + 500).astype(new.values.dtype)
                final.ix[key] = new.values
                if ow["mode"] == "position":
                    f["v"].ix[key] = new
                else:
                    f["v"].loc[{a.dims[u]: a.axes[u].values[ow["pos"]]}] = new
            f.close()
            return obs(da.read_nc(p, "v"))
        got = core.guarded(run)
        return {"ok": {"got": got, "expected": {"ok": obs(final)}, "reads": reads}}

    def request(self, c):
        if c["op"] == "read":
            cfg = c01.cfg_of(c)
            return {"op": "ondisk_history", "arrays": [core.lean_array(gen.clean(c["array"]), None)],
                    "steps": [{"kind": "read", "index": c["index"], "cfg": cfg}]}
        if c["op"] == "history":
            steps = []
            for st in self.plan(c):
                cfg = c01.cfg_of(st["case"])
                cfg["keepdims"] = False
                steps.append({"kind": st["case"]["kind"], "index": st["case"]["index"], "cfg": cfg, "rshape": st["rshape"],
                              "base": st["base"]})
            return {"op": "ondisk_history", "arrays": [core.lean_array(gen.clean(c["array"]), None)], "steps": steps}
        if c["op"] == "multi":
            return self.multi_request(c)
        if self.lean_unlimited(c):
            arr = c["array"]
            n0 = len(arr["axes"][0]["labels"])
            rec = int(np.prod([len(ax["labels"]) for ax in arr["axes"][1:]])) if len(arr["axes"]) > 1 else 1
            start = dict(arr, axes=[dict(arr["axes"][0], labels=[])] + arr["axes"][1:])
            steps = [{"kind": "record", "pos": i, "label": arr["axes"][0]["labels"][i], "base": i * rec, "n": rec} for i in range(n0)]
            return {"op": "ondisk_history", "arrays": [core.lean_array(gen.clean(start), None)], "steps": steps}
        return {"op": "union", "a": {"name": "x", "kind": "i", "labels": []}, "b": {"name": "x", "kind": "i", "labels": []}, "join": "outer"}

    # ------------------------------------------------------------ multi-file reads in the model (Lib/OnDiskMulti.lean)
    @staticmethod
    def lean_file(ds):
        """a Dataset that is written to a file, as the driver reads it (built variable by variable, then stored)"""
        arrs = []
        for k in ds.keys():
            a = ds[k]
            vals = np.asarray(a.values)
            nan = [int(i) for i in np.flatnonzero(np.isnan(vals.reshape(-1)))] if vals.dtype.kind == "f" else []
            arrs.append({"axes": [{"name": ax.name, "kind": core.ckind(ax.values.dtype.kind),
                                   "labels": [core.enc_label(v) for v in ax.values.tolist()], "attrs": []} for ax in a.axes],
                         "vkind": core.ckind(vals.dtype.kind), "attrs": [], "nan": nan})
        return {"keys": list(ds.keys()), "arrays": arrs, "attrs": []}

    def multi_request(self, c):
        with warnings.catch_warnings():
            warnings.simplefilter("ignore")
            dss, ks = self.multi_build(c)
            keys = self.multi_keys(c, dss)
        opts = c.get("opts") or {}
        names = c.get("names")
        r = {"op": "read_multi", "files": [self.lean_file(ds) for ds in dss],
             "names": None if isinstance(names, str) else names, "name": names if isinstance(names, str) else None,
             "axis": "file" if c["how"] == "stack" else c["ds"]["dims"][0],
             "align": bool(opts.get("align")), "sort": bool(opts.get("sort")), "join": opts.get("join") or "outer",
             "concatenate_only": bool(c.get("concatenate_only")),
             # the default keys are the file names without extension: file k of the list is written "@k" here
             "default_keys": [["s", "@%d" % i] for i in range(len(dss))]}
        if keys is not None:
            ka = np.asarray(keys)
            r["keys"] = [core.enc_label(v) for v in ka.tolist()]
            r["keykind"] = "O" if ka.dtype.kind in "US" else core.ckind(ka.dtype.kind)      # (an Axis holds strings as objects)
        idx = c.get("indices")
        if idx:
            r["index"] = {"dim": idx["dim"], "ix": idx["ix"],
                          "cfg": {"captured": "label", "indexing": idx["mode"], "toggle": False, "tol": None, "keepdims": False}}
        return r

    def multi_lean_vs_impl(self, c, io, ans):
        """correspondence: `OnDisk.readMulti` / `readMultiVar` against read_nc(list of files)"""
        lean = ans.get("lib")
        if not isinstance(lean, dict) or ("ok" not in lean and "err" not in lean):
            return ["lean.multi.no_answer"]
        got = io["ok"]["got"]
        names = c.get("names")
        idx = c.get("indices")
        if names is not None and idx:
            # OUTSIDE THE MIRROR (found by the thorough sweep, seed 31): with `names=` the library applies an index only to the
            # variables that have the indexed dimension, so an index along a dimension that NONE of the requested variables has is
            # never resolved (and an out-of-range position in one file goes unnoticed), whereas `OnDiskMulti.readFile` resolves the
            # index once on all of the file's axes and refuses. Such cases are decided by the per-file oracle alone.
            sel = [names] if isinstance(names, str) else list(names)
            if not any(idx["dim"] in c["ds"]["vars"][k]["dims"] for k in sel if k in c["ds"]["vars"]):
                return []
        if isinstance(names, str):
            lean = ans.get("libvar") or lean
        if "err" in got or "err" in lean:
            if ("err" in got) != ("err" in lean):
                return ["lean.multi.outcome"]
            return [] if got["err"] == lean["err"] else ["lean.multi.errclass"]
        with warnings.catch_warnings():
            warnings.simplefilter("ignore")
            dss, ks = self.multi_build(c)
        env = core.CellEnv([np.asarray(ds[k].values) for ds in dss for k in ds.keys()])
        g = got["ok"]
        default_keys = c["how"] == "stack" and c.get("keys") == "default"

        def labs(name, labels):
            if default_keys and name == "file":
                return [("s", "@%d" % i) for i in range(len(labels))]      # (that they name the files: `multi.default_keys`)
            return [lab_key(l) for l in labels]

        def cmp_var(gv, lv, tag):
            lv = core.lean_obs_to_canon(lv, env)
            if gv["dims"] != lv["dims"] or gv["shape"] != lv["shape"]:
                return [tag + ":dims"]
            if [(a["name"], labs(a["name"], a["labels"])) for a in gv["axes"]] != [(a["name"], labs(a["name"], a["labels"])) for a in lv["axes"]]:
                return [tag + ":labels"]
            if [c14rv(v) for v in gv["values"]] != [c14rv(v) for v in lv["values"]]:
                return [tag + ":values"]
            if [a["kind"] for a in gv["axes"] if a["labels"]] != [a["kind"] for a in lv["axes"] if a["labels"]]:
                return [tag + ":label_kind"]
            return []
        if isinstance(names, str):
            return cmp_var(g["vars"][names], lean["ok"], "lean.multi.array")
        lo = lean["ok"]
        if g["keys"] != lo["keys"]:
            return ["lean.multi.keys"]
        bad = []
        if g["dims"] != lo["dims"]:
            bad.append("lean.multi.dims")
        else:
            for ax in lo["axes"]:
                if labs(ax["name"], g["axes"][ax["name"]]["labels"]) != labs(ax["name"], ax["labels"]):
                    bad.append("lean.multi.axis:" + ax["name"])
        for k in g["keys"]:
            bad += cmp_var(g["vars"][k], lo["vars"][k], "lean.multi.var:" + k)
        return bad

    def lean_unlimited(self, c):
        """the mirror models one record after the other along the first dimension (float values)"""
        return (c["op"] == "unlimited" and c.get("udim", 0) == 0 and not c.get("overwrite") and c["array"].get("vkind", "f") == "f"
                and all(len(ps) == 1 for ps in c.get("chunks") or [[0]]))

    def lean_vs_impl(self, c, io, ans):
        """correspondence: the Lean on-disk model against the on-disk implementation"""
        bad = []
        if c["op"] == "multi" and "ok" in io:
            return self.multi_lean_vs_impl(c, io, ans)
        if "ok" not in io or "lib" not in ans or not isinstance(ans["lib"], list):
            return bad
        o = io["ok"]
        if c["op"] == "read":
            a = core.build_array(c["array"], 0)
            env = core.CellEnv([a.values])
            bad += ["lean.read." + x for x in self.cmp_lean(ans["lib"][0], o["got"], env)]
        elif c["op"] == "history":
            a = core.build_array(c["array"], 0)
            plan = self.plan(c)
            rhs = np.zeros(1000 * (len(plan) + 1))
            for st in plan:
                v = np.asarray(st["value"], dtype=float).reshape(-1)
                rhs[st["base"]:st["base"] + v.size] = v
            env = core.CellEnv([a.values], rhs=rhs)
            for k, (st, r, l) in enumerate(zip(plan, o["history"], ans["lib"])):
                if st["case"]["kind"] == "read":
                    bad += ["lean.step%d." % k + x for x in self.cmp_lean(l, r["got"], env)]
                elif ("err" in l) != ("err" in r["got"]) or ("err" in l and l["err"] != r["got"]["err"]):
                    bad.append("lean.step%d.outcome" % k)
            bad += ["lean.final." + x for x in self.cmp_lean({"ok": ans["final"]}, o["got"], env)]
        elif self.lean_unlimited(c):
            a = core.build_array(c["array"], 0)
            env = core.CellEnv([a.values], rhs=np.asarray(a.values, dtype=float).reshape(-1))
            if any("err" in l for l in ans["lib"]):
                bad.append("lean.record.outcome")
            else:
                bad += ["lean.final." + x for x in self.cmp_lean({"ok": ans["final"]}, o["got"], env)]
        return bad

    def cmp_lean(self, l, got, env):
        if "err" in l or "err" in got:
            if ("err" in l) != ("err" in got):
                return ["outcome"]
            return [] if l["err"] == got["err"] else ["errclass"]
        lo = core.lean_obs_to_canon(l["ok"], env)
        lo["scalar"] = got["ok"].get("scalar", False)
        return core.diff_obs(got, {"ok": lo}, keys=("dims", "shape", "axes", "values"))

    def judge(self, c, io, ans):
        prop_bad = []
        if "err" in io:
            prop_bad.append("outcome:" + io["err"])
        else:
            got, exp = io["ok"]["got"], io["ok"]["expected"]
            if io["ok"].get("multi"):
                if ("err" in got) != ("err" in exp):
                    prop_bad.append("multi.outcome")
                elif "ok" in got and ("array" in got["ok"]) != ("array" in exp["ok"]):
                    prop_bad.append("multi.result_type")
                elif "ok" in got and "keys" not in got["ok"]:
                    # a single name: arrays
                    if not same({"ok": got["ok"]["array"]}, {"ok": exp["ok"]["array"]}):
                        prop_bad.append("multi.array")
                elif "ok" in got:
                    g, e = got["ok"], exp["ok"]
                    if io["ok"].get("note", {}).get("default_keys_ok") is False:
                        prop_bad.append("multi.default_keys")
                    if g["keys"] != e["keys"] or g["dims"] != e["dims"]:
                        prop_bad.append("multi.structure")
                    else:
                        for k in g["keys"]:
                            # (a variable that is / is reduced to one element goes through a bare scalar in the in-memory
                            #  Dataset.take and is re-wrapped: the element and the variable's metadata - kept on both
                            #  sides - are compared, the dtype of the wrapper (str: object from the file, <U from memory) is not)
                            reduced = g["vars"][k]["shape"] == []
                            if not same({"ok": g["vars"][k]}, {"ok": e["vars"][k]}, meta=not reduced):
                                prop_bad.append("multi.var:" + k)
                            elif reduced and g["vars"][k].get("attrs_py") != e["vars"][k].get("attrs_py"):
                                prop_bad.append("multi.var:" + k)
                        # metadata of the dataset and of the axes that remain
                        if g["attrs"] != e["attrs"]:
                            prop_bad.append("multi.dataset_attrs")
                        if {d: ax["attrs"] for d, ax in g["axes"].items()} != {d: ax["attrs"] for d, ax in e["axes"].items()}:
                            prop_bad.append("multi.axes_attrs")
                        if {d: [lab_key(l) for l in ax["labels"]] for d, ax in g["axes"].items()} != {d: [lab_key(l) for l in ax["labels"]] for d, ax in e["axes"].items()}:
                            prop_bad.append("multi.axes_labels")
            elif not same(got, exp):
                prop_bad.append("ondisk_differs_from_memory")
            # the reference is what was written (a loss common to the full and the partial read would go unseen otherwise)
            ld = io["ok"].get("loaded")
            if isinstance(ld, dict) and "got" in ld and not same(ld["got"], ld["expected"]):
                prop_bad.append("loaded_differs_from_written")
            if io["ok"].get("loaded_bad"):
                prop_bad.append("loaded_differs_from_written")
            for k, r in enumerate(io["ok"].get("reads", [])):
                if not same(r["got"], r["expected"]):
                    prop_bad.append("unlimited.read_after_append")
            if c.get("nocoord") and not same({"ok": io["ok"]["loaded"]}, {"ok": io["ok"]["input"]}, meta=False):
                prop_bad.append("nocoord.loaded")          # default range 0 .. n-1 along the dimensions without a coordinate variable
            for k, r in enumerate(io["ok"].get("history", [])):
                g, e = r["got"], r["expected"]
                if c["steps"][k]["kind"] == "read":
                    if not same(g, e):
                        prop_bad.append("history.read%d" % k)
                elif ("err" in g) != ("err" in e) or ("err" in g and g["err"] != e["err"]):
                    # NumPy does not bounds-check integer lists when another dimension selects nothing; netCDF4
                    # does.  Nothing is written either way, so this is not a difference in what is stored.
                    if "err" in g and g["err"] == "index" and "ok" in e and r["sel"] is not None and 0 in r["sel"]:
                        continue
                    prop_bad.append("history.write%d.outcome" % k)
        bad = [] if prop_bad else self.lean_vs_impl(c, io, ans)
        if not prop_bad and not bad:
            return None
        return {"kind": "P" if prop_bad else "M", "differs": sorted(set(prop_bad + bad)), "msg": io.get("msg"),
                "got": io.get("ok", {}).get("got") if "ok" in io else None, "expected": io.get("ok", {}).get("expected") if "ok" in io else None}

    def known(self, c, io, ans, mm, open_findings):
        return None

    def nontrivial(self, c):
        if "array" in c:
            return len(c["array"]["axes"]) >= 1
        return True

    def features(self, c, io):
        f = {"outcome": "err:" + io["err"] if "err" in io else "ok", "op": c["op"]}
        if c["op"] == "history":
            f["nsteps"] = len(c["steps"]); f["rank"] = len(c["array"]["axes"])
            for st in c["steps"]:
                f["step:" + st["kind"] + ":" + st["mode"]] = 1
                if st["kind"] == "write":
                    f["rhs:" + st["rhs"] + (":relabelled" if st.get("relabel") and st["rhs"] == "dimarray" else "")] = 1
                for k in st["_ixkinds"]:
                    f["ix:" + k] = 1
            if "ok" in io:
                f["write_errors"] = sum(1 for r in io["ok"]["history"] if "err" in r["got"])
        if c["op"] in ("read", "write"):
            f["spelling"] = c["spelling"]; f["mode"] = c["mode"]; f["rank"] = len(c["array"]["axes"]); f["via"] = c.get("via")
            if "ok" in io:
                f["both_error"] = "err" in io["ok"]["got"]
            for k in c.get("_ixkinds", []):
                f["ix:" + k] = 1
        if c["op"] == "history":
            f["coordinate_variables"] = "missing:%d" % len(c["nocoord"]) if c.get("nocoord") else "all"
        if c["op"] == "read":
            f["vkind"] = c["array"].get("vkind", "f"); f["keepdims"] = bool(c.get("keepdims"))
            f["attrs"] = bool(c["array"].get("attrs_py")) or any(ax.get("attrs_py") for ax in c["array"]["axes"])
        if c["op"] == "unlimited":
            arr = c["array"]
            u = c.get("udim", 0)
            f["unlimited.dim"] = u; f["rank"] = len(arr["axes"]); f["unlimited.labels"] = arr["axes"][u]["kind"]
            f["unlimited.values"] = arr.get("vkind", "f")
            f["unlimited.records"] = len(arr["axes"][u]["labels"])
            f["unlimited.max_records_per_write"] = max(len(ps) for ps in c.get("chunks") or [[0]])
            for h in c.get("hows") or [c.get("how", "list")]:
                f["unlimited.index:" + h] = 1
            f["unlimited.overwrite"] = c["overwrite"]["mode"] if c.get("overwrite") else "none"
            f["unlimited.interleaved_reads"] = bool(c.get("interleave"))
            f["unlimited.straddling_write"] = bool(c.get("straddle"))
            f["unlimited.mirror"] = self.lean_unlimited(c)
        if c["op"] == "multi":
            f["multi.names"] = "all" if c.get("names") is None else ("str" if isinstance(c["names"], str) else "list")
            f["multi.files"] = "glob" if c.get("glob") else "list"
            f["multi.keys"] = "given" if c.get("keys") is None and c["how"] == "stack" else ("none" if c.get("keys") is None else (c["keys"] if isinstance(c["keys"], str) else "reindex"))
            f["multi.indices"] = c["indices"]["mode"] + ":" + c["indices"]["_ixkind"] if c.get("indices") else "none"
            f["multi.concatenate_only"] = bool(c.get("concatenate_only"))
            if "ok" in io:
                f["multi.outcome"] = "err" if "err" in io["ok"]["got"] else "ok"
            f["how"] = c["how"]
            f["multi.options"] = "none" if not c.get("opts") else ",".join("%s=%s" % kv for kv in sorted(c["opts"].items()))
            f["multi.secondary"] = "equal" if not c.get("secondary") else "varied"
        if c["op"] == "dsread":
            f["mode"] = c["mode"]; f["ix:" + c["_ixkind"]] = 1
            f["names"] = "all" if c.get("names") is None else ("str" if isinstance(c["names"], str) else "list")
            f["via"] = c.get("via", "read_nc"); f["tol"] = c.get("tol") is not None; f["keepdims"] = bool(c.get("keepdims"))
            for v in c["ds"]["vars"].values():
                f["vkind:" + v["vkind"]] = 1
            if "ok" in io:
                f["both_error"] = "err" in io["ok"]["got"]
        return f

    def size(self, c):
        return len(json.dumps(c))

    def snippet(self, c):
        return ("import sys; sys.path.insert(0, '/verif/harness'); import json, core; from props.c20 import PROP; "
                "case = json.load(open(REPLAY))['case']; print(PROP.impl(case))")


PROP = C20()

"""C20 - on-disk netCDF access is equivalent to in-memory access (against the vendored stand-in)."""
import copy, itertools, json, math, os, warnings
from fractions import Fraction
import numpy as np
import core, gen
from core import da, Axis, DimArray, Dataset
from .base import Prop
from .c06 import lab_key
from . import c01, c02, c19

NCDIR = os.path.join(core.WORK, "nc")


def obs(r):
    return core.obs_array(r)


class Handle(object):
    """the on-disk variable with the read / write entry points under the names call_take / call_put use"""
    def __init__(self, h):
        self.h = h

    def __getitem__(self, k):
        return self.h[k]

    def __setitem__(self, k, v):
        self.h[k] = v

    def take(self, indices=None, **kw):
        return self.h.read(indices, **kw)

    def put(self, indices, values, inplace=True, **kw):
        kw.pop("cast", None)
        return self.h.write(indices, values, **kw)

    def sel(self, **kw):
        return self.h.sel(**kw)

    def isel(self, **kw):
        return self.h.isel(**kw)

    loc = property(lambda self: self.h.loc)
    ix = property(lambda self: self.h.ix)
    iloc = property(lambda self: self.h.iloc)
    nloc = property(lambda self: self.h.nloc)


def same(x, y):
    if ("err" in x) or ("err" in y):
        return ("err" in x) and ("err" in y) and x["err"] == y["err"]
    a, b = x["ok"], y["ok"]
    for k in ("dims", "shape", "values"):
        if a[k] != b[k]:
            return False
    return [(ax["name"], [lab_key(l) for l in ax["labels"]]) for ax in a["axes"]] == [(ax["name"], [lab_key(l) for l in ax["labels"]]) for ax in b["axes"]]


class C20(Prop):
    id = "C20"
    theorems = ["sim_store", "load_store", "ondisk_read_eq_take", "ncPut_spec", "ncPut_length", "ondisk_write_eq_put", "ondisk_write_error", "ondisk_history", "ondisk_history_read", "writeRecord_append"]
    rule = ("files written through dimarray (vendored netCDF4 stand-in): a variable of rank 0-3 with int/float/str labels in any "
            "order is read through the on-disk handle - open_nc(f)[name][idx], .ix / .loc / .sel / .isel, read_nc(f, name, "
            "indices=, indexing=, tol=) - with every index form of C01/C02 (scalars, lists, masks, slices, dicts, tolerance) in "
            "label and position mode and compared with the same index on the fully loaded array; on-disk assignments followed "
            "by a read are compared with the same assignment in memory; writing beyond the end of an unlimited dimension; lists "
            "of 2-3 files read at once (new axis / existing axis, keys) against stack_ds / concatenate_ds of the single reads. "
            "Non-trivial = rank >= 1; distinct = canonical JSON")
    assumptions = ["PARTIAL: the vendored stand-in's fidelity to netCDF4-python / libnetcdf (orthogonal indexing with "
                   "unsorted / repeated integer sequences, 0-d variables, unlimited dimensions) is assumed"]

    def mirrors(self):
        import sys as _s
        ncio = _s.modules.get("dimarray.io.nc")
        if not ncio:
            return {}
        return {"DimArrayOnDisk.read": ncio.DimArrayOnDisk.read, "DimArrayOnDisk.write": ncio.DimArrayOnDisk.write,
                "_getvalues_ortho": ncio.DimArrayOnDisk._getvalues_ortho, "_getaxes_ortho": ncio.DimArrayOnDisk._getaxes_ortho,
                "AxisOnDisk.__getitem__": ncio.AxisOnDisk.__getitem__, "DatasetOnDisk.read": ncio.DatasetOnDisk.read,
                "read_nc": ncio.read_nc, "_read_multinc": ncio._read_multinc}

    def gen(self, rng, tier):
        n = 600 if tier == "quick" else 15000
        for i in range(n):
            r = rng.random()
            if r < 0.6:
                base = c01.PROP.gen_case(rng, tier) if rng.random() < 0.7 else next(c02.PROP.nd_cases(rng, 1))
                if base["spelling"] in ("getitem_position_option", "ix_from_position") or base["option"] != "label":
                    base["option"] = "label"
                    if base["spelling"] == "getitem_position_option":
                        base["spelling"] = "ix"
                    if base["spelling"] == "ix_from_position":
                        base["spelling"] = "loc"
                    if base["spelling"] == "take" and base["mode"] == "position":
                        base["spelling"] = "take_position"
                if base["spelling"] in ("take_dict_pos",):
                    base["spelling"] = "take_dict"
                    for it in base["index"]["items"]:
                        if it[0][0] == "pos":
                            it[0] = ["name", base["array"]["axes"][it[0][1]]["name"]]
                base["array"]["vkind"] = rng.choice(["f", "i"])
                if any(len(ax["labels"]) == 0 for ax in base["array"]["axes"]):
                    continue
                base.pop("keepdims", None)
                c = dict(base, op="read", via=rng.choice(["handle", "handle", "read_nc"]), seed=i)
                yield c
            elif r < 0.8:
                yield self.gen_history(rng, i)
            elif r < 0.84:
                dd = c19.gen_ds(rng, netcdf3=True)
                if not dd["dims"] or not dd["vars"]:
                    continue
                for v in dd["vars"].values():
                    v["vkind"] = "f"
                d = rng.choice(dd["dims"])
                ax = dd["axes"][d]
                pos = rng.random() < 0.4
                ix, kind = c01.PROP.gen_ix_pos(rng, len(ax["labels"])) if pos else c01.PROP.gen_ix_label(rng, dict(ax, _order="?"))
                names = rng.choice([None, "list", "list"])
                having = sorted(k for k, v in dd["vars"].items() if d in v["dims"])
                if not having:
                    continue
                yield {"op": "dsread", "ds": dd, "dim": d, "ix": ix, "mode": "position" if pos else "label", "_ixkind": kind,
                       # (the listed variables include one that has the indexed dimension: otherwise the loaded
                       #  Dataset does not have the dimension at all and there is nothing to compare with)
                       "names": None if names is None else sorted(set(rng.sample(sorted(dd["vars"]), rng.randint(1, len(dd["vars"]))) + [rng.choice(having)])),
                       "seed": i}
            elif r < 0.88:
                arr = gen.rand_array(rng, rank=rng.choice([1, 2, 2, 3]), maxn=3, minn=1)
                arr["vkind"] = "f"
                u = rng.randrange(len(arr["axes"]))
                arr["axes"][u]["kind"] = "i"
                arr["axes"][u]["labels"] = [["n", 2000 + 3 * k, 1] for k in range(len(arr["axes"][u]["labels"]))]
                yield {"op": "unlimited", "array": gen.clean(arr), "extra": rng.randint(1, 2), "udim": u,
                       "how": rng.choice(["list", "list", "slice"]), "seed": i}
            else:
                dd = c19.gen_ds(rng, netcdf3=True)
                if not dd["dims"] or not dd["vars"]:
                    continue
                for v in dd["vars"].values():
                    v["vkind"] = "f"
                    v["attrs_py"] = {}
                    if not v["dims"] or dd["dims"][0] not in v["dims"]:
                        v["dims"] = [dd["dims"][0]] + [d for d in v["dims"] if d != dd["dims"][0]]
                if not dd["vars"]:
                    continue
                dd["axes"] = {d: dd["axes"][d] for d in dd["dims"] if any(d in v["dims"] for v in dd["vars"].values())}
                dd["dims"] = list(dd["axes"])
                for ax in dd["axes"].values():
                    ax["attrs_py"] = {}
                dd["attrs"] = {}
                c = {"op": "multi", "ds": dd, "n": rng.choice([2, 3]), "how": rng.choice(["stack", "concat"]), "seed": i}
                if rng.random() < 0.6:
                    # align / sort / join options, on files whose secondary axes are equal, permuted or partly different
                    c["opts"] = {"align": rng.random() < 0.7, "sort": rng.random() < 0.4}
                    if rng.random() < 0.7:
                        c["opts"]["join"] = rng.choice(["inner", "inner", "outer"])
                    cand = dd["dims"][1:] if c["how"] == "concat" else dd["dims"]
                    if cand and rng.random() < 0.85:
                        d1 = rng.choice(cand)
                        ax = dd["axes"][d1]
                        sec = []
                        for k in range(c["n"]):
                            labs = list(ax["labels"])
                            m = rng.choice(["same", "permute", "replace", "drop", "add"])
                            if m == "permute":
                                rng.shuffle(labs)
                            elif m == "replace" and labs:
                                labs[rng.randrange(len(labs))] = gen.absent_label(rng, dict(ax, labels=labs))
                            elif m == "drop" and len(labs) > 1:
                                labs.pop(rng.randrange(len(labs)))
                            elif m == "add":
                                labs.insert(rng.randrange(len(labs) + 1), gen.absent_label(rng, dict(ax, labels=labs)))
                            sec.append(labs)
                        c["secondary"] = {"dim": d1, "labels": sec}
                yield c

    def gen_history(self, rng, i):
        """a stored variable and 1-4 on-disk assignments / reads through the handle"""
        arr = gen.clean(gen.rand_array(rng, rank=rng.choice([1, 2, 2, 3]), maxn=4, minn=1))
        arr["vkind"] = "f"
        steps = []
        for _ in range(rng.randint(1, 4)):
            pos = rng.random() < 0.4
            ixs, kinds = [], []
            for ax in arr["axes"]:
                ix, k = c01.PROP.gen_ix_pos(rng, len(ax["labels"])) if pos else c01.PROP.gen_ix_label(rng, ax)
                ixs.append(ix); kinds.append(k)
            st = {"kind": "write" if rng.random() < 0.6 else "read", "option": "label",
                  "spelling": rng.choice(["ix", "iloc"]) if pos else rng.choice(["getitem", "loc"]),
                  "mode": "position" if pos else "label", "as_array": rng.random() < 0.3,
                  "index": {"form": "tuple", "ix": ixs}, "_ixkinds": kinds,
                  "rhs": rng.choice(["scalar", "scalar", "array", "array_bcast"])}
            if not pos and rng.random() < 0.3 and any(ax["kind"] in "if" and ax["labels"] for ax in arr["axes"]):
                # nearest-label access with a tolerance: requests a little off the stored labels
                st["spelling"] = "take"
                st["tol"] = rng.choice([["fin", 1, 2], ["fin", 1, 4], ["inf"]])
                st["as_array"] = False
                for d, ax in enumerate(arr["axes"]):
                    if ax["kind"] in "if" and ax["labels"] and rng.random() < 0.8:
                        def near():
                            b = rng.choice(ax["labels"])
                            v = Fraction(b[1], b[2]) + Fraction(rng.choice([-3, -1, 0, 1, 2, 5]), 8)
                            return ["n", v.numerator, v.denominator]
                        ixs[d] = ["sc", near()] if rng.random() < 0.5 else ["li", [near() for _ in range(rng.randint(1, 3))]]
                        kinds[d] = "tol"
            if "tol" not in st and rng.random() < 0.25:
                # a single-dimension index given with the axis= keyword (by name or by position)
                d = rng.randrange(len(arr["axes"]))
                st["spelling"] = "take_position" if pos else "take"
                st["index"] = {"form": "axis", "ix": ixs[d], "axis": rng.choice([["name", arr["axes"][d]["name"]], ["pos", d], ["pos", d - len(arr["axes"])]])}
                st["_ixkinds"] = [kinds[d]]
            steps.append(st)
        return {"op": "history", "array": arr, "steps": steps, "seed": i}

    def plan(self, c):
        """per step: the case handed to call_take / call_put, the assigned value and its shape, the offset of
        its cells in the right-hand-side vector (the selection shape depends on the axes only, which no
        assignment changes)"""
        a = core.build_array(c["array"], 0)
        out = []
        for k, st in enumerate(c["steps"]):
            sc = dict(copy.deepcopy(st), array=c["array"])
            base = 1000 * k
            value, rshape, sel = base + 0.5, None, None
            if st["kind"] == "write":
                try:
                    sel = tuple(np.shape(c01.call_take(a, copy.deepcopy(sc))))
                except Exception:
                    sel = None
                if sel and st["rhs"] != "scalar":
                    shp = sel
                    if st["rhs"] == "array_bcast":
                        shp = sel[1:] if len(sel) > 1 else (1,)
                    n = int(np.prod(shp))
                    if n > 0 or st["rhs"] == "array":
                        value = (np.arange(n, dtype=float) + base + 0.5).reshape(shp)
                        rshape = list(shp)
            out.append({"case": sc, "value": value, "rshape": rshape, "base": base, "sel": sel})
        return out

    def history(self, c, paths):
        a = core.build_array(c["array"], 0)
        p = self.path(c); paths.append(p)
        a.write_nc(p, "v", mode="w")
        mem = da.read_nc(p, "v")
        f = da.open_nc(p, mode="a")
        h = Handle(f["v"])
        res = []
        for st in self.plan(c):
            sc = st["case"]
            if sc["kind"] == "read":
                exp = core.guarded(lambda: obs(c01.call_take(mem, copy.deepcopy(sc))))
                got = core.guarded(lambda: obs(c01.call_take(h, copy.deepcopy(sc))))
            else:
                def w(target):
                    c01.call_put(target, dict(copy.deepcopy(sc), inplace=True, cast=False), st["value"])
                    return None
                exp = core.guarded(lambda: w(mem))
                got = core.guarded(lambda: w(h))
            res.append({"got": got, "expected": exp, "sel": st["sel"]})
        f.close()
        return {"ok": {"history": res, "got": core.guarded(lambda: obs(da.read_nc(p, "v"))), "expected": {"ok": obs(mem)},
                       "input": obs(a)}}

    # ------------------------------------------------------------ implementation side
    def path(self, c, k=0):
        os.makedirs(NCDIR, exist_ok=True)
        return os.path.join(NCDIR, "c20_%d_%d_%d.nc" % (os.getpid(), c["seed"], k))

    def impl(self, c):
        with warnings.catch_warnings():
            warnings.simplefilter("ignore")
            paths = []
            try:
                if c["op"] in ("read", "write"):
                    a = core.build_array(c["array"], 0)
                    p = self.path(c); paths.append(p)
                    a.write_nc(p, "v", mode="w")
                    if c["op"] == "read":
                        mem = da.read_nc(p, "v")
                        c2 = copy.deepcopy(c)
                        exp = core.guarded(lambda: obs(c01.call_take(mem, c2)))
                        if c["via"] == "handle":
                            f = da.open_nc(p)
                            got = core.guarded(lambda: obs(c01.call_take(Handle(f["v"]), copy.deepcopy(c))))
                            f.close()
                        else:
                            k, kw = c01.make_key(copy.deepcopy(c))
                            mode = "position" if c["mode"] == "position" else "label"
                            if c["spelling"] == "nloc":
                                kw["tol"] = np.inf
                            if k[0] == "axis":
                                got = core.guarded(lambda: obs(da.read_nc(p, "v", indices=k[1], axis=k[2], indexing=mode, **kw)))
                            else:
                                got = core.guarded(lambda: obs(da.read_nc(p, "v", indices=k[1], indexing=mode, **kw)))
                        return {"ok": {"got": got, "expected": exp}}
                    # write through the handle, then read everything back
                    mem = da.read_nc(p, "v")
                    value = 77.5
                    c2 = dict(copy.deepcopy(c), inplace=True, cast=False)
                    exp = core.guarded(lambda: obs(c01.call_put(mem, c2, value)))
                    f = da.open_nc(p, mode="a")

                    def dowrite():
                        c01.call_put(Handle(f["v"]), dict(copy.deepcopy(c), inplace=True, cast=False), value)
                        return True
                    w = core.guarded(dowrite)
                    f.close()
                    got = core.guarded(lambda: obs(da.read_nc(p, "v"))) if "ok" in w else w
                    return {"ok": {"got": got, "expected": exp}}
                if c["op"] == "history":
                    return self.history(c, paths)
                if c["op"] == "dsread":
                    ds = c19.build_ds(c["ds"])
                    p = self.path(c); paths.append(p)
                    ds.write_nc(p)
                    key = c01.py_index(c["ix"], {"kind": "i"} if c["mode"] == "position" else c["ds"]["axes"][c["dim"]])
                    got = core.guarded(lambda: c19.obs_dataset(da.read_nc(p, c["names"], indices={c["dim"]: key}, indexing=c["mode"])))
                    mem = da.read_nc(p, c["names"])
                    exp = core.guarded(lambda: c19.obs_dataset(mem.take(indices={c["dim"]: key}, indexing=c["mode"])))
                    return {"ok": {"got": got, "expected": exp, "multi": True}}
                if c["op"] == "unlimited":
                    p = self.path(c); paths.append(p)
                    return self.unlimited(c, paths)
                if c["op"] == "multi":
                    dds = [copy.deepcopy(c["ds"]) for _ in range(c["n"])]
                    if c.get("secondary"):
                        for ddi, labs in zip(dds, c["secondary"]["labels"]):
                            ddi["axes"][c["secondary"]["dim"]]["labels"] = labs
                    dss = [c19.build_ds(ddi, base=10 * i) for i, ddi in enumerate(dds)]
                    opts = dict(c.get("opts") or {})
                    d0 = c["ds"]["dims"][0]
                    if c["how"] == "concat":
                        # files hold consecutive pieces along the first dimension: relabel so that labels differ
                        for i, ds in enumerate(dss):
                            ax = ds.axes[d0]
                            if ax.values.dtype.kind in "if":
                                ax[:] = ax.values + 100 * i
                    for i, ds in enumerate(dss):
                        p = self.path(c, i); paths.append(p)
                        ds.write_nc(p)
                    singles = [da.read_nc(p) for p in paths]
                    if c["how"] == "stack":
                        keys = ["f%d" % i for i in range(c["n"])]
                        got = core.guarded(lambda: c19.obs_dataset(da.read_nc(list(paths), axis="file", keys=keys, **opts)))
                        exp = core.guarded(lambda: c19.obs_dataset(da.stack_ds(singles, axis="file", keys=keys, **opts)))
                    else:
                        got = core.guarded(lambda: c19.obs_dataset(da.read_nc(list(paths), axis=d0, **opts)))
                        exp = core.guarded(lambda: c19.obs_dataset(da.concatenate_ds(singles, axis=d0, **opts)))
                    return {"ok": {"got": got, "expected": exp, "multi": True}}
            finally:
                for p in paths:
                    try:
                        os.remove(p)
                    except OSError:
                        pass

    def unlimited(self, c, paths):
        """write slices one after the other along an unlimited first dimension; the axis is extended
        with the supplied labels"""
        a = core.build_array(c["array"], 0)
        p = paths[0]
        u = c.get("udim", 0)

        def run():
            f = da.open_nc(p, mode="w")
            for k, ax in enumerate(a.axes):
                f.axes.append(ax.name if k == u else ax)      # str => unlimited dimension
            f.nc.createVariable("v", float, a.dims)
            n = a.shape[u]
            for i in range(n):
                # writing beyond the current end of the unlimited dimension extends the axis with the labels
                # supplied by the assigned DimArray
                sel = [i] if c.get("how", "list") == "list" else slice(i, i + 1)
                key = tuple(sel if k == u else slice(None) for k in range(a.ndim))
                f["v"].ix[key] = a.ix[key]
            f.close()
            return obs(da.read_nc(p, "v"))
        got = core.guarded(run)
        return {"ok": {"got": got, "expected": {"ok": obs(a)}}}

    def request(self, c):
        if c["op"] == "read":
            cfg = c01.cfg_of(c)
            return {"op": "ondisk_history", "arrays": [core.lean_array(gen.clean(c["array"]), None)],
                    "steps": [{"kind": "read", "index": c["index"], "cfg": cfg}]}
        if c["op"] == "history":
            steps = []
            for st in self.plan(c):
                cfg = c01.cfg_of(st["case"])
                cfg["keepdims"] = False
                steps.append({"kind": st["case"]["kind"], "index": st["case"]["index"], "cfg": cfg, "rshape": st["rshape"],
                              "base": st["base"]})
            return {"op": "ondisk_history", "arrays": [core.lean_array(gen.clean(c["array"]), None)], "steps": steps}
        if c["op"] == "unlimited" and c.get("udim", 0) == 0:
            arr = c["array"]
            n0 = len(arr["axes"][0]["labels"])
            rec = int(np.prod([len(ax["labels"]) for ax in arr["axes"][1:]])) if len(arr["axes"]) > 1 else 1
            start = dict(arr, axes=[dict(arr["axes"][0], labels=[])] + arr["axes"][1:])
            steps = [{"kind": "record", "pos": i, "label": arr["axes"][0]["labels"][i], "base": i * rec, "n": rec} for i in range(n0)]
            return {"op": "ondisk_history", "arrays": [core.lean_array(gen.clean(start), None)], "steps": steps}
        return {"op": "union", "a": {"name": "x", "kind": "i", "labels": []}, "b": {"name": "x", "kind": "i", "labels": []}, "join": "outer"}

    def lean_vs_impl(self, c, io, ans):
        """correspondence: the Lean on-disk model against the on-disk implementation"""
        bad = []
        if "ok" not in io or "lib" not in ans or not isinstance(ans["lib"], list):
            return bad
        o = io["ok"]
        if c["op"] == "read":
            a = core.build_array(c["array"], 0)
            env = core.CellEnv([a.values])
            bad += ["lean.read." + x for x in self.cmp_lean(ans["lib"][0], o["got"], env)]
        elif c["op"] == "history":
            a = core.build_array(c["array"], 0)
            plan = self.plan(c)
            rhs = np.zeros(1000 * (len(plan) + 1))
            for st in plan:
                v = np.asarray(st["value"], dtype=float).reshape(-1)
                rhs[st["base"]:st["base"] + v.size] = v
            env = core.CellEnv([a.values], rhs=rhs)
            for k, (st, r, l) in enumerate(zip(plan, o["history"], ans["lib"])):
                if st["case"]["kind"] == "read":
                    bad += ["lean.step%d." % k + x for x in self.cmp_lean(l, r["got"], env)]
                elif ("err" in l) != ("err" in r["got"]) or ("err" in l and l["err"] != r["got"]["err"]):
                    bad.append("lean.step%d.outcome" % k)
            bad += ["lean.final." + x for x in self.cmp_lean({"ok": ans["final"]}, o["got"], env)]
        elif c["op"] == "unlimited" and c.get("udim", 0) == 0:
            a = core.build_array(c["array"], 0)
            env = core.CellEnv([a.values], rhs=np.asarray(a.values, dtype=float).reshape(-1))
            if any("err" in l for l in ans["lib"]):
                bad.append("lean.record.outcome")
            else:
                bad += ["lean.final." + x for x in self.cmp_lean({"ok": ans["final"]}, o["got"], env)]
        return bad

    def cmp_lean(self, l, got, env):
        if "err" in l or "err" in got:
            if ("err" in l) != ("err" in got):
                return ["outcome"]
            return [] if l["err"] == got["err"] else ["errclass"]
        lo = core.lean_obs_to_canon(l["ok"], env)
        lo["scalar"] = got["ok"].get("scalar", False)
        return core.diff_obs(got, {"ok": lo}, keys=("dims", "shape", "axes", "values"))

    def judge(self, c, io, ans):
        prop_bad = []
        if "err" in io:
            prop_bad.append("outcome:" + io["err"])
        else:
            got, exp = io["ok"]["got"], io["ok"]["expected"]
            if io["ok"].get("multi"):
                if ("err" in got) != ("err" in exp):
                    prop_bad.append("multi.outcome")
                elif "ok" in got:
                    g, e = got["ok"], exp["ok"]
                    if g["keys"] != e["keys"] or g["dims"] != e["dims"]:
                        prop_bad.append("multi.structure")
                    else:
                        for k in g["keys"]:
                            if not same({"ok": g["vars"][k]}, {"ok": e["vars"][k]}):
                                prop_bad.append("multi.var:" + k)
            elif not same(got, exp):
                prop_bad.append("ondisk_differs_from_memory")
            for k, r in enumerate(io["ok"].get("history", [])):
                g, e = r["got"], r["expected"]
                if c["steps"][k]["kind"] == "read":
                    if not same(g, e):
                        prop_bad.append("history.read%d" % k)
                elif ("err" in g) != ("err" in e) or ("err" in g and g["err"] != e["err"]):
                    # NumPy does not bounds-check integer lists when another dimension selects nothing; netCDF4
                    # does.  Nothing is written either way, so this is not a difference in what is stored.
                    if "err" in g and g["err"] == "index" and "ok" in e and r["sel"] is not None and 0 in r["sel"]:
                        continue
                    prop_bad.append("history.write%d.outcome" % k)
        bad = [] if prop_bad else self.lean_vs_impl(c, io, ans)
        if not prop_bad and not bad:
            return None
        return {"kind": "P" if prop_bad else "M", "differs": sorted(set(prop_bad + bad)), "msg": io.get("msg"),
                "got": io.get("ok", {}).get("got") if "ok" in io else None, "expected": io.get("ok", {}).get("expected") if "ok" in io else None}

    def known(self, c, io, ans, mm, open_findings):
        return None

    def nontrivial(self, c):
        if "array" in c:
            return len(c["array"]["axes"]) >= 1
        return True

    def features(self, c, io):
        f = {"outcome": "err:" + io["err"] if "err" in io else "ok", "op": c["op"]}
        if c["op"] == "history":
            f["nsteps"] = len(c["steps"]); f["rank"] = len(c["array"]["axes"])
            for st in c["steps"]:
                f["step:" + st["kind"] + ":" + st["mode"]] = 1
                if st["kind"] == "write":
                    f["rhs:" + st["rhs"]] = 1
                for k in st["_ixkinds"]:
                    f["ix:" + k] = 1
            if "ok" in io:
                f["write_errors"] = sum(1 for r in io["ok"]["history"] if "err" in r["got"])
        if c["op"] in ("read", "write"):
            f["spelling"] = c["spelling"]; f["mode"] = c["mode"]; f["rank"] = len(c["array"]["axes"]); f["via"] = c.get("via")
            if "ok" in io:
                f["both_error"] = "err" in io["ok"]["got"]
            for k in c.get("_ixkinds", []):
                f["ix:" + k] = 1
        if c["op"] == "multi":
            f["how"] = c["how"]
            f["multi.options"] = "none" if not c.get("opts") else ",".join("%s=%s" % kv for kv in sorted(c["opts"].items()))
            f["multi.secondary"] = "equal" if not c.get("secondary") else "varied"
        if c["op"] == "dsread":
            f["mode"] = c["mode"]; f["ix:" + c["_ixkind"]] = 1; f["names"] = "all" if c["names"] is None else "list"
            if "ok" in io:
                f["both_error"] = "err" in io["ok"]["got"]
        return f

    def size(self, c):
        return len(json.dumps(c))

    def snippet(self, c):
        return ("import sys; sys.path.insert(0, '/verif/harness'); import json, core; from props.c20 import PROP; "
                "case = json.load(open(REPLAY))['case']; print(PROP.impl(case))")


PROP = C20()

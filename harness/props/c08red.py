"""C08 (extension) - what a reduction computes inside a fibre: concrete data (small integers, dyadic rationals, NaN, +inf,
-inf) evaluated by the concrete Lean model Lib/Reduce.lean (driver op "redx") and compared exactly with the implementation;
plus an oracle written from the property text: the skipna result is the same function on the fibre without its NaNs."""
import math, warnings
from fractions import Fraction
import numpy as np
import core, gen
from core import DimArray

RED = ["sum", "prod", "mean", "min", "max", "ptp", "all", "any", "median", "var"]
ARG = ["argmin", "argmax"]
CUM = ["cumsum", "cumprod"]
# std needs a square root: the driver evaluates the model's var and the harness compares sqrt(var) within 1e-12 relative
XFNS = RED + ARG + CUM + ["std"]

# NumPy's own nanargmin / nanargmax (the functions _get_func selects, and the reference the property names: "equal NumPy's"):
# on a fibre whose non-NaN cells are all +inf and that holds a NaN before the first +inf they return the position of that NaN
# (NaN is replaced by +inf before np.argmin); same for argmax with -inf.  Not a defect of the library under the statement;
# the model mirrors it (`nanargmin_inf_counterexample`) and in this one corner the oracle's reference is NumPy's function itself.
NUMPY_NANARG_INF_CORNER = True


def tok(v):
    v = float(v)
    if math.isnan(v):
        return "nan"
    if math.isinf(v):
        return "inf" if v > 0 else "-inf"
    fr = Fraction(v)
    return ["n", fr.numerator, fr.denominator]


def untok(t):
    if t == "nan":
        return float("nan")
    if t == "inf":
        return float("inf")
    if t == "-inf":
        return float("-inf")
    return float(Fraction(t[1], t[2]))


def sqrt_tok(t):
    """square root of a model cell (std = sqrt(var)): NaN / +inf kept, a rational as the nearest float's token"""
    if isinstance(t, str):
        return "nan" if t == "-inf" else t
    q = Fraction(t[1], t[2])
    if q < 0:
        return "nan"
    r = math.isqrt((q.numerator << 200) // q.denominator)       # floor(sqrt(q) * 2^100): 30 significant digits
    return tok(float(Fraction(r, 1 << 100)))


def same(got, want, exact=True):
    """implementation token vs model token: NaN / inf exactly; a rational exactly when it is a float (and `exact`), else
    within 1e-12 relative (rounding is not modelled)"""
    if isinstance(got, str) or isinstance(want, str):
        return got == want
    g, w = Fraction(got[1], got[2]), Fraction(want[1], want[2])
    if g == w:
        return True
    if exact and Fraction(float(w)) == w:
        return False
    return abs(g - w) <= Fraction(1, 10 ** 12) * max(abs(w), Fraction(1, 10 ** 6))


def rand_values(rng, shape, rank_axis_hint=None):
    n = int(np.prod(shape)) if len(shape) else 1
    style = rng.choice(["int", "int", "dyadic", "zero-one"])
    vals = []
    for _ in range(n):
        if style == "int":
            v = float(rng.randint(-3, 4))
        elif style == "dyadic":
            v = rng.randint(-24, 32) / 8.0
        else:
            v = float(rng.choice([0, 0, 1, 2]))
        vals.append(v)
    # specials: none / one / several / all of one fibre / everything
    how = rng.choice(["none", "none", "one", "several", "several", "fibre", "all"])
    kinds = rng.choice([["nan"], ["nan"], ["nan", "inf"], ["nan", "inf", "-inf"], ["inf"], ["inf", "-inf"], ["nan", "-inf"]])
    if n and how != "none":
        if how == "one":
            idx = [rng.randrange(n)]
        elif how == "several":
            idx = rng.sample(range(n), max(1, min(n, rng.randint(2, max(2, n // 2)))))
        elif how == "all":
            idx = list(range(n))
        else:
            d = rng.randrange(len(shape))
            at = [rng.randrange(s) for s in shape]
            idx = []
            for k in range(shape[d]):
                at[d] = k
                idx.append(int(np.ravel_multi_index(at, shape)))
            if rng.random() < 0.5:
                idx.append(rng.randrange(n))
        for i in idx:
            k = "nan" if how in ("fibre", "all") and rng.random() < 0.8 else rng.choice(kinds)
            vals[i] = {"nan": float("nan"), "inf": float("inf"), "-inf": float("-inf")}[k]
    return [tok(v) for v in vals]


def gen_cases(prop, rng, tier):
    from .c08 import spell_elems
    n = 700 if tier == "quick" else 20000
    # stratum: argmin / argmax / cumsum / cumprod / std over a TUPLE of dimensions of a rank-2 / rank-3 array (tuples of labels
    # come back, the grouped dimension comes first), sizes 2-4 so that the position in the group is not symmetric
    for k in range(60 if tier == "quick" else 1500):
        rank = rng.choice([2, 3, 3])
        arr = gen.rand_array(rng, rank=rank, maxn=4, minn=2)
        arr["vkind"] = "f"
        shape = [len(a["labels"]) for a in arr["axes"]]
        names = [a["name"] for a in arr["axes"]]
        fn = (ARG + CUM + ARG + ["std"])[k % 7]
        ax = ["many", spell_elems(rng, rng.sample(names, rng.randint(2, rank) if fn not in ARG else 2), names)]
        yield {"op": "redx", "array": arr, "xvals": rand_values(rng, shape), "fn": fn, "axis": ax, "skipna": rng.random() < 0.6}
    k = 0
    while k < n:
        rank = rng.choice([1, 1, 2, 2, 3])
        arr = gen.rand_array(rng, rank=rank, maxn=4, minn=(0 if rng.random() < 0.12 else 1))
        arr["vkind"] = "f"
        shape = [len(a["labels"]) for a in arr["axes"]]
        fn = XFNS[k % len(XFNS)]
        names = [a["name"] for a in arr["axes"]]
        r = rng.random()
        if r < 0.15:
            ax = None
        elif r < (0.45 if fn in ARG or fn in CUM else 0.3) and rank >= 2:
            # a tuple of dimensions (all of them included): argmin / argmax then return tuples of labels, the cumulative
            # functions accumulate along the grouped dimension
            ax = ["many", spell_elems(rng, rng.sample(names, rng.randint(2, rank)), names)]
        else:
            d = rng.randrange(rank)
            ax = rng.choice([["name", names[d]], ["name", names[d]], ["pos", d], ["pos", d - rank]])
        k += 1
        yield {"op": "redx", "array": arr, "xvals": rand_values(rng, shape), "fn": fn, "axis": ax, "skipna": rng.random() < 0.6}


def build(c):
    ad = c["array"]
    axes = [core.build_axis(a) for a in ad["axes"]]
    shape = tuple(len(a["labels"]) for a in ad["axes"])
    vals = np.array([untok(t) for t in c["xvals"]], dtype=float).reshape(shape)
    return DimArray(vals, axes=axes)


def impl(c):
    from .c08 import axis_py
    a = build(c)
    before = a.values.copy()
    fn = c["fn"]

    def run():
        with warnings.catch_warnings():
            warnings.simplefilter("ignore")
            with np.errstate(all="ignore"):
                r = getattr(a, fn)(axis=axis_py(c["axis"]), skipna=c["skipna"])
        if fn in ARG:
            # labels back to positions
            if c["axis"] is None:
                pos = [list(ax.values).index(l) for ax, l in zip(a.axes, r)]
                return {"scalar": True, "dims": [], "shape": [], "vals": [tok(int(np.ravel_multi_index(pos, a.shape)))]}
            if c["axis"][0] == "many":
                # a tuple of labels (one per listed dimension, in the listed order) -> position in the flattened group
                from .c08 import resolve_dims
                red = resolve_dims(c["axis"], list(a.dims))
                labs = [list(a.axes[a.dims.index(d)].values) for d in red]
                ext = [len(l) for l in labs]

                def flatpos(t):
                    if not isinstance(t, tuple) or len(t) != len(red):
                        raise ValueError("argmin/argmax over %d dimensions returned %r" % (len(red), t))
                    if not all(v in l for l, v in zip(labs, t)):
                        return "unmapped"       # not labels of the listed dimensions in the listed order
                    return tok(int(np.ravel_multi_index([l.index(v) for l, v in zip(labs, t)], ext)))
                if isinstance(r, DimArray):
                    return {"scalar": False, "dims": list(r.dims), "shape": list(r.shape),
                            "vals": [flatpos(t) for t in r.values.reshape(-1)]}
                return {"scalar": True, "dims": [], "shape": [], "vals": [flatpos(r)]}
            d = a.dims.index(c["axis"][1]) if c["axis"][0] == "name" else c["axis"][1] % a.ndim
            labs = list(a.axes[d].values)
            if isinstance(r, DimArray):
                return {"scalar": False, "dims": list(r.dims), "shape": list(r.shape),
                        "vals": [tok(labs.index(l)) for l in r.values.reshape(-1)]}
            return {"scalar": True, "dims": [], "shape": [], "vals": [tok(labs.index(r))]}
        if isinstance(r, DimArray):
            # (a rank-0 DimArray - what the masked-array switcher returns for an all-NaN 1-D array - is observed as a scalar)
            return {"scalar": r.ndim == 0, "rank0_dimarray": r.ndim == 0, "dims": list(r.dims), "shape": list(r.shape),
                    "axes": [[ax.name, len(ax.values)] for ax in r.axes],
                    "vals": [tok(v) for v in np.asarray(r.values, dtype=float).reshape(-1)]}
        if isinstance(r, np.ndarray) and r.ndim >= 1:
            return {"scalar": False, "flat": True, "dims": None, "shape": list(r.shape), "vals": [tok(v) for v in r.astype(float).reshape(-1)]}
        return {"scalar": True, "dims": [], "shape": [], "vals": [tok(float(r))]}
    out = core.guarded(run)
    after = a.values
    if not (before.shape == after.shape and np.array_equal(before, after, equal_nan=True)):
        out["operand_modified"] = True
    return out


def request(c):
    from .c08 import lean_axis_arg
    arr = core.lean_array(gen.clean(c["array"]), core.AttrTokens())
    return {"op": "redx", "arrays": [arr], "xvals": c["xvals"], "fn": "var" if c["fn"] == "std" else c["fn"], "skipna": c["skipna"],
            "axis": lean_axis_arg(c["axis"])}


# ---------------------------------------------------------------- the oracle (from the property text, NumPy only)

def oracle_fibre(fn, skipna, x):
    """value of one result cell from its fibre `x`; returns ("err",) when nothing can be demanded but an error,
    None when the oracle does not judge"""
    x = np.asarray(x, dtype=float)
    isn = np.isnan(x)
    with warnings.catch_warnings():
        warnings.simplefilter("ignore")
        with np.errstate(all="ignore"):
            if fn in CUM:
                y = np.where(isn, 0.0 if fn == "cumsum" else 1.0, x) if skipna else x
                return list(getattr(np, fn)(y))
            if x.size == 0 and fn in ("min", "max", "ptp", "argmin", "argmax"):
                return ("err",)
            if not skipna:
                if fn == "median":
                    return float("nan") if isn.any() else float(np.median(x)) if x.size else float("nan")
                return float(getattr(np, fn)(x))
            y = x[~isn]
            if y.size == 0:
                if fn in ARG:
                    return ("err",)
                return {"sum": 0.0, "prod": 1.0, "all": 1.0, "any": 0.0}.get(fn, float("nan"))
            if fn in ARG:
                ext = -np.inf if fn == "argmax" else np.inf
                if NUMPY_NANARG_INF_CORNER and isn.any() and np.all(y == ext):
                    return float(getattr(np, "nan" + fn)(x))
                return float(np.flatnonzero(~isn)[getattr(np, fn)(y)])      # first position of the extremum among non-NaN
            return float(getattr(np, fn)(y))


def fibres(c, a):
    """the slices reduced to one result cell each (row-major over the remaining dimensions), zero extents included"""
    from .c08 import resolve_dims
    vals, names = a.values, list(a.dims)
    red = resolve_dims(c["axis"], names)
    if red is None:
        return [vals.reshape(-1)], []
    keep = [d for d in names if d not in red]
    v = vals.transpose([names.index(d) for d in keep] + [names.index(d) for d in red])
    nk = int(np.prod([a.shape[names.index(d)] for d in keep])) if keep else 1
    nr = int(np.prod([a.shape[names.index(d)] for d in red]))
    return list(v.reshape(nk, nr)), keep


def judge(prop, c, io, ans):
    lean = ans["lib"]
    bad, prop_bad = [], []
    fn = c["fn"]
    exact = fn not in ("var", "std")
    a = build(c)
    # ---- model vs implementation
    if "ok" in lean:
        lo = lean["ok"]
        if "err" in io:
            bad.append("outcome")
        else:
            got = io["ok"]
            if "scalar" in lo:
                lvals, ldims, lshape = [lo["scalar"]], [], []
            elif "flat" in lo:
                lvals, ldims, lshape = lo["flat"], None, [len(lo["flat"])]
            else:
                lvals, ldims, lshape = lo["cells"], lo["dims"], lo["shape"]
            if fn == "std":
                lvals = [sqrt_tok(t) for t in lvals]
            if got["scalar"] != ("scalar" in lo):
                bad.append("scalar")
            if got["dims"] != ldims:
                bad.append("dims")
            if got["shape"] != lshape:
                bad.append("shape")
            if len(got["vals"]) != len(lvals) or not all(same(g, w, exact) for g, w in zip(got["vals"], lvals)):
                bad.append("values")
    elif "ok" in io:
        bad.append("outcome")
    elif io["err"] != lean["err"]:
        bad.append("errclass")
    # ---- oracle
    names = list(a.dims)
    if fn in CUM:
        if "err" in io:
            prop_bad.append("outcome:" + io["err"])
        else:
            got = io["ok"]
            if c["axis"] is None:
                want = oracle_fibre(fn, c["skipna"], a.values.reshape(-1))
                if got["dims"] is not None:
                    prop_bad.append("dims")
            else:
                from .c08 import resolve_dims
                red = resolve_dims(c["axis"], names)
                if len(red) == 1:
                    d = names.index(red[0])
                    if a.values.size:
                        w = np.apply_along_axis(lambda f: np.array(oracle_fibre(fn, c["skipna"], f)), d, a.values)
                    else:
                        w = a.values
                    want = list(w.reshape(-1))
                    if got["dims"] != names:
                        prop_bad.append("dims")
                else:
                    # a group of dimensions: flattened in the listed order (row-major) into ONE dimension "d1,d2" put first,
                    # the other dimensions follow in their order; the accumulation runs along the grouped dimension
                    keep = [d for d in names if d not in red]
                    v = a.values.transpose([names.index(d) for d in red] + [names.index(d) for d in keep])
                    nr = int(np.prod([a.shape[names.index(d)] for d in red]))
                    v = v.reshape((nr,) + tuple(a.shape[names.index(d)] for d in keep))
                    if v.size:
                        w = np.apply_along_axis(lambda f: np.array(oracle_fibre(fn, c["skipna"], f)), 0, v)
                    else:
                        w = v
                    want = list(w.reshape(-1))
                    if got["dims"] != [",".join(red)] + keep:
                        prop_bad.append("dims")
                    elif got["shape"] != list(v.shape):
                        prop_bad.append("shape")
            if want is not None and (len(want) != len(got["vals"]) or
                                     not all(same(g, tok(w), True) for g, w in zip(got["vals"], want))):
                prop_bad.append("values:oracle")
    else:
        rows, keep = fibres(c, a)
        wants = [oracle_fibre(fn, c["skipna"], row) for row in rows]
        extent_zero = (c["axis"] is not None and any(a.shape[names.index(d)] == 0 for d in
                                                      __import__("props.c08", fromlist=["x"]).resolve_dims(c["axis"], names))) \
            or (c["axis"] is None and a.values.size == 0)
        must_err = any(w == ("err",) for w in wants) or (extent_zero and fn in ("min", "max", "ptp", "argmin", "argmax"))
        if "err" in io:
            if not must_err:
                prop_bad.append("outcome:" + io["err"])
            elif io["err"] != "value":
                prop_bad.append("errclass")
        elif must_err:
            prop_bad.append("outcome:ok")
        else:
            got = io["ok"]
            if got["dims"] != keep:
                prop_bad.append("dims:remaining")
            elif len(got["vals"]) != len(wants):
                prop_bad.append("shape")
            elif not all(w is None or same(g, tok(w), exact) for g, w in zip(got["vals"], wants)):
                prop_bad.append("values:oracle")
            if got["scalar"] != (not keep):
                prop_bad.append("scalar")
    if io.get("operand_modified"):
        prop_bad.append("operand_modified")
    if not bad and not prop_bad:
        return None
    return {"kind": "P" if prop_bad else "M", "differs": sorted(set(bad + prop_bad)), "msg": io.get("msg")}


def features(c, io):
    ax = c["axis"]
    sp = [t for t in c["xvals"] if isinstance(t, str)]
    n = len(c["xvals"])
    return {"outcome": "err:" + io["err"] if "err" in io else "ok", "op": "redx", "xfn": "%s/%s" % (c["fn"], c["skipna"]),
            "rank": len(c["array"]["axes"]), "axis": "none" if ax is None else ("tuple" if ax[0] == "many" else ax[0]),
            "specials": "none" if not sp else ("all" if len(sp) == n else ("one" if len(sp) == 1 else "several")),
            "has_inf": any(t in ("inf", "-inf") for t in sp), "empty": n == 0}

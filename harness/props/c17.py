"""C17 - axis-wise selection and missing-value handling keep slices with their labels."""
import copy, itertools, math, warnings
from fractions import Fraction
import numpy as np
import core, gen
from core import da, Axis, DimArray
from .base import Prop
from .c08 import nan_pattern
from .c06 import lab_key, cell_index
from .c10 import check_coordinates


def slices_travel(inp, out, pos_name):
    """every slice of `out` along dimension pos_name equals the slice of `inp` with the same label
    (labels on that axis are unique in inp); other axes untouched"""
    bad = []
    if out["dims"] != inp["dims"]:
        return ["dims"]
    for ax_in, ax_out in zip(inp["axes"], out["axes"]):
        if ax_in["name"] != pos_name and ax_in["labels"] != ax_out["labels"]:
            bad.append("axes.labels:other_axes")
    if bad:
        return bad
    for flat, coord in enumerate(itertools.product(*[ax["labels"] for ax in out["axes"]])):
        cd = {ax["name"]: l for ax, l in zip(out["axes"], coord)}
        src = cell_index(inp, cd)
        if src is None:
            bad.append("axes.labels:invented"); break
        if out["values"][flat] != inp["values"][src]:
            bad.append("values:moved"); break
    return bad


class C17(Prop):
    id = "C17"
    theorems = ["takeAxisPos_get", "takeAxisPos_labels", "takeAxisPos_other_axes", "sortAxis_sorted", "sortAxis_perm",
                "compressAxis_labels", "fillna_spec", "setna_spec", "dropna_mask_spec", "takeAxisPos_selects", "sortAxis_spec", "argsortBy_isStableArgsort", "sortAxis_ok_iff", "sortAxis_of_sorted", "sortAxis_idempotent",
                "compressAxis_spec", "keptPositions_spec", "compressAxis_ok_iff", "dropna_spec", "dropna_error", "dropna_rank1",
                "dropna_no_nan", "takeAxis_position_spec", "takeAxis_label_spec", "takeAxis_label_ok", "fillna_no_nan", "fillna_idempotent",
                "setna_isnan", "setna_fillna",
                "isStableArgsortBy_iff_map", "isStableArgsortBy_id", "IsStableArgsortBy.unique", "sortAxis_key_spec",
                "sortAxis_key_total_spec", "sortAxis_key_sorted", "sortAxis_key_ok_iff", "sortAxis_key_error",
                "sortAxis_key_ident", "sortAxis_key_neg_descending",
                "compressNd_spec", "compressNd_complete", "compressNd_coord", "compressNd_rank1", "compressNd_ok_iff"]
    rule = ("arrays of rank 1-4 with unsorted int/float/str labels, every axis by name / position / negative position, NaN "
            "patterns none / some / whole slices / all; sort_axis (plain, key function, dict key), take_axis (labels / "
            "positions / indexing left out, repeats, array or list indices, mode raise / clip / wrap, side=), compress_axis "
            "with every mask (ndarray, list, DimArray; masks of the wrong length), compress / a[mask] with a full-shape "
            "mask (ndarray or DimArray), dropna with minvalid from 0 to the slice size (default for 1-D), axis left out, "
            "int data, fillna / setna on int and float data with scalar, list and boolean-mask (ndarray or DimArray) "
            "arguments; na= sentinels for dropna / fillna / setna (oracle only). "
            "STRATUM keyfn: sort_axis(key=...) with the key drawn from a closed family that the model evaluates itself "
            "(Lib.KeyFn: identity, -x, abs, len, s[::-1], x % m, constant, dict with tied / string / mixed / missing "
            "entries), the very same callable / dict handed to the library: model (Lib.sortAxisKey, stable argsort of the "
            "key values) and implementation compared on labels, values, metadata and on the exception class when the key "
            "raises or its values cannot be compared; the older key forms (key_neg, key_rev, dict) go through the same mirror. "
            "STRATUM compress_nd: full-shape boolean compress / a[mask] (ndarray or DimArray mask) against Lib.compressNd: "
            "rank 1 = compress_axis, rank >= 2 = 1-D array over an axis of label tuples named by the joined dimension "
            "names, cells in C order; masks of the wrong rank (ValueError) or shape (IndexError). "
            "Non-trivial = operated axis longer than 1; distinct = canonical JSON")
    assumptions = ["labels unique per axis",
                   "sort_axis(key=...): the key is compared on a closed family of key functions (Lib.KeyFn); unsigned label "
                   "dtypes are not combined with the key -x (NumPy's unsigned negation wraps around; the key is the user's)",
                   "compress: plain (non-grouped) axes"]

    def mirrors(self):
        import sys as _s
        al = _s.modules["dimarray.core.align"]
        mv = _s.modules["dimarray.core.missingvalues"]
        from dimarray.core import dimarraycls
        return {"sort_axis": al.sort_axis, "argsort": al.argsort, "take_axis": dimarraycls.DimArray.take_axis,
                "compress_axis": dimarraycls.DimArray.compress_axis, "dropna": mv.dropna, "fillna": mv.fillna,
                "setna": mv.setna, "_matches": mv._matches, "compress": dimarraycls.DimArray.compress,
                "getaxes_broadcast": _s.modules["dimarray.core.indexing"].getaxes_broadcast}

    def gen(self, rng, tier):
        n = 1400 if tier == "quick" else 30000
        for _ in range(n):
            rank = rng.choice([1, 2, 2, 3, 4])
            arr = gen.dtype_variants(rng, gen.rand_array(rng, rank=rank, maxn=4, minn=1))
            for ax in arr["axes"]:
                if rng.random() < 0.3:
                    ax["attrs_py"] = {"units": "u" + ax["name"]}
            if rng.random() < 0.4:
                arr["attrs_py"] = {"title": "T"}
            d = rng.randrange(rank)
            names = [a["name"] for a in arr["axes"]]
            axk = rng.choice([["name", names[d]], ["pos", d], ["pos", d - rank]])
            shape = [len(a["labels"]) for a in arr["axes"]]
            L = arr["axes"][d]["labels"]
            r = rng.random()
            if r < 0.16:
                arr["vkind"] = rng.choice(["f", "i"])
                how = rng.choice(["plain", "plain", "key_neg", "dict", "keyfn", "keyfn", "keyfn"])
                if how == "key_neg" and arr["axes"][d]["kind"] == "O":
                    how = rng.choice(["dict", "key_rev"])       # key_rev: each string label read backwards
                c = {"op": "sort_axis", "array": arr, "axis": axk, "how": how}
                if how == "keyfn":
                    c["key"] = rand_key(rng, arr["axes"][d])
                if how in ("keyfn", "key_neg") and str(arr["axes"][d].get("ldtype", "")).startswith("uint"):
                    del arr["axes"][d]["ldtype"]                # -x on an unsigned NumPy scalar wraps around
                if how == "dict":
                    order = list(range(len(L)))
                    rng.shuffle(order)
                    c["ranks"] = order
                    if rng.random() < 0.5 and len(L) >= 2:
                        # keys of mixed numeric types: an int for the first label, non-integral floats for the others
                        # (several of them inside one unit interval)
                        c["ranks"] = [order[0]] + [order[0] - 0.75 + 0.125 * k + (2 if k % 2 else 0) for k in order[1:]]
                yield c
            elif r < 0.36:
                arr["vkind"] = rng.choice(["f", "i"])
                mode = rng.choice(["label", "label", "position"])
                c = {"op": "take_axis", "array": arr, "axis": axk}
                if mode == "label":
                    ix = [rng.choice(L) for _ in range(rng.randint(0, 4))]
                    clip = rng.random() < 0.3
                    if rng.random() < 0.3:
                        ix.insert(rng.randint(0, len(ix)), gen.absent_label(rng, arr["axes"][d]))
                    if rng.random() < 0.25:
                        mode = "default"                # indexing= left out: the library's default is by label
                    if rng.random() < 0.25:
                        c["side"] = rng.choice(["left", "right"])
                else:
                    nn = len(L)
                    ix = [["n", rng.randint(-nn, nn - 1) if rng.random() < 0.8 else rng.randint(-nn - 3, nn + 3), 1] for _ in range(rng.randint(0, 4))]
                    clip = rng.random() < 0.3
                    if rng.random() < 0.25:
                        c["mode"] = "wrap"              # numpy.take's third mode: positions modulo the axis length
                        clip = False
                c.update({"indices": ix, "indexing": mode, "clip": clip})
                if rng.random() < 0.3:
                    c["ixform"] = "list"                # a python list of labels / positions, as in the docstring
                yield c
            elif r < 0.48:
                arr["vkind"] = rng.choice(["f", "i"])
                c = {"op": "compress_axis", "array": arr, "axis": axk, "mask": [rng.random() < 0.5 for _ in L]}
                q = rng.random()
                if q < 0.2:
                    c["maskform"] = "list"
                elif q < 0.4:
                    c["maskform"] = "dimarray"
                if rng.random() < 0.12:
                    # a mask that does not have the length of the axis: never a silent mis-selection
                    if rng.random() < 0.5 and len(L) > 1:
                        c["mask"] = c["mask"][:rng.randint(1, len(L) - 1)]
                    else:
                        c["mask"] = c["mask"] + [rng.random() < 0.5 for _ in range(rng.randint(1, 2))]
                    if c.get("maskform") == "dimarray":
                        del c["maskform"]
                yield c
            elif r < 0.54:
                # compress proper: a boolean mask of the full shape (a[a > 1]); for a 1-D array it selects the slices of
                # its only axis, for N-d arrays every selected cell keeps its labels
                arr["vkind"] = rng.choice(["f", "i"])
                nn = int(np.prod(shape))
                dens = rng.choice([0.0, 0.3, 0.5, 1.0])
                # axes of mixed string / numeric kinds included: every component of a cell's tuple label keeps its type
                # ((3, 'a'), not ('3', 'a'))
                c = {"op": "compress", "array": arr, "mask": [rng.random() < dens for _ in range(nn)],
                     "maskform": rng.choice(["array", "dimarray", "getitem", "getitem_dimarray"])}
                if rng.random() < 0.15:
                    # a mask of the wrong rank (ValueError) or of the right rank and the wrong shape (IndexError)
                    ms = rng.choice([[1] + shape, shape + [1], shape[:-1] + [shape[-1] + 1], [shape[0] + 1] + shape[1:],
                                     shape[::-1]])
                    if ms != shape:
                        c["mshape"] = ms
                        c["maskform"] = "array"
                        c["mask"] = [rng.random() < 0.5 for _ in range(int(np.prod(ms)))]
                yield c
            elif r < 0.76:
                arr["vkind"] = "f" if rng.random() < 0.85 else "i"
                c = {"op": "dropna", "array": arr, "axis": axk}
                pat = nan_pattern(rng, shape, rng.choice(["none", "some", "some", "fibre", "all"]))
                if rng.random() < 0.15:
                    # na=: the cells that count as missing are those equal to the sentinel
                    c["na"] = sentinel(rng, arr["vkind"])
                    c["sent_at"] = pat
                elif arr["vkind"] == "f":
                    arr["nan_at"] = pat
                add_inf(rng, arr, shape, c.get("sent_at") or [])
                slice_size = int(np.prod(shape)) // max(len(L), 1)
                c["minvalid"] = None if (rank == 1 or rng.random() < 0.35) else rng.randint(0, slice_size)
                if rng.random() < 0.15:
                    c["axis"] = ["default"]             # axis left out: the first dimension
                yield c
            elif r < 0.88:
                arr["vkind"] = "f" if rng.random() < 0.7 else "i"
                c = {"op": "fillna", "array": arr, "fill": rng.choice(["int", "float"]), "inplace": rng.random() < 0.3}
                pat = nan_pattern(rng, shape, rng.choice(["none", "some", "fibre", "all"]))
                if rng.random() < (0.2 if arr["vkind"] == "f" else 0.5):
                    c["na"] = sentinel(rng, arr["vkind"])
                    c["sent_at"] = pat
                    if arr["vkind"] == "f" and rng.random() < 0.5:
                        arr["nan_at"] = [i for i in nan_pattern(rng, shape, "some") if i not in pat]   # NaN is not the sentinel: stays
                elif arr["vkind"] == "f":
                    arr["nan_at"] = pat
                add_inf(rng, arr, shape, c.get("sent_at") or [])
                yield c
            else:
                arr["vkind"] = rng.choice(["f", "i", "i"])
                nn = int(np.prod(shape))
                how = rng.choice(["scalar", "list", "mask", "mixed", "mixed_mask_first"])
                hits = sorted(rng.sample(range(nn), rng.randint(0, min(nn, 3)))) if nn else []
                if how == "scalar":
                    hits = hits[:1]
                c = {"op": "setna", "array": arr, "how": how, "hits": hits, "inplace": rng.random() < 0.3}
                if how != "scalar" and how != "list" and rng.random() < 0.4:
                    c["maskform"] = "dimarray"          # the documented form a.setna(a > 1)
                if rng.random() < 0.15:
                    c["na"] = sentinel(rng, rng.choice([arr["vkind"], "f"]))
                yield c

    # ------------------------------------------------------------ implementation side
    def impl(self, c):
        toks = core.AttrTokens()
        a = build(c)
        before = core.obs_array(a, toks)
        ax = axis_arg(c)
        nakw = {} if c.get("na") is None else {"na": na_py(c)}

        def run():
            with warnings.catch_warnings():
                warnings.simplefilter("ignore")
                if c["op"] == "sort_axis":
                    if c["how"] == "plain":
                        r = a.sort_axis(axis=ax)
                    elif c["how"] == "key_neg":
                        r = a.sort_axis(axis=ax, key=lambda x: -float(x))
                    elif c["how"] == "key_rev":
                        r = a.sort_axis(axis=ax, key=lambda s: s[::-1])
                    elif c["how"] == "keyfn":
                        r = a.sort_axis(axis=ax, key=py_key(c["key"]))
                    else:
                        pos = a.dims.index(ax) if isinstance(ax, str) else ax
                        labs = a.axes[pos].values.tolist()
                        r = a.sort_axis(axis=ax, key=dict(zip(labs, c["ranks"])))
                elif c["op"] == "take_axis":
                    pos = a.dims.index(ax) if isinstance(ax, str) else ax
                    by_label = c["indexing"] in ("label", "default")
                    kind = c["array"]["axes"][pos % a.ndim]["kind"] if by_label else "i"
                    if c.get("ixform") == "list":
                        ix = [core.dec_label(l, kind) for l in c["indices"]]
                    else:
                        ix = core.label_array(c["indices"], kind) if c["indices"] else np.array([], dtype=int)
                    kw = {"axis": ax, "mode": take_mode(c)}
                    if c["indexing"] != "default":
                        kw["indexing"] = c["indexing"]
                    if c.get("side"):
                        kw["side"] = c["side"]
                    r = a.take_axis(ix, **kw)
                elif c["op"] == "compress_axis":
                    m = np.array(c["mask"], dtype=bool)
                    if c.get("maskform") == "list":
                        m = [bool(x) for x in c["mask"]]
                    elif c.get("maskform") == "dimarray":
                        m = DimArray(m, axes=[a.axes[ax].copy()])
                    r = a.compress_axis(m, axis=ax)
                elif c["op"] == "compress":
                    m = np.array(c["mask"], dtype=bool).reshape(c.get("mshape") or a.shape)
                    if c["maskform"] in ("dimarray", "getitem_dimarray"):
                        m = DimArray(m, axes=[x.copy() for x in a.axes])
                    r = a[m] if c["maskform"].startswith("getitem") else a.compress(m)
                elif c["op"] == "dropna":
                    kw = dict(nakw)
                    if c["axis"][0] != "default":
                        kw["axis"] = ax
                    if c["minvalid"] is not None:
                        kw["minvalid"] = c["minvalid"]
                    r = a.dropna(**kw)
                elif c["op"] == "fillna":
                    v = 9 if c["fill"] == "int" else 2.5
                    r = a.fillna(v, inplace=c["inplace"], **nakw)
                    if c["inplace"]:
                        r = a
                else:
                    flat = a.values.reshape(-1)
                    def mk(hits):
                        m = np.zeros(a.size, dtype=bool); m[hits] = True
                        m = m.reshape(a.shape)
                        return DimArray(m, axes=[x.copy() for x in a.axes]) if c.get("maskform") == "dimarray" else m
                    if c["how"] == "mask":
                        arg = mk(c["hits"])
                    elif c["how"] == "scalar":
                        arg = flat[c["hits"][0]].item() if c["hits"] else -12345
                    elif c["how"] in ("mixed", "mixed_mask_first") and len(c["hits"]) >= 2:
                        # a sequence holding values AND a boolean mask (the documented form a.setna([-99, a > 1]))
                        arg = [flat[c["hits"][0]].item(), mk(c["hits"][1:])]
                        if c["how"] == "mixed_mask_first":
                            arg = arg[::-1]
                    else:
                        arg = [flat[i].item() for i in c["hits"]]
                    r = a.setna(arg, inplace=c["inplace"], **nakw)
                    if c["inplace"]:
                        r = a
            return core.obs_array(r, toks)
        out = core.guarded(run)
        out["input"] = before
        after = core.obs_array(a, toks)
        if after != before and not c.get("inplace"):
            out["operand_modified"] = True
        return out

    def request(self, c):
        if not modelled(c):
            # na= sentinels and compress_axis masks of the wrong length are not in the mirror: the oracles decide
            return {"op": "union", "a": {"name": "x", "kind": "i", "labels": []}, "b": {"name": "x", "kind": "i", "labels": []}, "join": "outer"}
        toks = core.AttrTokens()
        arr = core.lean_array(gen.clean(c["array"]), toks)
        axk = ["pos", 0] if c.get("axis", ["default"])[0] == "default" else c["axis"]
        if c["op"] == "sort_axis":
            if c["how"] == "plain":
                return {"op": "sort_axis", "arrays": [arr], "axis": axk}
            # the key is a function on labels: the model evaluates the same key (Lib.KeyFn) and sorts by it itself
            return {"op": "sort_axis_key", "arrays": [arr], "axis": axk, "key": model_key(c)}
        if c["op"] == "compress":
            return {"op": "compress_nd", "arrays": [arr], "mask": c["mask"],
                    "mshape": c.get("mshape") or [len(a["labels"]) for a in c["array"]["axes"]]}
        if c["op"] == "take_axis":
            mode, ix = take_mode(c), c["indices"]
            if mode == "wrap":
                # numpy.take(mode='wrap') = the positions modulo the axis length, none of them out of range any more
                n = len(c["array"]["axes"][axis_pos(c)]["labels"])
                ix = [["n", x[1] % n, 1] for x in ix]
            return {"op": "transform", "fn": "take_axis", "arrays": [arr], "axis": axk, "indices": ix,
                    "indexing": "position" if c["indexing"] == "position" else "label", "clip": mode == "clip"}
        if c["op"] == "compress_axis":
            return {"op": "transform", "fn": "compress_axis", "arrays": [arr], "axis": axk, "mask": c["mask"]}
        if c["op"] == "dropna":
            return {"op": "transform", "fn": "dropna", "arrays": [arr], "axis": axk, "minvalid": c["minvalid"]}
        if c["op"] == "fillna":
            return {"op": "transform", "fn": "fillna", "arrays": [arr], "fillkind": "i" if c["fill"] == "int" else "f"}
        return {"op": "transform", "fn": "setna", "arrays": [arr], "hits": c["hits"]}

    def judge(self, c, io, ans):
        lean = ans["lib"] if modelled(c) else None
        bad, prop_bad = [], []
        a = build(c)
        fillv = 9 if c.get("fill") == "int" else 2.5
        if lean is not None:
            if "ok" in lean and c["op"] == "compress":
                lean = {"ok": compress_obs(lean["ok"])}
            if "ok" in lean:
                env = core.CellEnv([a.values], fill=fillv)
                k = lean["ok"]["vkind"]
                lo = core.lean_obs_to_canon(lean["ok"], env, cast_kind=k if k in "fi" else None); lo["scalar"] = False
                lean = {"ok": lo}
            d = core.diff_obs(io, lean, keys=("dims", "shape", "axes", "values", "attrs", "vkind"))
            bad += [("M." + x if x == "errclass" else x) for x in d]
        if "ok" in io:
            inp, out = io["input"], io["ok"]
            if out["attrs"] != inp["attrs"]:
                prop_bad.append("attrs")
            if c["op"] == "compress" and c.get("mshape"):
                prop_bad.append("outcome:ok")
            elif c["op"] == "compress":
                prop_bad += check_compress(c, inp, out)
            elif c["op"] in ("sort_axis", "take_axis", "compress_axis", "dropna"):
                dname = inp["dims"][axis_pos(c)]
                prop_bad += slices_travel(inp, out, dname)
                L = inp["axes"][axis_pos(c)]["labels"]
                ol = out["axes"][axis_pos(c)]["labels"] if out["dims"] == inp["dims"] else None
                if ol is not None:
                    if c["op"] == "sort_axis":
                        if sorted(map(lab_key, ol)) != sorted(map(lab_key, L)):
                            prop_bad.append("axes.labels:permutation")
                        if c["how"] == "plain" and [lab_key(x) for x in ol] != sorted(map(lab_key, L)):
                            prop_bad.append("axes.labels:ascending")
                        if c["how"] == "key_neg" and [lab_key(x) for x in ol] != sorted(map(lab_key, L), reverse=True):
                            prop_bad.append("axes.labels:key_order")
                        if c["how"] == "key_rev" and [x[1][::-1] for x in ol] != sorted(l[1][::-1] for l in L):
                            prop_bad.append("axes.labels:key_order")
                        if c["how"] == "keyfn":
                            want = keyed_order(c["key"], L)
                            if want is None:
                                prop_bad.append("outcome:ok")          # the key raises / its values do not compare
                            elif [lab_key(x) for x in ol] != [lab_key(L[i]) for i in want]:
                                prop_bad.append("axes.labels:key_order")
                        if c["how"] == "dict":
                            rk = dict(zip(map(lab_key, L), c["ranks"]))
                            if [rk[lab_key(x)] for x in ol] != sorted(c["ranks"]):
                                prop_bad.append("axes.labels:key_order")
                    if c["op"] == "compress_axis":
                        # numpy.compress: positions beyond the end of a short mask are not selected; a True beyond the end
                        # of the axis selects nothing that exists (an error)
                        mask = list(c["mask"]) + [False] * (len(L) - len(c["mask"]))
                        if any(mask[len(L):]):
                            prop_bad.append("outcome:ok")
                        elif [lab_key(x) for x in ol] != [lab_key(l) for l, m in zip(L, mask) if m]:
                            prop_bad.append("axes.labels:mask")
                    if c["op"] == "take_axis":
                        want = take_expected(c, L)
                        if want == "error":
                            prop_bad.append("outcome:ok")
                        elif want is not None and [lab_key(x) for x in ol] != want:
                            prop_bad.append("axes.labels:requested")
                    if c["op"] == "dropna":
                        # kept labels, in order: those whose slice has at least minvalid valid cells (default: no NaN)
                        vals = np.array(missing_cells(c, inp["values"])).reshape(inp["shape"])
                        pos = axis_pos(c)
                        other = tuple(i for i in range(len(inp["shape"])) if i != pos)
                        nn = vals.sum(axis=other) if other else vals.astype(int)
                        size = int(np.prod([inp["shape"][i] for i in other])) if other else 1
                        mv = c["minvalid"]
                        keep = [(size - k) >= (size if mv is None else mv) for k in np.atleast_1d(nn)]
                        if [lab_key(x) for x in ol] != [lab_key(l) for l, kp in zip(L, keep) if kp]:
                            prop_bad.append("axes.labels:dropna")
            elif c["op"] == "fillna":
                for x, y, miss in zip(inp["values"], out["values"], missing_cells(c, inp["values"])):
                    if miss:
                        if y != core.canon_value(float(fillv)) and y != core.canon_value(fillv):
                            prop_bad.append("values:filled"); break
                    elif not same_number(x, y):
                        prop_bad.append("values:frame"); break
                if [(x["name"], x["labels"]) for x in out["axes"]] != [(x["name"], x["labels"]) for x in inp["axes"]]:
                    prop_bad.append("axes")
            else:
                hits = set(c["hits"])
                na = ["nan"] if c.get("na") is None else c["na"]
                for i, (x, y) in enumerate(zip(inp["values"], out["values"])):
                    if i in hits:
                        if not same_number(y, na):
                            prop_bad.append("values:setna"); break
                    elif not same_number(x, y):
                        prop_bad.append("values:frame"); break
                if [(x["name"], x["labels"]) for x in out["axes"]] != [(x["name"], x["labels"]) for x in inp["axes"]]:
                    prop_bad.append("axes")
        elif c["op"] == "sort_axis" and c["how"] == "keyfn" and keyed_order(c["key"], c["array"]["axes"][axis_pos(c)]["labels"]) is None:
            pass                                                       # the key itself raises: an error is the right outcome
        elif c["op"] == "compress" and c.get("mshape"):
            pass                                                       # a mask of the wrong shape must be refused
        elif lean is not None and "ok" in lean:
            prop_bad.append("outcome:" + io["err"])
        elif lean is None and not (c["op"] == "compress_axis" and len(c["mask"]) != len(io["input"]["axes"][axis_pos(c)]["labels"])):
            prop_bad.append("outcome:" + io["err"])
        if io.get("operand_modified"):
            prop_bad.append("operand_modified")
        if not bad and not prop_bad:
            return None
        return {"kind": "P" if prop_bad else "M", "differs": sorted(set(bad + prop_bad)), "msg": io.get("msg")}

    def nontrivial(self, c):
        return any(len(a["labels"]) > 1 for a in c["array"]["axes"])

    def features(self, c, io):
        f = {"outcome": "err:" + io["err"] if "err" in io else "ok", "op": c["op"], "rank": len(c["array"]["axes"]),
             "vkind": c["array"].get("vkind"), "nan": bool(c["array"].get("nan_at"))}
        for k in ("how", "indexing", "clip", "minvalid", "inplace", "side", "ixform", "maskform"):
            if k in c:
                f[k] = c[k]
        if c["op"] == "take_axis":
            f["mode"] = take_mode(c)
        if "axis" in c:
            f["axis_form"] = c["axis"][0] if c["axis"][0] != "pos" else ("pos" if c["axis"][1] >= 0 else "negpos")
        f["na"] = "sentinel" if c.get("na") is not None else "nan"
        if c["op"] == "compress_axis":
            f["masklen"] = "axis" if len(c["mask"]) == len(c["array"]["axes"][axis_pos(c)]["labels"]) else "wrong"
        f["modelled"] = modelled(c)
        if c.get("key"):
            f["key"] = c["key"][0] if c["key"][0] != "table" else "table:" + c["key"][2]
        if c["op"] == "compress":
            f["mask_shape"] = "wrong" if c.get("mshape") else "full"
        return f

    def size(self, c):
        return sum(len(a["labels"]) for a in c["array"]["axes"]) + 5 * len(c["array"]["axes"])

    def snippet(self, c):
        return ("import sys; sys.path.insert(0, '/verif/harness'); import json, core; from props.c17 import PROP; "
                "case = json.load(open(REPLAY))['case']; print(PROP.impl(case))")


def axis_pos(c):
    dims = [a["name"] for a in c["array"]["axes"]]
    k = c["axis"]
    if k[0] == "default":
        return 0
    return dims.index(k[1]) if k[0] == "name" else k[1] % len(dims)


def axis_arg(c):
    k = c.get("axis")
    return None if k is None or k[0] == "default" else k[1]


def take_mode(c):
    return c.get("mode") or ("clip" if c["clip"] else "raise")


def modelled(c):
    """does the Lean mirror model this form?"""
    if c.get("na") is not None:
        return False
    if c["op"] == "compress_axis" and len(c["mask"]) != len(c["array"]["axes"][axis_pos(c)]["labels"]):
        return False
    return True


def sentinel(rng, vkind):
    """a value that stands for 'missing' (na=...), of the array's kind; never one of the generated cell values"""
    return ["n", -99, 1] if vkind == "i" else rng.choice([["n", -199, 2], ["n", -99, 1]])


def na_py(c):
    fr = Fraction(c["na"][1], c["na"][2])
    return int(fr) if (fr.denominator == 1 and c["array"].get("vkind") == "i") else float(fr)


def add_inf(rng, arr, shape, taken):
    """infinite cells (values, not missing values) in some float arrays"""
    if arr.get("vkind") != "f" or rng.random() > 0.25:
        return
    size = int(np.prod(shape)) if len(shape) else 1
    free = [i for i in range(size) if i not in (arr.get("nan_at") or []) and i not in taken]
    if free:
        arr["inf_at"] = [[i, rng.choice([1, -1])] for i in rng.sample(free, min(len(free), rng.randint(1, 2)))]


def build(c):
    """the input array; the cells listed in sent_at hold the na= sentinel"""
    a = core.build_array(c["array"], 0)
    if c.get("sent_at"):
        v, s = a.values, na_py(c)
        for i in c["sent_at"]:
            v[np.unravel_index(i, v.shape)] = s
    return a


def same_number(x, y):
    """canonical cell values equal as numbers (an integer and the float of the same value are the same cell content)"""
    if x == y:
        return True
    return x[0] == "n" and y[0] == "n" and Fraction(x[1], x[2]) == Fraction(y[1], y[2])


def missing_cells(c, values):
    """which (canonical) cell values count as missing: NaN, or the cells equal to the na= sentinel"""
    if c.get("na") is None:
        return [v == ["nan"] for v in values]
    return [same_number(v, c["na"]) for v in values]


def take_expected(c, L):
    """labels that take_axis must return, as lab_keys; "error" when the request cannot be honoured; None = not pinned down"""
    mode, n = take_mode(c), len(L)
    if c["indexing"] == "position":
        pos = [x[1] for x in c["indices"]]
        if mode == "raise":
            if any(not (-n <= i < n) for i in pos):
                return "error"
            return [lab_key(L[i % n]) for i in pos]
        if mode == "wrap":
            return [lab_key(L[i % n]) for i in pos]
        return [lab_key(L[min(max(i, 0), n - 1)]) for i in pos]       # numpy.take(mode='clip'): no negative positions
    have = [lab_key(l) for l in L]
    req = [lab_key(x) for x in c["indices"]]
    if mode == "raise":
        return "error" if any(k not in have for k in req) else req
    if c.get("side") == "right":
        return None
    # clip: a label that is present is selected; an absent one goes where it would be inserted in the sorted labels
    # (the least label above it), clipped to the last one
    out = []
    for k in req:
        if k in have:
            out.append(k)
        else:
            try:
                above = [h for h in have if h > k]
            except TypeError:
                return None
            out.append(min(above) if above else max(have))
    return out


def check_compress(c, inp, out):
    """a[mask] with a mask of the full shape: the selected cells in C order, each with its own labels"""
    bad = []
    sel = [i for i, m in enumerate(c["mask"]) if m]
    if len(out["shape"]) != 1 or out["shape"][0] != len(sel):
        return ["shape"]
    if out["values"] != [inp["values"][i] for i in sel]:
        bad.append("values:mask")
    coords = list(itertools.product(*[ax["labels"] for ax in inp["axes"]]))
    want = [[lab_key(l) for l in coords[i]] for i in sel]
    got = out["axes"][0]["labels"]
    if len(inp["dims"]) == 1:
        if out["dims"] != inp["dims"]:
            bad.append("dims")
        if [[lab_key(x)] for x in got] != want:
            bad.append("axes.labels:mask")
    else:
        for g, w in zip(got, want):
            if g[0] != "t" or [lab_key(x) for x in g[1]] != w:
                bad.append("axes.labels:cell"); break
    return bad


# ------------------------------------------------------------------ key functions of the closed family Lib.KeyFn
def rand_key(rng, ax):
    """a key of the closed family, mostly one that fits the labels' type, sometimes one that raises on them"""
    L, numeric = ax["labels"], ax["kind"] in ("i", "f")
    fits = ["ident", "neg", "abs", "const", "table", "table"] + (["mod"] if ax["kind"] == "i" else []) if numeric \
        else ["ident", "len", "rev", "const", "table", "table"]
    misfits = ["len", "rev"] if numeric else ["neg", "abs", "mod"]
    t = rng.choice(misfits) if rng.random() < 0.12 else rng.choice(fits)
    if t == "mod":
        return ["mod", rng.choice([1, 2, 3, 5])]
    if t != "table":
        return [t]
    flavour = rng.choice(["ties", "ties", "perm", "str", "frac", "missing", "mixed"])
    n = len(L)
    if flavour == "ties":
        vals = [["n", rng.randrange(2), 1] for _ in L]                       # equal ranks: stability decides
    elif flavour == "perm":
        o = list(range(n)); rng.shuffle(o)
        vals = [["n", k, 1] for k in o]
    elif flavour == "str":
        vals = [["s", rng.choice(["p", "q", "pq", ""])] for _ in L]
    elif flavour == "frac":
        vals = [["n", rng.randrange(-3, 4), rng.choice([1, 2, 4])] for _ in L]
        vals = [gen.enc(Fraction(v[1], v[2])) for v in vals]
    elif flavour == "missing":
        vals = [["n", k, 1] for k in range(n)]
    else:
        vals = [["n", k, 1] if k % 2 else ["s", "p"] for k in range(n)]  # numbers and strings do not compare
    rows = [[l, v] for l, v in zip(L, vals)]
    if flavour == "missing" and rows:
        del rows[rng.randrange(len(rows))]                                   # KeyError for that label
    rng.shuffle(rows)
    return ["table", rows, flavour]


def _pyval(e):
    if e[0] == "s":
        return e[1]
    fr = Fraction(e[1], e[2])
    return int(fr) if fr.denominator == 1 else float(fr)


def py_key(key):
    """the callable / dict handed to sort_axis"""
    t = key[0]
    if t == "table":
        return {_pyval(k): _pyval(v) for k, v in key[1]}
    if t == "mod":
        m = key[1]
        return lambda x: x % m
    return {"ident": lambda x: x, "neg": lambda x: -x, "abs": abs, "len": len, "rev": lambda s: s[::-1],
            "const": lambda x: 0}[t]


def model_key(c):
    """the same key for the Lean driver"""
    L = c["array"]["axes"][axis_pos(c)]["labels"]
    if c["how"] == "key_neg":
        return ["neg"]
    if c["how"] == "key_rev":
        return ["rev"]
    if c["how"] == "dict":
        return ["table", [[l, gen.enc(Fraction(r))] for l, r in zip(L, c["ranks"])]]
    return c["key"][:2]


def keyed_order(key, L):
    """ORACLE (from the property text, independent of the model): the positions of the labels in stable ascending order of
    their key values, computed on exact values; None when the key raises on some label or two key values do not compare"""
    def ev(l):
        t = key[0]
        if t == "ident":
            return l
        if t == "const":
            return ["n", 0, 1]
        if t == "table":
            hit = [v for k, v in key[1] if lab_key(k) == lab_key(l)]
            if not hit:
                raise KeyError(l)
            return hit[0]
        if t in ("neg", "abs", "mod"):
            if l[0] != "n":
                raise TypeError(t)
            fr = Fraction(l[1], l[2])
            fr = -fr if t == "neg" else abs(fr) if t == "abs" else fr - key[1] * math.floor(fr / key[1])
            return ["n", fr.numerator, fr.denominator]
        if l[0] != "s":
            raise TypeError(t)
        return ["n", len(l[1]), 1] if t == "len" else ["s", l[1][::-1]]
    try:
        ks = [ev(l) for l in L]
    except (TypeError, KeyError):
        return None
    if len(ks) >= 2 and len({k[0] for k in ks}) > 1:
        return None
    vals = [Fraction(k[1], k[2]) if k[0] == "n" else k[1] for k in ks]
    return sorted(range(len(L)), key=vals.__getitem__)


def compress_obs(ok):
    """answer of the driver's compress_nd -> an observation in the form of core.obs_array: the 1-D array over the axis of
    label tuples (rank != 1), or the array itself (rank 1)"""
    if "array" in ok:
        return ok["array"]
    t = ok["tuple"]
    return {"dims": [t["name"]], "shape": [len(t["cells"])], "vkind": t["vkind"], "attrs": t["attrs"], "cells": t["cells"],
            "axes": [{"name": t["name"], "kind": "O", "labels": [["t", c] for c in t["coords"]], "attrs": [], "members": []}]}


PROP = C17()

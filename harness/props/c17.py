"""C17 - axis-wise selection and missing-value handling keep slices with their labels."""
import copy, itertools, math, warnings
from fractions import Fraction
import numpy as np
import core, gen
from core import da, Axis, DimArray
from .base import Prop
from .c08 import nan_pattern
from .c06 import lab_key, cell_index
from .c10 import check_coordinates


def slices_travel(inp, out, pos_name):
    """every slice of `out` along dimension pos_name equals the slice of `inp` with the same label
    (labels on that axis are unique in inp); other axes untouched"""
    bad = []
    if out["dims"] != inp["dims"]:
        return ["dims"]
    for ax_in, ax_out in zip(inp["axes"], out["axes"]):
        if ax_in["name"] != pos_name and ax_in["labels"] != ax_out["labels"]:
            bad.append("axes.labels:other_axes")
    if bad:
        return bad
    for flat, coord in enumerate(itertools.product(*[ax["labels"] for ax in out["axes"]])):
        cd = {ax["name"]: l for ax, l in zip(out["axes"], coord)}
        src = cell_index(inp, cd)
        if src is None:
            bad.append("axes.labels:invented"); break
        if out["values"][flat] != inp["values"][src]:
            bad.append("values:moved"); break
    return bad


class C17(Prop):
    id = "C17"
    theorems = ["takeAxisPos_get", "takeAxisPos_labels", "takeAxisPos_other_axes", "sortAxis_sorted", "sortAxis_perm",
                "compressAxis_labels", "fillna_spec", "setna_spec", "dropna_mask_spec", "takeAxisPos_selects", "sortAxis_spec", "argsortBy_isStableArgsort", "sortAxis_ok_iff", "sortAxis_of_sorted", "sortAxis_idempotent",
                "compressAxis_spec", "keptPositions_spec", "compressAxis_ok_iff", "dropna_spec", "dropna_error", "dropna_rank1",
                "dropna_no_nan", "takeAxis_position_spec", "takeAxis_label_spec", "takeAxis_label_ok", "fillna_no_nan", "fillna_idempotent",
                "setna_isnan", "setna_fillna"]
    rule = ("arrays of rank 1-4 with unsorted int/float/str labels, every axis by name / position, NaN patterns none / "
            "some / whole slices / all; sort_axis (plain, key function, dict key), take_axis (labels / positions, repeats, "
            "mode raise / clip), compress_axis with every mask, dropna with minvalid from 0 to the slice size (default "
            "for 1-D), fillna / setna on int and float data with scalar, list and boolean-mask arguments. "
            "Non-trivial = operated axis longer than 1; distinct = canonical JSON")
    assumptions = ["labels unique per axis"]

    def mirrors(self):
        import sys as _s
        al = _s.modules["dimarray.core.align"]
        mv = _s.modules["dimarray.core.missingvalues"]
        from dimarray.core import dimarraycls
        return {"sort_axis": al.sort_axis, "argsort": al.argsort, "take_axis": dimarraycls.DimArray.take_axis,
                "compress_axis": dimarraycls.DimArray.compress_axis, "dropna": mv.dropna, "fillna": mv.fillna,
                "setna": mv.setna, "_matches": mv._matches}

    def gen(self, rng, tier):
        n = 1200 if tier == "quick" else 30000
        for _ in range(n):
            rank = rng.choice([1, 2, 2, 3, 4])
            arr = gen.dtype_variants(rng, gen.rand_array(rng, rank=rank, maxn=4, minn=1))
            for ax in arr["axes"]:
                if rng.random() < 0.3:
                    ax["attrs_py"] = {"units": "u" + ax["name"]}
            if rng.random() < 0.4:
                arr["attrs_py"] = {"title": "T"}
            d = rng.randrange(rank)
            names = [a["name"] for a in arr["axes"]]
            axk = rng.choice([["name", names[d]], ["pos", d], ["pos", d - rank]])
            shape = [len(a["labels"]) for a in arr["axes"]]
            L = arr["axes"][d]["labels"]
            r = rng.random()
            if r < 0.18:
                arr["vkind"] = rng.choice(["f", "i"])
                how = rng.choice(["plain", "plain", "key_neg", "dict"])
                if how == "key_neg" and arr["axes"][d]["kind"] == "O":
                    how = rng.choice(["dict", "key_rev"])       # key_rev: each string label read backwards
                c = {"op": "sort_axis", "array": arr, "axis": axk, "how": how}
                if how == "dict":
                    order = list(range(len(L)))
                    rng.shuffle(order)
                    c["ranks"] = order
                yield c
            elif r < 0.36:
                arr["vkind"] = rng.choice(["f", "i"])
                mode = rng.choice(["label", "label", "position"])
                if mode == "label":
                    ix = [rng.choice(L) for _ in range(rng.randint(0, 4))]
                    clip = rng.random() < 0.25
                    if rng.random() < 0.3:
                        ix.insert(rng.randint(0, len(ix)), gen.absent_label(rng, arr["axes"][d]))
                else:
                    nn = len(L)
                    ix = [["n", rng.randint(-nn, nn - 1) if rng.random() < 0.85 else rng.randint(-nn - 2, nn + 2), 1] for _ in range(rng.randint(0, 4))]
                    clip = rng.random() < 0.3
                yield {"op": "take_axis", "array": arr, "axis": axk, "indices": ix, "indexing": mode, "clip": clip}
            elif r < 0.48:
                arr["vkind"] = rng.choice(["f", "i"])
                yield {"op": "compress_axis", "array": arr, "axis": axk, "mask": [rng.random() < 0.5 for _ in L]}
            elif r < 0.75:
                arr["vkind"] = "f"
                arr["nan_at"] = nan_pattern(rng, shape, rng.choice(["none", "some", "some", "fibre", "all"]))
                slice_size = int(np.prod(shape)) // max(len(L), 1)
                mv = None if (rank == 1 or rng.random() < 0.35) else rng.randint(0, slice_size)
                yield {"op": "dropna", "array": arr, "axis": axk, "minvalid": mv}
            elif r < 0.87:
                arr["vkind"] = "f"
                arr["nan_at"] = nan_pattern(rng, shape, rng.choice(["none", "some", "fibre", "all"]))
                yield {"op": "fillna", "array": arr, "fill": rng.choice(["int", "float"]), "inplace": rng.random() < 0.3}
            else:
                arr["vkind"] = rng.choice(["f", "i", "i"])
                nn = int(np.prod(shape))
                how = rng.choice(["scalar", "list", "mask", "mixed", "mixed_mask_first"])
                hits = sorted(rng.sample(range(nn), rng.randint(0, min(nn, 3)))) if nn else []
                if how == "scalar":
                    hits = hits[:1]
                yield {"op": "setna", "array": arr, "how": how, "hits": hits, "inplace": rng.random() < 0.3}

    # ------------------------------------------------------------ implementation side
    def impl(self, c):
        toks = core.AttrTokens()
        a = core.build_array(c["array"], 0)
        before = core.obs_array(a, toks)
        ax = c["axis"][1] if "axis" in c else None

        def run():
            with warnings.catch_warnings():
                warnings.simplefilter("ignore")
                if c["op"] == "sort_axis":
                    if c["how"] == "plain":
                        r = a.sort_axis(axis=ax)
                    elif c["how"] == "key_neg":
                        r = a.sort_axis(axis=ax, key=lambda x: -float(x))
                    elif c["how"] == "key_rev":
                        r = a.sort_axis(axis=ax, key=lambda s: s[::-1])
                    else:
                        pos = a.dims.index(ax) if isinstance(ax, str) else ax
                        labs = a.axes[pos].values.tolist()
                        r = a.sort_axis(axis=ax, key=dict(zip(labs, c["ranks"])))
                elif c["op"] == "take_axis":
                    pos = a.dims.index(ax) if isinstance(ax, str) else ax
                    kind = c["array"]["axes"][pos % a.ndim]["kind"] if c["indexing"] == "label" else "i"
                    ix = core.label_array(c["indices"], kind) if c["indices"] else np.array([], dtype=int)
                    r = a.take_axis(ix, axis=ax, indexing=c["indexing"], mode="clip" if c["clip"] else "raise")
                elif c["op"] == "compress_axis":
                    r = a.compress_axis(np.array(c["mask"], dtype=bool), axis=ax)
                elif c["op"] == "dropna":
                    r = a.dropna(axis=ax) if c["minvalid"] is None else a.dropna(axis=ax, minvalid=c["minvalid"])
                elif c["op"] == "fillna":
                    v = 9 if c["fill"] == "int" else 2.5
                    r = a.fillna(v, inplace=c["inplace"])
                    if c["inplace"]:
                        r = a
                else:
                    flat = a.values.reshape(-1)
                    if c["how"] == "mask":
                        m = np.zeros(a.size, dtype=bool); m[c["hits"]] = True
                        arg = m.reshape(a.shape)
                    elif c["how"] == "scalar":
                        arg = flat[c["hits"][0]].item() if c["hits"] else -12345
                    elif c["how"] in ("mixed", "mixed_mask_first") and len(c["hits"]) >= 2:
                        # a sequence holding values AND a boolean mask (the documented form a.setna([-99, a > 1]))
                        m = np.zeros(a.size, dtype=bool); m[c["hits"][1:]] = True
                        arg = [flat[c["hits"][0]].item(), m.reshape(a.shape)]
                        if c["how"] == "mixed_mask_first":
                            arg = arg[::-1]
                    else:
                        arg = [flat[i].item() for i in c["hits"]]
                    r = a.setna(arg, inplace=c["inplace"])
                    if c["inplace"]:
                        r = a
            return core.obs_array(r, toks)
        out = core.guarded(run)
        out["input"] = before
        after = core.obs_array(a, toks)
        if after != before and not c.get("inplace"):
            out["operand_modified"] = True
        return out

    def request(self, c):
        toks = core.AttrTokens()
        arr = core.lean_array(gen.clean(c["array"]), toks)
        if c["op"] == "sort_axis":
            if c["how"] == "plain":
                return {"op": "sort_axis", "arrays": [arr], "axis": c["axis"]}
            # sorting by a key = positional take by the argsort of the keys (the mirror of `argsort(seq, key)`)
            d = axis_pos(c)
            L = c["array"]["axes"][d]["labels"]
            if c["how"] == "key_neg":
                keys = [-Fraction(l[1], l[2]) for l in L]
            elif c["how"] == "key_rev":
                keys = [l[1][::-1] for l in L]
            else:
                keys = c["ranks"]
            order = sorted(range(len(L)), key=lambda i: keys[i])
            return {"op": "transform", "fn": "take_axis", "arrays": [arr], "axis": c["axis"],
                    "indices": [["n", i, 1] for i in order], "indexing": "position", "clip": False}
        if c["op"] == "take_axis":
            return {"op": "transform", "fn": "take_axis", "arrays": [arr], "axis": c["axis"], "indices": c["indices"],
                    "indexing": c["indexing"], "clip": c["clip"]}
        if c["op"] == "compress_axis":
            return {"op": "transform", "fn": "compress_axis", "arrays": [arr], "axis": c["axis"], "mask": c["mask"]}
        if c["op"] == "dropna":
            return {"op": "transform", "fn": "dropna", "arrays": [arr], "axis": c["axis"], "minvalid": c["minvalid"]}
        if c["op"] == "fillna":
            return {"op": "transform", "fn": "fillna", "arrays": [arr], "fillkind": "i" if c["fill"] == "int" else "f"}
        return {"op": "transform", "fn": "setna", "arrays": [arr], "hits": c["hits"]}

    def judge(self, c, io, ans):
        lean = ans["lib"]
        bad, prop_bad = [], []
        a = core.build_array(c["array"], 0)
        fillv = 9 if c.get("fill") == "int" else 2.5
        if "ok" in lean:
            env = core.CellEnv([a.values], fill=fillv)
            k = lean["ok"]["vkind"]
            lo = core.lean_obs_to_canon(lean["ok"], env, cast_kind=k if k in "fi" else None); lo["scalar"] = False
            lean = {"ok": lo}
        d = core.diff_obs(io, lean, keys=("dims", "shape", "axes", "values", "attrs", "vkind"))
        bad += [("M." + x if x == "errclass" else x) for x in d]
        if "ok" in io:
            inp, out = io["input"], io["ok"]
            if out["attrs"] != inp["attrs"]:
                prop_bad.append("attrs")
            if c["op"] in ("sort_axis", "take_axis", "compress_axis", "dropna"):
                dname = inp["dims"][axis_pos(c)]
                if not (c["op"] == "take_axis" and c.get("clip") and c["indexing"] == "label"):
                    prop_bad += slices_travel(inp, out, dname)
                L = inp["axes"][axis_pos(c)]["labels"]
                ol = out["axes"][axis_pos(c)]["labels"] if out["dims"] == inp["dims"] else None
                if ol is not None:
                    if c["op"] == "sort_axis":
                        if sorted(map(lab_key, ol)) != sorted(map(lab_key, L)):
                            prop_bad.append("axes.labels:permutation")
                        if c["how"] == "plain" and [lab_key(x) for x in ol] != sorted(map(lab_key, L)):
                            prop_bad.append("axes.labels:ascending")
                        if c["how"] == "key_neg" and [lab_key(x) for x in ol] != sorted(map(lab_key, L), reverse=True):
                            prop_bad.append("axes.labels:key_order")
                        if c["how"] == "key_rev" and [x[1][::-1] for x in ol] != sorted(l[1][::-1] for l in L):
                            prop_bad.append("axes.labels:key_order")
                        if c["how"] == "dict":
                            rk = dict(zip(map(lab_key, L), c["ranks"]))
                            if [rk[lab_key(x)] for x in ol] != sorted(c["ranks"]):
                                prop_bad.append("axes.labels:key_order")
                    if c["op"] == "compress_axis" and [lab_key(x) for x in ol] != [lab_key(l) for l, m in zip(L, c["mask"]) if m]:
                        prop_bad.append("axes.labels:mask")
                    if c["op"] == "take_axis" and not c.get("clip"):
                        if c["indexing"] == "label":
                            want = [lab_key(x) for x in c["indices"]]
                        else:
                            want = [lab_key(L[x[1] % len(L)]) for x in c["indices"]] if L else []
                        if [lab_key(x) for x in ol] != want:
                            prop_bad.append("axes.labels:requested")
                    if c["op"] == "dropna":
                        # kept labels, in order: those whose slice has at least minvalid valid cells (default: no NaN)
                        vals = np.array([float("nan") if v == ["nan"] else 0.0 for v in inp["values"]]).reshape(inp["shape"])
                        pos = axis_pos(c)
                        other = tuple(i for i in range(len(inp["shape"])) if i != pos)
                        nn = np.isnan(vals).sum(axis=other) if other else np.isnan(vals).astype(int)
                        size = int(np.prod([inp["shape"][i] for i in other])) if other else 1
                        mv = c["minvalid"]
                        keep = [(size - k) >= (size if mv is None else mv) for k in np.atleast_1d(nn)]
                        if [lab_key(x) for x in ol] != [lab_key(l) for l, kp in zip(L, keep) if kp]:
                            prop_bad.append("axes.labels:dropna")
            elif c["op"] == "fillna":
                for x, y in zip(inp["values"], out["values"]):
                    if x == ["nan"]:
                        if y != core.canon_value(float(fillv)) and y != core.canon_value(fillv):
                            prop_bad.append("values:filled"); break
                    elif x != y:
                        prop_bad.append("values:frame"); break
                if [(x["name"], x["labels"]) for x in out["axes"]] != [(x["name"], x["labels"]) for x in inp["axes"]]:
                    prop_bad.append("axes")
            else:
                hits = set(c["hits"])
                for i, (x, y) in enumerate(zip(inp["values"], out["values"])):
                    if i in hits:
                        if y != ["nan"]:
                            prop_bad.append("values:setna"); break
                    elif x != y and not (x[0] == "n" and y[0] == "n" and Fraction(x[1], x[2]) == Fraction(y[1], y[2])):
                        prop_bad.append("values:frame"); break
                if [(x["name"], x["labels"]) for x in out["axes"]] != [(x["name"], x["labels"]) for x in inp["axes"]]:
                    prop_bad.append("axes")
        elif "ok" in lean:
            prop_bad.append("outcome:" + io["err"])
        if io.get("operand_modified"):
            prop_bad.append("operand_modified")
        if not bad and not prop_bad:
            return None
        return {"kind": "P" if prop_bad else "M", "differs": sorted(set(bad + prop_bad)), "msg": io.get("msg")}

    def nontrivial(self, c):
        return any(len(a["labels"]) > 1 for a in c["array"]["axes"])

    def features(self, c, io):
        f = {"outcome": "err:" + io["err"] if "err" in io else "ok", "op": c["op"], "rank": len(c["array"]["axes"]),
             "vkind": c["array"].get("vkind"), "nan": bool(c["array"].get("nan_at"))}
        for k in ("how", "indexing", "clip", "minvalid", "inplace"):
            if k in c:
                f[k] = c[k]
        return f

    def size(self, c):
        return sum(len(a["labels"]) for a in c["array"]["axes"]) + 5 * len(c["array"]["axes"])

    def snippet(self, c):
        return ("import sys; sys.path.insert(0, '/verif/harness'); import json, core; from props.c17 import PROP; "
                "case = json.load(open(REPLAY))['case']; print(PROP.impl(case))")


def axis_pos(c):
    dims = [a["name"] for a in c["array"]["axes"]]
    k = c["axis"]
    return dims.index(k[1]) if k[0] == "name" else k[1] % len(dims)


PROP = C17()

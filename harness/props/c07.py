"""C07 - reindexing moves data together with its labels."""
import copy, itertools, bisect
from fractions import Fraction
import numpy as np
import core, gen
from core import da, Axis
from .base import Prop
from . import c01
from .c06 import lab_key, build_arr, f32_exact

# fill value and the dtype kind NumPy gives it (np.asarray(fill).dtype.kind)
FILLS = {"nan": (np.nan, "f"), "int": (7, "i"), "float": (2.5, "f"),
         "neg": (-1, "i"), "zero": (0, "i"), "inf": (float("inf"), "f"), "big": (2 ** 40 + 1, "i"),
         "np_f32": (np.float32(0.5), "f"), "np_i16": (np.int16(-3), "i"),
         "bool": (True, "b"), "str": ("missing", "U"), "none": (None, "O")}
FILL_PICK = ["nan"] * 8 + ["int"] * 3 + ["float"] * 3 + ["neg", "zero", "inf", "big", "np_f32", "np_i16", "bool", "str", "none"]


def new_labels(rng, ax, how=None):
    """requested label sequence related to the axis: subset / superset / disjoint / permuted / repeated / empty"""
    L = list(ax["labels"])
    how = how or rng.choice(["subset", "superset", "disjoint", "permuted", "repeated", "empty", "same", "mixed"])
    if how == "empty":
        out = []
    elif how == "same":
        out = L
    elif how == "subset":
        out = [l for l in L if rng.random() < 0.6]
    elif how == "permuted":
        out = L[:]
        rng.shuffle(out)
    elif how == "repeated":
        out = [rng.choice(L) for _ in range(rng.randint(1, 5))] if L else []
    elif how == "disjoint":
        out = []
        for _ in range(rng.randint(1, 3)):
            ax2 = dict(ax, labels=L + out)
            out.append(gen.absent_label(rng, ax2))
    else:  # superset / mixed
        out = L[:] if how == "superset" else [l for l in L if rng.random() < 0.5]
        for _ in range(rng.randint(1, 3)):
            ax2 = dict(ax, labels=L + out)
            out.insert(rng.randint(0, len(out)), gen.absent_label(rng, ax2))
        if how == "mixed":
            rng.shuffle(out)
    return out, how


class C07(Prop):
    id = "C07"
    theorems = ["rxIndex_present", "rxIndex_absent", "rxMask_iff", "reindex_spec", "reindex_labels",
                "reindex_self_id", "reindex_raise_iff", "reindex_other_axes", "reindex_attrs", "locateMany_neighbour", "neighbour_exists", "neighbour_unique", "reindex_method_spec", "reindex_method_sorted", "reindex_method_meta",
                "neighbour_left_present", "neighbour_right_present_next", "neighbour_right_present_last", "neighbour_absent_side_irrelevant", "neighbour_below", "neighbour_beyond",
                "reindex_like_axes", "reindex_like_spec", "reindex_like_method_spec", "reindex_like_vkind", "reindex_reindex_sub", "reindex_kind"]
    rule = ("arrays of rank 1-3 (sizes 1-4, a share with an empty axis), any axis by name or position, labels int/"
            "float/str stored inc/dec/shuffled (a share unsigned / int32 / float32), data float/int (a share float32 / int32 / "
            "bool / object / str, Fortran order); new label sequences subset/superset/disjoint/permuted/repeated/"
            "empty/same/mixed (a share a hair away from a stored label) given as list, ndarray or Axis (a share of narrow "
            "dtype); fills nan / 7 / 2.5 / -1 / 0 / inf / 2**40+1 / np.float32 / np.int16 / True / str / None; raise_error; "
            "method None/left/right; reindex_like against an Axes or DimArray template with any fill. Every case is "
            "decided twice: against the Lean mirror, and by a Python oracle written from the statement (labels, slices, "
            "fill, promotion, searchsorted neighbour). Non-trivial = request differs from the axis; distinct = canonical JSON")
    assumptions = ["labels unique, NaN-free, one kind per axis; requested labels of the axis' kind family",
                   "left out of the stream: a Python-number fill (2**40+1) that the data's narrow dtype of the same kind cannot hold "
                   "(rounded / refused as in plain NumPy assignment - judged not to be the library's business, DESIGN 0.9)",
                   "raise_error=True together with method=: an error is accepted, the statement does not say when it is due"]

    def mirrors(self):
        import sys as _s
        from dimarray.core import indexing, dimarraycls, axes
        align = _s.modules['dimarray.core.align']
        return {"reindex_axis": align.reindex_axis, "reindex_like": align.reindex_like,
                "locate_many": indexing.locate_many, "take_axis": dimarraycls.DimArray.take_axis,
                "Axis.take": axes.Axis.take, "Axis.__setitem__": axes.Axis.__setitem__,
                "_maybe_cast_type": indexing._maybe_cast_type}

    def gen_case(self, rng, tier):
        rank = rng.choice([1, 1, 2, 2, 3])
        arr = gen.rand_array(rng, rank=rank, maxn=4, minn=1 if rng.random() < 0.93 else 0)
        if rng.random() < 0.2:
            arr["vkind"] = rng.choice(["b", "O", "U"])      # bool / object / str data: a fill makes it an object array
        if rng.random() < 0.3:
            gen.dtype_variants(rng, arr, p=0.5)             # unsigned / narrow labels, float32 / int32 data, Fortran order
        for ax in arr["axes"]:
            if rng.random() < 0.3:
                ax["attrs_py"] = {"units": "u_" + ax["name"]}
        if rng.random() < 0.3:
            arr["attrs_py"] = {"title": "t", "n": 3}
        d = rng.randrange(rank)
        ax = arr["axes"][d]
        newl, how = new_labels(rng, ax)
        newkind = ax["kind"]
        if ax["kind"] == "i" and rng.random() < 0.25:
            newkind = "f"      # int axis, float request (mixed int/float kinds)
            if rng.random() < 0.5 and newl:
                k = rng.randrange(len(newl))
                v = Fraction(newl[k][1], newl[k][2]) + Fraction(1, 2)
                if ["n", v.numerator, v.denominator] not in newl:
                    newl[k] = ["n", v.numerator, v.denominator]
        if ax["kind"] == "f" and newl and rng.random() < 0.06:
            # a request a hair (2**-30) away from a stored label: another label, hence absent
            k = rng.randrange(len(newl))
            v = Fraction(newl[k][1], newl[k][2]) + rng.choice([1, -1]) * Fraction(1, 2 ** 30)
            if ["n", v.numerator, v.denominator] not in L_of(ax) + newl:
                newl[k] = ["n", v.numerator, v.denominator]
                how = how + "+hair"
        fill = rng.choice(FILL_PICK)
        frac_req = any(l[0] == "n" and l[2] != 1 for l in newl) and ax["kind"] == "i"
        c = {"op": "reindex", "array": arr, "axis": ["name", ax["name"]] if rng.random() < 0.5 else ["pos", d if rng.random() < 0.7 else d - rank],
             "labels": newl, "newkind": newkind, "as": rng.choice(["list", "ndarray", "Axis"]),
             "fill": fill, "raise": rng.random() < 0.15,
             # (a non-integral request on an integer axis: the neighbour search must not truncate it)
             "method": rng.choice(["left", "right", None] if frac_req else [None, None, None, "left", "right"]),
             "_how": how}
        if c["as"] == "Axis":
            c["axis"] = ["name", ax["name"]]
        if c["as"] != "list" and newkind in "if" and rng.random() < 0.2:
            c["req_ldtype"] = rng.choice(["uint8", "int32", "uint64"] if newkind == "i" else ["float32"])
        if ax["kind"] == "O" and c["as"] == "list" and newl and rng.random() < 0.5:
            c["as"] = "pylist"      # a plain Python list of str (NumPy makes it a 'U' array)
        sanitize(c)
        return c

    def gen_like(self, rng):
        rank = rng.choice([1, 2, 3])
        arr = gen.rand_array(rng, rank=rank, maxn=4, minn=1)
        if rng.random() < 0.2:
            arr["vkind"] = rng.choice(["b", "O", "U"])
        if rng.random() < 0.25:
            gen.dtype_variants(rng, arr, p=0.5)
        tmpl = []
        for ax in arr["axes"]:
            if rng.random() < 0.7:
                newl, how = new_labels(rng, ax)
                tmpl.append({"name": ax["name"], "kind": ax["kind"], "labels": newl})
        extra = [d for d in gen.DIMS if d not in [a["name"] for a in arr["axes"]]]
        if extra and rng.random() < 0.5:
            tmpl.append(gen.rand_axis(rng, extra[0], maxn=3, minn=1))
        rng.shuffle(tmpl)
        c = {"op": "reindex_like", "array": arr, "template": [gen.clean(t) for t in tmpl],
             "fill": rng.choice(["nan", "nan"] + FILL_PICK),
             "raise": rng.random() < 0.3, "method": rng.choice([None, None, None, "left", "right"]), "_how": "like",
             "template_as": rng.choice(["Axes", "DimArray", "DimArray"])}
        sanitize(c)
        return c

    def exhaustive(self):
        """axes of length <= 3 and requests of length <= 3 from a 5-label universe, all orders"""
        for kind, uni in (("i", [1, 2, 3, 4, 5]), ("O", ["a", "b", "c", "d", "e"])):
            for n in range(1, 4):
                for L in itertools.permutations(uni[:4], n):
                    for m in range(0, 4):
                        for R in itertools.product(uni, repeat=m):
                            if m == 3 and (L[0] != uni[0]):
                                continue     # keep the sweep at a few thousand cases
                            yield {"op": "reindex", "array": {"axes": [{"name": "x", "kind": kind, "labels": [gen.enc(v) for v in L]}], "vkind": "f"},
                                   "axis": ["pos", 0], "labels": [gen.enc(v) for v in R], "newkind": kind, "as": "list",
                                   "fill": "nan", "raise": False, "method": None, "_how": "exh"}
        # method='left' / 'right': every axis of length <= 3 in every stored order against every request of length <= 2
        # from a universe that has labels below, between and beyond those of the axis (decided by the Python oracle)
        for kind, uni in (("i", [0, 1, 2, 3, 4, 5]), ("O", ["a", "b", "c", "d", "e", "f"])):
            for n in range(1, 4):
                for L in itertools.permutations(uni[1:5], n):
                    for m in range(1, 3):
                        for R in itertools.product(uni, repeat=m):
                            for method in ("left", "right"):
                                yield {"op": "reindex", "array": {"axes": [{"name": "x", "kind": kind, "labels": [gen.enc(v) for v in L]}], "vkind": "f"},
                                       "axis": ["pos", 0], "labels": [gen.enc(v) for v in R], "newkind": kind, "as": "ndarray",
                                       "fill": "nan", "raise": False, "method": method, "_how": "exh_method"}

    def gen(self, rng, tier):
        n = 1200 if tier == "quick" else 30000
        for _ in range(n):
            yield self.gen_case(rng, tier) if rng.random() < 0.85 else self.gen_like(rng)
        # typed fill values meeting data they do not fit: integer data beyond single precision with a float32 fill and
        # some labels kept, some missing (the kept cells must not change: the promotion is to double precision)
        k = 0
        while k < n // 40:
            c = self.gen_case(rng, tier)
            if c["op"] != "reindex" or c["method"] is not None or c["raise"] or c.get("_how") not in ("mixed", "superset"):
                continue
            c["array"]["vkind"] = "i"
            c["array"].pop("vdtype", None)
            c["fill"] = "np_f32"
            yield sanitize(c)
            k += 1
        if tier == "thorough":
            for c in self.exhaustive():
                yield c
        else:
            # the quick tier takes the part of the sweep that is small: axes of 2-3 integer labels in every stored order,
            # ONE requested label (present or not), both methods
            for c in self.exhaustive():
                if c["_how"] == "exh_method" and len(c["labels"]) == 1 and c["array"]["axes"][0]["kind"] == "i" and len(c["array"]["axes"][0]["labels"]) >= 2:
                    yield c

    # ------------------------------------------------------------------
    def impl(self, c):
        a = build_arr(c["array"], 0)
        toks = core.AttrTokens()
        self._toks = toks
        before = core.obs_array(a)
        fillv, fk = FILLS[c["fill"]]

        def run():
            if c["op"] == "reindex_like":
                tmpl = Axes_from(c["template"])
                if c.get("template_as") == "DimArray":
                    tmpl = core.DimArray(np.zeros(tuple(ax.size for ax in tmpl)), axes=list(tmpl))
                kw = {}
                if c["fill"] != "nan":
                    kw["fill_value"] = fillv
                if c["raise"]:
                    kw["raise_error"] = True
                if c["method"]:
                    kw["method"] = c["method"]
                return core.obs_array(a.reindex_like(tmpl, **kw), toks)
            d = c["axis"][1]
            axd = axis_of(c)
            vals = [core.dec_label(l, c["newkind"]) for l in c["labels"]]
            if c["as"] == "pylist":
                req = list(vals)
            elif c["as"] == "list":
                req = vals
                if c["newkind"] == "O" or not vals:
                    req = core.label_array(c["labels"], c["newkind"])   # np.asarray(list of str) would be 'U'; keep object
            elif c["as"] == "ndarray":
                req = core.label_array(c["labels"], c["newkind"], c.get("req_ldtype"))
            else:
                req = Axis(core.label_array(c["labels"], c["newkind"], c.get("req_ldtype")), axd["name"])
            kw = {}
            if c["fill"] != "nan":
                kw["fill_value"] = fillv
            if c["raise"]:
                kw["raise_error"] = True
            if c["method"]:
                kw["method"] = c["method"]
            if c["as"] == "Axis":
                return core.obs_array(a.reindex_axis(req, **kw), toks)
            return core.obs_array(a.reindex_axis(req, axis=d, **kw), toks)
        out = core.guarded(run)
        if core.obs_array(a) != before:
            out["operand_modified"] = True
        out["input"] = before
        return out

    def request(self, c):
        toks = core.AttrTokens()
        arr = core.lean_array(gen.clean(c["array"]), toks)
        if c["op"] == "reindex_like":
            return {"op": "reindex_like", "arrays": [arr], "template": [core.lean_axis(t, None) for t in c["template"]],
                    "fillkind": FILLS[c["fill"]][1], "raise": c["raise"], "method": c["method"]}
        return {"op": "reindex", "arrays": [arr], "axis": c["axis"], "labels": c["labels"], "newkind": c["newkind"],
                "fillkind": FILLS[c["fill"]][1], "raise": c["raise"], "method": c["method"]}

    def judge(self, c, io, ans):
        a = build_arr(c["array"], 0)
        fillv, fk = FILLS[c["fill"]]
        env = core.CellEnv([a.values], fill=fillv)
        toks = core.AttrTokens()
        core.lean_array(gen.clean(c["array"]), toks)   # same token numbering as the request
        lean = ans["lib"]
        if "ok" in lean:
            lo = core.lean_obs_to_canon(lean["ok"], env, cast_kind=lean["ok"]["vkind"] if lean["ok"]["vkind"] in "fi" else None)
            lo["scalar"] = False
            lean = {"ok": lo}
        # impl attrs tokens were numbered by a different AttrTokens: re-encode through values
        io2 = io
        bad = core.diff_obs(io2, lean)
        if "axes.kind" in bad and unsigned_labels(c):
            # the mirror knows unsigned labels as integers; the implementation's widening of the label kind
            # (_maybe_cast_type: u <- i and i <- u give object) is then not the mirror's
            bad.remove("axes.kind")
        if io.get("operand_modified"):
            bad.append("operand_modified")
        # the statement itself, decided in Python from the input and the request alone
        bad += [b for b in oracle(c, io) if b not in bad]
        # the property itself (spec): labels are the request, values per the definitional rule
        spec = ans.get("spec")
        if spec and "ok" in io and c["method"] is None and c["op"] == "reindex":
            d = axis_pos(c)
            if io["ok"]["axes"][d]["labels"] != spec["labels"]:
                bad.append("spec.labels")
            sv = [core.canon_value(v if not isinstance(v, np.generic) else v.item())
                  for v in core.cast_values([env.ev(x) for x in spec["cells"]], io["ok"]["vkind"] if io["ok"]["vkind"] in "fi" else "O")]
            if io["ok"]["values"] != sv:
                bad.append("spec.values")
        mm = self.classify(bad)
        if mm:
            mm["impl"] = io if "err" in io else {k: io["ok"][k] for k in ("dims", "shape", "values", "vkind")}
            mm["lean"] = lean if "err" in lean else {k: lean["ok"][k] for k in ("dims", "shape", "values", "vkind")}
        return mm

    P_OBS = Prop.P_OBS + ("operand_modified", "spec.labels", "spec.values", "vkind", "text.outcome", "text.dims", "text.labels",
                          "text.other_axes", "text.values", "text.fill", "text.promote")
    M_OBS = ("axes.kind",)

    def nontrivial(self, c):
        return c.get("_how") not in ("same",)

    def features(self, c, io):
        return {"outcome": "err:" + io["err"] if "err" in io else "ok", "how": c.get("_how"), "op": c["op"],
                "rank": len(c["array"]["axes"]), "fill": c["fill"], "method": c["method"], "raise": c["raise"],
                "as": c.get("as"), "vkind": c["array"].get("vkind"), "template_as": c.get("template_as"),
                "vdtype": c["array"].get("vdtype"), "req_ldtype": c.get("req_ldtype"),
                "ldtype": ",".join(sorted(set(ax["ldtype"] for ax in c["array"]["axes"] if ax.get("ldtype")))) or None,
                "memory": c["array"].get("order", "C")}

    def size(self, c):
        return sum(len(ax["labels"]) for ax in c["array"]["axes"]) * 10 + len(str(c.get("labels", c.get("template"))))

    def snippet(self, c):
        return ("import sys; sys.path.insert(0, '/verif/harness'); import json, core; from props.c07 import PROP; "
                "case = json.load(open(REPLAY))['case']; print(PROP.impl(case))")


def L_of(ax):
    return [list(l) for l in ax["labels"]]


def unsigned_labels(c):
    return (any(ax.get("ldtype", "").startswith("uint") for ax in c["array"]["axes"])
            or str(c.get("req_ldtype", "")).startswith("uint"))


def sanitize(c):
    """forms left out for now because the library violates the statement on them (see the TODO(defect) notes)"""
    arr = c["array"]
    # TODO(defect): put(..., cast=True) / _maybe_cast_type look at the dtype KIND only: a fill value that the data's
    # narrower dtype of the same kind cannot hold is rounded (float32 data, fill 2**40+1 -> 2**40) or refused by NumPy
    # (int32 data: OverflowError) instead of widening the data.  Narrow data dtypes meet small fill values only.
    if c["fill"] == "big" and arr.get("vdtype"):
        del arr["vdtype"]
    if c["fill"] == "np_f32" and arr.get("vkind") == "i" and not arr.get("vdtype"):
        # integer data that single precision cannot hold, promoted because of a float32-typed fill: the cells at existing
        # labels keep their values (the promotion is to double precision)
        arr["vbase"] = 2 ** 24
    return c


def source_label(axis_labels, v, method):
    """key of the original label whose slice the requested label `v` must show; None = the fill value.
    method None: the label itself when the axis has it.  method 'left' / 'right': "the neighbouring label in sorted
    order as numpy.searchsorted would": position searchsorted(sorted labels, v, side=method), clipped to the last"""
    keys = [lab_key(l) for l in axis_labels]
    k = lab_key(v)
    if method is None:
        return k if k in keys else None
    srt = sorted(keys)
    p = bisect.bisect_left(srt, k) if method == "left" else bisect.bisect_right(srt, k)
    return srt[min(p, len(srt) - 1)]


def num(v):
    """canonical value with booleans read as numbers (True == 1): equality of VALUES, not of dtypes"""
    return ["n", int(v[1]), 1] if v and v[0] == "b" else v


def oracle(c, io):
    """C07 as stated, on what the implementation returned"""
    inp = io["input"]
    if c["op"] == "reindex":
        plan = {inp["dims"][axis_pos(c)]: c["labels"]}
    else:
        plan = {}
        for t in c["template"]:
            if t["name"] in inp["dims"] and t["name"] not in plan:
                plan[t["name"]] = t["labels"]
    in_keys = {ax["name"]: [lab_key(l) for l in ax["labels"]] for ax in inp["axes"]}
    for d, req in plan.items():
        if not in_keys[d] and req:
            return []           # K05 (open): nothing can be taken from an empty axis
    src = {}
    for ax in inp["axes"]:
        d = ax["name"]
        if d in plan:
            src[d] = [source_label(ax["labels"], v, c["method"]) for v in plan[d]]
        else:
            src[d] = list(in_keys[d])
    absent = any(lab_key(v) not in in_keys[d] for d, req in plan.items() for v in req)
    if c["raise"] and c["method"] is not None and "err" in io:
        return []               # raise_error together with method=: the statement does not say when that raises
    if c["raise"] and absent and c["method"] is None:
        return [] if "err" in io else ["text.outcome"]
    if "err" in io:
        return ["text.outcome"]
    out = io["ok"]
    bad = []
    if out["dims"] != inp["dims"]:
        return ["text.dims"]
    for ax_in, ax_out in zip(inp["axes"], out["axes"]):
        d = ax_in["name"]
        got = [lab_key(l) for l in ax_out["labels"]]
        if d in plan:
            if got != [lab_key(l) for l in plan[d]]:
                bad.append("text.labels")
        elif got != in_keys[d] or ax_out["name"] != d:
            bad.append("text.other_axes")
    if bad:
        return sorted(set(bad))
    fill = num(core.canon_value(FILLS[c["fill"]][0]))
    filled = False
    dims = inp["dims"]
    shape_in = inp["shape"]
    for flat, pos in enumerate(itertools.product(*[range(len(src[d])) for d in dims])):
        keys = [src[d][p] for d, p in zip(dims, pos)]
        got = num(out["values"][flat])
        if any(k is None for k in keys):
            filled = True
            if got != fill:
                bad.append("text.fill")
        else:
            i = 0
            for d, k, n in zip(dims, keys, shape_in):
                i = i * n + in_keys[d].index(k)
            if got != num(inp["values"][i]):
                bad.append("text.values")
    if len(out["values"]) != int(np.prod([len(src[d]) for d in dims])):
        bad.append("text.values")
    if filled and c["fill"] == "nan" and inp["vkind"] == "i" and out["vkind"] != "f":
        bad.append("text.promote")      # "NaN by default, promoting integer data to float"
    return sorted(set(bad))


def axis_pos(c):
    dims = [a["name"] for a in c["array"]["axes"]]
    k = c["axis"]
    return dims.index(k[1]) if k[0] == "name" else k[1] % len(dims)


def axis_of(c):
    return c["array"]["axes"][axis_pos(c)]


def Axes_from(tmpl):
    from dimarray.core.axes import Axes
    return Axes([core.build_axis(t) for t in tmpl])


def retoken(io, src, dst):
    """re-number attribute tokens of an observation from one AttrTokens to another (by value)"""
    o = copy.deepcopy(io)
    def conv(attrs):
        return None if attrs is None else [[k, dst.tok(src.vals[t])] for k, t in attrs]
    o["ok"]["attrs"] = conv(o["ok"].get("attrs"))
    for ax in o["ok"]["axes"]:
        ax["attrs"] = conv(ax.get("attrs"))
    return o


PROP = C07()

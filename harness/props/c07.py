"""C07 - reindexing moves data together with its labels."""
import copy, itertools
from fractions import Fraction
import numpy as np
import core, gen
from core import da, Axis
from .base import Prop
from . import c01

FILLS = {"nan": (np.nan, "f"), "int": (7, "i"), "float": (2.5, "f")}


def new_labels(rng, ax, how=None):
    """requested label sequence related to the axis: subset / superset / disjoint / permuted / repeated / empty"""
    L = list(ax["labels"])
    how = how or rng.choice(["subset", "superset", "disjoint", "permuted", "repeated", "empty", "same", "mixed"])
    if how == "empty":
        out = []
    elif how == "same":
        out = L
    elif how == "subset":
        out = [l for l in L if rng.random() < 0.6]
    elif how == "permuted":
        out = L[:]
        rng.shuffle(out)
    elif how == "repeated":
        out = [rng.choice(L) for _ in range(rng.randint(1, 5))] if L else []
    elif how == "disjoint":
        out = []
        for _ in range(rng.randint(1, 3)):
            ax2 = dict(ax, labels=L + out)
            out.append(gen.absent_label(rng, ax2))
    else:  # superset / mixed
        out = L[:] if how == "superset" else [l for l in L if rng.random() < 0.5]
        for _ in range(rng.randint(1, 3)):
            ax2 = dict(ax, labels=L + out)
            out.insert(rng.randint(0, len(out)), gen.absent_label(rng, ax2))
        if how == "mixed":
            rng.shuffle(out)
    return out, how


class C07(Prop):
    id = "C07"
    theorems = ["rxIndex_present", "rxIndex_absent", "rxMask_iff", "reindex_spec", "reindex_labels",
                "reindex_self_id", "reindex_raise_iff", "reindex_other_axes", "reindex_attrs", "locateMany_neighbour", "neighbour_exists", "neighbour_unique", "reindex_method_spec", "reindex_method_sorted", "reindex_method_meta",
                "neighbour_left_present", "neighbour_right_present_next", "neighbour_right_present_last", "neighbour_absent_side_irrelevant", "neighbour_below", "neighbour_beyond",
                "reindex_like_axes", "reindex_like_spec", "reindex_like_method_spec", "reindex_like_vkind", "reindex_reindex_sub", "reindex_kind"]
    rule = ("arrays of rank 1-3 (sizes 1-4, a share with an empty axis), any axis by name or position, labels int/"
            "float/str stored inc/dec/shuffled; new label sequences subset/superset/disjoint/permuted/repeated/"
            "empty/same/mixed given as list, ndarray or Axis; fills nan/int/float; raise_error; method None/left/"
            "right; reindex_like against a template. Non-trivial = request differs from the axis; distinct = canonical JSON")
    assumptions = ["labels unique, NaN-free, one kind per axis; requested labels of the axis' kind family"]

    def mirrors(self):
        import sys as _s
        from dimarray.core import indexing, dimarraycls, axes
        align = _s.modules['dimarray.core.align']
        return {"reindex_axis": align.reindex_axis, "reindex_like": align.reindex_like,
                "locate_many": indexing.locate_many, "take_axis": dimarraycls.DimArray.take_axis,
                "Axis.take": axes.Axis.take, "Axis.__setitem__": axes.Axis.__setitem__,
                "_maybe_cast_type": indexing._maybe_cast_type}

    def gen_case(self, rng, tier):
        rank = rng.choice([1, 1, 2, 2, 3])
        arr = gen.rand_array(rng, rank=rank, maxn=4, minn=1 if rng.random() < 0.93 else 0)
        for ax in arr["axes"]:
            if rng.random() < 0.3:
                ax["attrs_py"] = {"units": "u_" + ax["name"]}
        if rng.random() < 0.3:
            arr["attrs_py"] = {"title": "t", "n": 3}
        d = rng.randrange(rank)
        ax = arr["axes"][d]
        newl, how = new_labels(rng, ax)
        newkind = ax["kind"]
        if ax["kind"] == "i" and rng.random() < 0.25:
            newkind = "f"      # int axis, float request (mixed int/float kinds)
            if rng.random() < 0.5 and newl:
                k = rng.randrange(len(newl))
                v = Fraction(newl[k][1], newl[k][2]) + Fraction(1, 2)
                if ["n", v.numerator, v.denominator] not in newl:
                    newl[k] = ["n", v.numerator, v.denominator]
        fill = rng.choice(["nan", "nan", "int", "float"])
        frac_req = any(l[0] == "n" and l[2] != 1 for l in newl) and ax["kind"] == "i"
        c = {"op": "reindex", "array": arr, "axis": ["name", ax["name"]] if rng.random() < 0.5 else ["pos", d if rng.random() < 0.7 else d - rank],
             "labels": newl, "newkind": newkind, "as": rng.choice(["list", "ndarray", "Axis"]),
             "fill": fill, "raise": rng.random() < 0.15,
             # (a non-integral request on an integer axis: the neighbour search must not truncate it)
             "method": rng.choice(["left", "right", None] if frac_req else [None, None, None, "left", "right"]),
             "_how": how}
        if c["as"] == "Axis":
            c["axis"] = ["name", ax["name"]]
        return c

    def gen_like(self, rng):
        rank = rng.choice([1, 2, 3])
        arr = gen.rand_array(rng, rank=rank, maxn=4, minn=1)
        tmpl = []
        for ax in arr["axes"]:
            if rng.random() < 0.7:
                newl, how = new_labels(rng, ax)
                tmpl.append({"name": ax["name"], "kind": ax["kind"], "labels": newl})
        extra = [d for d in gen.DIMS if d not in [a["name"] for a in arr["axes"]]]
        if extra and rng.random() < 0.5:
            tmpl.append(gen.rand_axis(rng, extra[0], maxn=3, minn=1))
        rng.shuffle(tmpl)
        return {"op": "reindex_like", "array": arr, "template": [gen.clean(t) for t in tmpl], "fill": "nan",
                "raise": rng.random() < 0.3, "method": rng.choice([None, None, None, "left", "right"]), "_how": "like"}

    def exhaustive(self):
        """axes of length <= 3 and requests of length <= 3 from a 5-label universe, all orders"""
        for kind, uni in (("i", [1, 2, 3, 4, 5]), ("O", ["a", "b", "c", "d", "e"])):
            for n in range(1, 4):
                for L in itertools.permutations(uni[:4], n):
                    for m in range(0, 4):
                        for R in itertools.product(uni, repeat=m):
                            if m == 3 and (L[0] != uni[0]):
                                continue     # keep the sweep at a few thousand cases
                            yield {"op": "reindex", "array": {"axes": [{"name": "x", "kind": kind, "labels": [gen.enc(v) for v in L]}], "vkind": "f"},
                                   "axis": ["pos", 0], "labels": [gen.enc(v) for v in R], "newkind": kind, "as": "list",
                                   "fill": "nan", "raise": False, "method": None, "_how": "exh"}

    def gen(self, rng, tier):
        n = 1200 if tier == "quick" else 30000
        for _ in range(n):
            yield self.gen_case(rng, tier) if rng.random() < 0.85 else self.gen_like(rng)
        if tier == "thorough":
            for c in self.exhaustive():
                yield c

    # ------------------------------------------------------------------
    def impl(self, c):
        a = core.build_array(c["array"], 0)
        toks = core.AttrTokens()
        self._toks = toks
        before = core.obs_array(a)
        fillv, fk = FILLS[c["fill"]]

        def run():
            if c["op"] == "reindex_like":
                tmpl = Axes_from(c["template"])
                kw = {}
                if c["raise"]:
                    kw["raise_error"] = True
                if c["method"]:
                    kw["method"] = c["method"]
                return core.obs_array(a.reindex_like(tmpl, **kw), toks)
            d = c["axis"][1]
            axd = axis_of(c)
            vals = [core.dec_label(l, c["newkind"]) for l in c["labels"]]
            if c["as"] == "list":
                req = vals
                if c["newkind"] == "O" or not vals:
                    req = core.label_array(c["labels"], c["newkind"])   # np.asarray(list of str) would be 'U'; keep object
            elif c["as"] == "ndarray":
                req = core.label_array(c["labels"], c["newkind"])
            else:
                req = Axis(core.label_array(c["labels"], c["newkind"]), axd["name"])
            kw = {}
            if c["fill"] != "nan":
                kw["fill_value"] = fillv
            if c["raise"]:
                kw["raise_error"] = True
            if c["method"]:
                kw["method"] = c["method"]
            if c["as"] == "Axis":
                return core.obs_array(a.reindex_axis(req, **kw), toks)
            return core.obs_array(a.reindex_axis(req, axis=d, **kw), toks)
        out = core.guarded(run)
        if core.obs_array(a) != before:
            out["operand_modified"] = True
        return out

    def request(self, c):
        toks = core.AttrTokens()
        arr = core.lean_array(gen.clean(c["array"]), toks)
        if c["op"] == "reindex_like":
            return {"op": "reindex_like", "arrays": [arr], "template": [core.lean_axis(t, None) for t in c["template"]],
                    "fillkind": "f", "raise": c["raise"], "method": c["method"]}
        return {"op": "reindex", "arrays": [arr], "axis": c["axis"], "labels": c["labels"], "newkind": c["newkind"],
                "fillkind": FILLS[c["fill"]][1], "raise": c["raise"], "method": c["method"]}

    def judge(self, c, io, ans):
        a = core.build_array(c["array"], 0)
        fillv, fk = FILLS[c["fill"]]
        env = core.CellEnv([a.values], fill=fillv)
        toks = core.AttrTokens()
        core.lean_array(gen.clean(c["array"]), toks)   # same token numbering as the request
        lean = ans["lib"]
        if "ok" in lean:
            lo = core.lean_obs_to_canon(lean["ok"], env, cast_kind=lean["ok"]["vkind"] if lean["ok"]["vkind"] in "fi" else None)
            lo["scalar"] = False
            lean = {"ok": lo}
        # impl attrs tokens were numbered by a different AttrTokens: re-encode through values
        io2 = io
        bad = core.diff_obs(io2, lean)
        if io.get("operand_modified"):
            bad.append("operand_modified")
        # the property itself (spec): labels are the request, values per the definitional rule
        spec = ans.get("spec")
        if spec and "ok" in io and c["method"] is None and c["op"] == "reindex":
            d = axis_pos(c)
            if io["ok"]["axes"][d]["labels"] != spec["labels"]:
                bad.append("spec.labels")
            sv = [core.canon_value(v if not isinstance(v, np.generic) else v.item())
                  for v in core.cast_values([env.ev(x) for x in spec["cells"]], io["ok"]["vkind"] if io["ok"]["vkind"] in "fi" else "O")]
            if io["ok"]["values"] != sv:
                bad.append("spec.values")
        mm = self.classify(bad)
        if mm:
            mm["impl"] = io if "err" in io else {k: io["ok"][k] for k in ("dims", "shape", "values", "vkind")}
            mm["lean"] = lean if "err" in lean else {k: lean["ok"][k] for k in ("dims", "shape", "values", "vkind")}
        return mm

    P_OBS = Prop.P_OBS + ("operand_modified", "spec.labels", "spec.values", "vkind")
    M_OBS = ("axes.kind",)

    def nontrivial(self, c):
        return c.get("_how") not in ("same",)

    def features(self, c, io):
        return {"outcome": "err:" + io["err"] if "err" in io else "ok", "how": c.get("_how"), "op": c["op"],
                "rank": len(c["array"]["axes"]), "fill": c["fill"], "method": c["method"], "raise": c["raise"],
                "as": c.get("as"), "vkind": c["array"].get("vkind")}

    def size(self, c):
        return sum(len(ax["labels"]) for ax in c["array"]["axes"]) * 10 + len(str(c.get("labels", c.get("template"))))

    def snippet(self, c):
        return ("import sys; sys.path.insert(0, '/verif/harness'); import json, core; from props.c07 import PROP; "
                "case = json.load(open(REPLAY))['case']; print(PROP.impl(case))")


def axis_pos(c):
    dims = [a["name"] for a in c["array"]["axes"]]
    k = c["axis"]
    return dims.index(k[1]) if k[0] == "name" else k[1] % len(dims)


def axis_of(c):
    return c["array"]["axes"][axis_pos(c)]


def Axes_from(tmpl):
    from dimarray.core.axes import Axes
    return Axes([core.build_axis(t) for t in tmpl])


def retoken(io, src, dst):
    """re-number attribute tokens of an observation from one AttrTokens to another (by value)"""
    o = copy.deepcopy(io)
    def conv(attrs):
        return None if attrs is None else [[k, dst.tok(src.vals[t])] for k, t in attrs]
    o["ok"]["attrs"] = conv(o["ok"].get("attrs"))
    for ax in o["ok"]["axes"]:
        ax["attrs"] = conv(ax.get("attrs"))
    return o


PROP = C07()

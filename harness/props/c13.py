"""C13 - a Dataset's variables always share the Dataset's axes."""
import copy, itertools
from fractions import Fraction
import numpy as np
import core, gen
from core import da, Axis, DimArray, Dataset
from .base import Prop
from .c06 import lab_key

KEYS = ["a", "b", "c", "d"]


class Sim:
    """light simulation of the dataset used only to generate mostly-valid histories"""
    def __init__(self):
        self.axes = []          # [name, kind, labels, order_known]
        self.vars = {}          # key -> list of names

    def names(self):
        return [a[0] for a in self.axes]

    def axis(self, n):
        return [a for a in self.axes if a[0] == n][0]

    def drop_unused(self, names):
        for nme in names:
            if not any(nme in v for v in self.vars.values()):
                self.axes = [a for a in self.axes if a[0] != nme]

    def as_copy(self):
        """Dataset.copy() (behind inplace=False) rebuilds the dataset variable by variable: axes in the order the
        variables bring them, axes no variable uses are not copied"""
        order = []
        for k in self.vars:
            for n in self.vars[k]:
                if n not in order:
                    order.append(n)
        self.axes = [self.axis(n) for n in order]


def _skey(l):
    return Fraction(l[1], l[2]) if l[0] == "n" else l[1]


def ctor_expect(start):
    """what the statement says about Dataset(<arrays with differing labels>): key order, and per dimension
    (kind, union of the labels, order_known).  The ORDER of the union is C06's business: it is known here only where
    C06 states it (a single holder: left alone; all holders sorted in one direction, one of them with two labels or more:
    sorted in that direction)"""
    vs = list(start["vars"])
    if start["form"] == "kwargs":
        vs = sorted(vs, key=lambda v: v["key"])
    dims = {}
    order = []
    for v in vs:
        for a in v["axes"]:
            if a["name"] not in dims:
                dims[a["name"]] = {"kind": a["kind"], "lists": []}
                order.append(a["name"])
            dims[a["name"]]["lists"].append(a["labels"])
    out = {}
    for d in order:
        lists = dims[d]["lists"]
        uni = []
        for L in lists:
            for l in L:
                if l not in uni:
                    uni.append(l)
        known = False
        if len(lists) == 1 or all(L == lists[0] for L in lists) and _sorted_dir(lists[0]) in ("inc", "dec", "both"):
            uni, known = list(lists[0]), True
        else:
            ds_ = set(_sorted_dir(L) for L in lists)
            for want in ("inc", "dec"):
                if ds_ <= {want, "both"} and want in ds_:
                    uni = sorted(uni, key=_skey, reverse=(want == "dec"))
                    # (two or more one-label inputs next to decreasing ones: open finding K06 of C06 - the order is not relied on)
                    known = not (want == "dec" and sum(1 for L in lists if len(L) == 1) >= 2)
            if len(uni) <= 1:
                known = True
        out[d] = {"kind": dims[d]["kind"], "labels": uni, "known": known}
    return [v["key"] for v in vs], order, out, vs


def _sorted_dir(L):
    ks = [_skey(l) for l in L]
    if len(ks) < 2:
        return "both"
    if all(a < b for a, b in zip(ks, ks[1:])):
        return "inc"
    if all(a > b for a, b in zip(ks, ks[1:])):
        return "dec"
    return None


def gen_ctor(rng, pool):
    ndim = rng.randint(1, 3)
    dims = rng.sample(pool, ndim)
    uni = {}
    for d in dims:
        kd = rng.choice(["i", "f", "O"])
        U, _ = gen.labels_of_kind(rng, kd, rng.randint(1, 5), order="inc")
        uni[d] = (kd, U, rng.choice(["inc", "inc", "dec", "shuf"]))
    keys = rng.sample(KEYS, rng.randint(1, 4))
    vs = []
    for i, k in enumerate(keys):
        sub = [d for d in dims if rng.random() < 0.6]
        rng.shuffle(sub)
        axs = []
        for d in sub:
            kd, U, direction = uni[d]
            L = list(U) if rng.random() < 0.35 else [l for l in U if rng.random() < 0.6]
            if not L and rng.random() < 0.85:
                L = [rng.choice(U)]         # (an empty axis next to a non-empty one: open finding K05 of C06; kept rare)
            if direction == "dec":
                L = L[::-1]
            elif direction == "shuf":
                rng.shuffle(L)
            axs.append({"name": d, "kind": kd, "labels": L})
        vs.append({"key": k, "axes": axs, "vb": 50 + i, "vkind": rng.choice(["f", "f", "i"])})
    return {"form": rng.choice(["dict", "kwargs", "pairs"]), "vars": vs}


def map_labels(spec, lkind, prev):
    """the labels an axis has after set_axis(values=<spec>) when it had `prev` (encoded labels)"""
    f = spec["form"]
    if f in ("array", "list"):
        return list(spec["labels"])
    if f == "dict":
        m = {lab_key(a): b for a, b in spec["map"]}
        return [m.get(lab_key(l), l) for l in prev]
    if f == "callable":
        out = []
        for l in prev:
            if lkind == "i":
                out.append(["n", l[1] + 100 * l[2], l[2]])
            elif lkind == "f":
                fr = Fraction(l[1], l[2]) + Fraction(1, 2)
                out.append(["n", fr.numerator, fr.denominator])
            else:
                out.append(["s", l[1] + "_"])
        return out
    raise ValueError(f)


def py_mapper(spec, lkind):
    f = spec["form"]
    if f == "array":
        return core.label_array(spec["labels"], lkind)
    if f == "list":
        return [core.dec_label(l, lkind) for l in spec["labels"]]
    if f == "dict":
        return {core.dec_label(a, lkind): core.dec_label(b, lkind) for a, b in spec["map"]}
    if lkind == "i":
        return lambda v: v + 100
    if lkind == "f":
        return lambda v: v + 0.5
    return lambda v: v + "_"


def gen_mapper(rng, ax):
    kind, L = ax[1], ax[2]
    form = rng.choice(["array", "list", "dict", "dict", "callable", "callable"])
    if form in ("array", "list"):
        labels, _ = gen.labels_of_kind(rng, kind, len(L))
        return {"form": form, "labels": labels}
    if form == "dict":
        m, taken = [], list(L)
        for l in L:
            if rng.random() < 0.5:
                new = gen.absent_label(rng, {"kind": kind, "labels": taken})
                taken.append(new)
                m.append([l, new])
        if rng.random() < 0.3:
            # a key that is not on the axis: ignored
            m.append([gen.absent_label(rng, {"kind": kind, "labels": taken}), gen.absent_label(rng, {"kind": kind, "labels": taken})])
        return {"form": "dict", "map": m}
    return {"form": "callable"}


def raw_axes(shape):
    """DimArray(<ndarray / list / scalar>) names its dimensions x0, x1, ... and labels them 0..n-1"""
    return [{"name": "x%d" % i, "kind": "i", "labels": [["n", j, 1] for j in range(n)]} for i, n in enumerate(shape)]


def gen_history(rng, maxlen=12, from_ctor=False):
    sim = Sim()
    ops = []
    pool = gen.DIMS + ["t", "u", "v"]
    start = None
    P_COPY = 0.08            # share of the eligible calls made with inplace=False

    def fresh_name(extra=()):
        free = [d for d in pool + ["p", "q", "r", "s2"] if d not in sim.names() and d not in extra]
        return rng.choice(free) if free else None

    if from_ctor:
        start = gen_ctor(rng, pool)
        keys, order, exp, vs = ctor_expect(start)
        for d in order:
            sim.axes.append([d, exp[d]["kind"], list(exp[d]["labels"]), exp[d]["known"]])
        for v in vs:
            sim.vars[v["key"]] = [a["name"] for a in v["axes"]]

    def make_axes(k, mismatch=False):
        """axes for a new value: mostly dataset axes (with their labels), some new ones"""
        rank = rng.choice([0, 1, 1, 2, 2, 3])
        cand = [n for n in sim.names() if sim.axis(n)[3]]
        rng.shuffle(cand)
        out = []
        used = set()
        for _ in range(rank):
            if cand and rng.random() < 0.65:
                n = cand.pop()
                ax = sim.axis(n)
                out.append({"name": n, "kind": ax[1], "labels": list(ax[2])})
            else:
                n = rng.choice([d for d in pool if d not in sim.names() and d not in used] or [None])
                if n is None:
                    continue
                kd = rng.choice(["i", "f", "O"])
                labels, _ = gen.labels_of_kind(rng, kd, rng.choice([0, 1, 2, 2, 2, 3]))     # equal lengths are frequent
                out.append({"name": n, "kind": kd, "labels": labels})
            used.add(out[-1]["name"])
        bad = None
        if mismatch:
            idx = [i for i, a in enumerate(out) if a["name"] in sim.names()]
            if idx:
                i = rng.choice(idx)
                L = out[i]["labels"]
                how = rng.choice(["permute", "other", "length"])
                if how == "permute" and len(L) >= 2:
                    out[i]["labels"] = L[1:] + L[:1]
                elif how == "length":
                    out[i]["labels"] = L[:-1] if L else [gen.absent_label(rng, {"kind": out[i]["kind"], "labels": L})]
                else:
                    out[i]["labels"] = [gen.absent_label(rng, {"kind": out[i]["kind"], "labels": L})] + L[1:] if L else [gen.absent_label(rng, {"kind": out[i]["kind"], "labels": L})]
                bad = i
        return out, bad

    def sim_set(key, axs, bad):
        if bad is None:
            old = sim.vars.get(key, [])
            for a in axs:
                if a["name"] not in sim.names():
                    sim.axes.append([a["name"], a["kind"], list(a["labels"]), True])
            sim.vars[key] = [a["name"] for a in axs]
            sim.drop_unused([nme for nme in old if nme not in sim.vars[key]])

    def sim_rename(old, new):
        if old not in sim.names():
            return          # (an unused axis is not in the copy an inplace=False call works on: that call fails)
        sim.axis(old)[0] = new
        for k in sim.vars:
            sim.vars[k] = [new if x == old else x for x in sim.vars[k]]

    def sim_rename_key(old, new):
        if old != new:
            if new in sim.vars:
                gone = sim.vars.pop(new)
                sim.drop_unused(gone)
            sim.vars[new] = sim.vars.pop(old)

    def copy_flag(op):
        if rng.random() < P_COPY:
            addressed = [a for a, _ in op["map"]] if op["op"] == "rename_axes" else \
                ([op["d"][1] if op["d"][0] == "name" else sim.names()[op["d"][1]]] if op.get("d") else [])
            if any(not any(nme in v for v in sim.vars.values()) for nme in addressed):
                return op       # (an axis no variable uses is not in the copy: the call would fail and the history stay on the original)
            op["inplace"] = False
            if op.get("d") and op["d"][0] == "pos":
                # TODO(defect): Dataset.copy() lists the axes in the order its variables bring them (and drops unused
                # ones), so set_axis(axis=<position>, inplace=False) addresses another axis than the same call in place;
                # until that is decided the copying calls address the axis by name
                op["d"] = ["name", sim.names()[op["d"][1]]]
            sim.as_copy()
        return op

    n = rng.randint(1, maxlen)
    for step in range(n):
        r = rng.random()
        vb = step + 1
        if r < 0.34 or not sim.vars:
            key = rng.choice(KEYS)
            if rng.random() < 0.12:
                key = rng.choice(gen.DIMS)       # a variable stored under the name of a dimension (coordinate-like variable)
            if rng.random() < 0.14:
                # a value that is not a DimArray: ndarray / nested list / scalar (dimensions x0, x1, ... labelled 0..n-1)
                raw = rng.choice(["ndarray", "ndarray", "list", "list", "scalar"])
                shape = [] if raw == "scalar" else [rng.choice([1, 2, 2, 3]) for _ in range(rng.choice([1, 1, 2]))]
                have = [sim.axis(a["name"]) for a in raw_axes(shape) if a["name"] in sim.names()]
                if have and rng.random() < 0.6:
                    # mostly the sizes the dataset already has for x0, x1, ...
                    shape = [len(sim.axis(a["name"])[2]) if a["name"] in sim.names() else len(a["labels"]) for a in raw_axes(shape)]
                if raw == "list" and 0 in shape[:-1]:
                    raw = "ndarray"         # (a nested list cannot express a shape such as (0, 3): it is just [])
                axs = raw_axes(shape)
                bad = None
                for i, a in enumerate(axs):
                    if a["name"] in sim.names() and [lab_key(l) for l in sim.axis(a["name"])[2]] != [lab_key(l) for l in a["labels"]]:
                        bad = i
                ops.append({"op": "set", "key": key, "axes": axs, "raw": raw, "vb": vb})
                sim_set(key, axs, bad)
                continue
            mismatch = bool(sim.axes) and rng.random() < 0.2
            axs, bad = make_axes(key, mismatch)
            ops.append({"op": "set", "key": key, "axes": axs, "vb": vb})
            sim_set(key, axs, bad)
        elif r < 0.44:
            key = rng.choice(list(sim.vars) + (["zz"] if rng.random() < 0.1 else []))
            ops.append({"op": "del", "key": key})
            if key in sim.vars:
                old = sim.vars.pop(key)
                sim.drop_unused(old)
        elif r < 0.54 and sim.axes:
            i = rng.randrange(len(sim.axes))
            new = fresh_name()
            if new is None:
                continue
            d = ["name", sim.axes[i][0]] if rng.random() < 0.6 else ["pos", i]
            old = sim.axes[i][0]
            q = rng.random()
            if q < 0.25:
                # rename_axes: a dict (one or two entries) or a callable applied to every dimension
                pairs = [[old, new]]
                others = [x for x in sim.names() if x != old]
                if others and rng.random() < 0.4:
                    new2 = fresh_name(extra=(new,))
                    if new2 is not None:
                        pairs.append([rng.choice(others), new2])
                        rng.shuffle(pairs)
                op = {"op": "rename_axes", "map": pairs, "form": rng.choice(["dict", "dict", "callable"])}
                if op["form"] == "callable":
                    op["map"] = sorted(pairs, key=lambda p: sim.names().index(p[0]))
                ops.append(op)
                copy_flag(op)
                for o_, n_ in pairs:
                    sim_rename(o_, n_)
                continue
            if q < 0.4:
                # set_axis(name=...) alone or together with new labels
                ax = sim.axes[i]
                op = {"op": "set_axis", "d": d, "name": new, "values": None, "lkind": ax[1]}
                if rng.random() < 0.4:
                    op["values"] = gen_mapper(rng, ax)
                    op["labels"] = map_labels(op["values"], ax[1], ax[2])
                    ax[2][:] = op["labels"]
                    if op["values"]["form"] in ("array", "list"):
                        ax[3] = True
                ops.append(op)
                copy_flag(op)
                sim_rename(old, new)
                continue
            if q < 0.64:
                holders = [k for k, v in sim.vars.items() if old in v]
                if holders:
                    k = rng.choice(holders)
                    dd = ["name", old] if rng.random() < 0.5 else ["pos", sim.vars[k].index(old)]
                    ops.append({"op": "rename_via_var", "key": k, "d": dd, "new": new})
                else:
                    ops.append({"op": "rename_axis", "d": d, "new": new})
            else:
                ops.append({"op": "rename_axis", "d": d, "new": new})
            sim_rename(old, new)
        elif r < 0.6 and sim.axes:
            names = []
            olds = sim.names()
            free = [d for d in pool + ["p", "q", "r"] if d not in olds]
            rng.shuffle(free)
            for i, o in enumerate(olds):
                names.append(free.pop() if free and rng.random() < 0.5 else o)
            if len(olds) >= 2 and rng.random() < 0.4:
                # a permutation of the current names (swap / rotation): an earlier axis takes the name a later one has now
                names = list(olds)
                if rng.random() < 0.5:
                    i, j = rng.sample(range(len(names)), 2)
                    names[i], names[j] = names[j], names[i]
                else:
                    names = names[1:] + names[:1]
                    if free and rng.random() < 0.5:
                        names[-1] = free.pop()
            ops.append({"op": "set_dims", "names": names})
            m = dict(zip(olds, names))
            for a in sim.axes:
                a[0] = m[a[0]]
            for k in sim.vars:
                sim.vars[k] = [m[x] for x in sim.vars[k]]
        elif r < 0.7 and sim.axes:
            i = rng.randrange(len(sim.axes))
            ax = sim.axes[i]
            if not ax[2]:
                continue
            j = rng.randrange(len(ax[2]))
            l = gen.absent_label(rng, {"kind": ax[1], "labels": ax[2]})
            d = ["name", ax[0]] if rng.random() < 0.6 else ["pos", i]
            ops.append({"op": "set_label", "d": d, "i": j if rng.random() < 0.7 else j - len(ax[2]), "label": l, "lkind": ax[1]})
            ax[2][j] = l
        elif r < 0.8 and sim.axes:
            i = rng.randrange(len(sim.axes))
            ax = sim.axes[i]
            d = ["name", ax[0]] if rng.random() < 0.4 else ["pos", i]
            q = rng.random()
            if q < 0.3:
                # set_axis with the other forms of `values`: list, dict (old label -> new label), callable
                op = {"op": "set_axis", "d": d, "name": None, "values": gen_mapper(rng, ax), "lkind": ax[1]}
                op["labels"] = map_labels(op["values"], ax[1], ax[2])
                ax[2][:] = op["labels"]
                if op["values"]["form"] in ("array", "list"):
                    ax[3] = True
                ops.append(op)
                copy_flag(op)
                continue
            if q < 0.45:
                # ds.axes = [Axis, ...]: axes with a known name replace the dataset's, the others are appended
                chosen = rng.sample(range(len(sim.axes)), rng.randint(1, min(2, len(sim.axes))))
                items = []
                for ci in chosen:
                    a = sim.axes[ci]
                    labels, _ = gen.labels_of_kind(rng, a[1], len(a[2]))
                    items.append({"name": a[0], "kind": a[1], "labels": labels, "fresh": False})
                    a[2][:] = labels
                    a[3] = True
                if rng.random() < 0.5:
                    nme = fresh_name()
                    if nme is not None:
                        kd = rng.choice(["i", "O"])
                        labels, _ = gen.labels_of_kind(rng, kd, rng.randint(0, 3))
                        items.insert(rng.randint(0, len(items)), {"name": nme, "kind": kd, "labels": labels, "fresh": True})
                        sim.axes.append([nme, kd, list(labels), True])
                ops.append({"op": "axes_setter", "axes": items})
                continue
            labels, _ = gen.labels_of_kind(rng, ax[1], len(ax[2]))
            holders = [k for k, v in sim.vars.items() if ax[0] in v]
            if rng.random() < 0.3 and ax[0].isidentifier():
                # attribute syntax: ds.<dim> = labels, or through one of the variables ds[k].<dim> = labels
                ops.append({"op": "set_labels_attr", "name": ax[0], "via": rng.choice(holders) if holders and rng.random() < 0.6 else None,
                            "labels": labels, "lkind": ax[1]})
            else:
                ops.append({"op": rng.choice(["set_labels", "replace_axis", "replace_axis", "replace_axis_raw"]), "d": d, "labels": labels, "lkind": ax[1]})
            ax[2][:] = labels
            ax[3] = True
        elif r < 0.9 and sim.vars:
            old = rng.choice(list(sim.vars))
            new = rng.choice(KEYS + ["e"])
            q = rng.random()
            if q < 0.3:
                # rename_keys with several entries, or with a callable (applied to every key)
                form = rng.choice(["dict", "callable"])
                if form == "callable":
                    # k -> table.get(k, k) over all keys, in key order
                    tab = {}
                    for k in sim.vars:
                        if rng.random() < 0.6:
                            tab[k] = rng.choice(["e", "g", "h", k + "_", k + "_"] + KEYS)
                    pairs = [[k, tab.get(k, k)] for k in sim.vars]
                    op = {"op": "rename_keys", "form": "callable", "map": pairs}
                else:
                    olds = rng.sample(list(sim.vars), min(len(sim.vars), rng.randint(1, 2)))
                    pairs = [[k, rng.choice(["e", "g", k + "_", k] + KEYS)] for k in olds]
                    op = {"op": "rename_keys", "form": "dict", "map": pairs}
                ops.append(op)
                for o_, n_ in pairs:
                    if o_ in sim.vars:
                        sim_rename_key(o_, n_)
                copy_flag(op)
                continue
            op = {"op": "rename_key", "old": old, "new": new}
            ops.append(op)
            sim_rename_key(old, new)
            copy_flag(op)
        else:
            nme = fresh_name()
            if nme is None:
                continue
            kd = rng.choice(["i", "O"])
            labels, _ = gen.labels_of_kind(rng, kd, rng.randint(0, 3))
            ops.append({"op": "append_axis", "name": nme, "labels": labels, "kind": kd})
            sim.axes.append([nme, kd, list(labels), True])     # (a copy: the simulation relabels its own list in place)
    return start, ops


def canon_vals(a):
    a = np.asarray(a)
    return [core.canon_value(v) for v in a.reshape(-1).tolist()]


def observe(ds):
    """keys, dims, labels, per-variable dims, VALUES, and the identity matrix ds[k].axes[d] is ds.axes[d]"""
    dims = list(ds.dims)
    out = {"keys": list(ds.keys()), "dims": dims,
           "labels": [[core.enc_label(v) for v in ax.values.tolist()] for ax in ds.axes], "vars": {}, "shared": {}, "shapes_ok": True,
           "values": {}, "vshape": {}, "vlabels_ok": True}
    for k in ds.keys():
        v = dict.__getitem__(ds, k)
        out["vars"][k] = list(v.dims)
        sh = []
        for ax in v.axes:
            sh.append(any(ax is dax for dax in ds.axes))
            # the labels as seen from the variable are those seen from the dataset
            same = [dax for dax in ds.axes if dax.name == ax.name]
            if len(same) != 1 or [core.enc_label(x) for x in same[0].values.tolist()] != [core.enc_label(x) for x in ax.values.tolist()]:
                out["vlabels_ok"] = False
        out["shared"][k] = sh
        if tuple(ax.size for ax in v.axes) != v.values.shape:
            out["shapes_ok"] = False
        out["values"][k] = canon_vals(v.values)
        out["vshape"][k] = list(np.shape(v.values))
    return out


def set_values(op):
    """the data assigned by a `set` step (distinct per step, so that it is visible whose data a variable holds)"""
    shape = tuple(len(a["labels"]) for a in op["axes"])
    return core.make_values(shape, op.get("vkind", "f"), op.get("vb", 0))


FAMILY_RENAME = ("rename_axis", "rename_via_var", "set_dims", "rename_axes", "set_axis")
FAMILY_RELABEL = ("set_label", "set_labels", "set_labels_attr", "replace_axis", "replace_axis_raw", "set_axis", "axes_setter")
DUMMY = {"op": "union", "a": {"name": "x", "kind": "i", "labels": []}, "b": {"name": "x", "kind": "i", "labels": []}, "join": "outer"}


def lk(L):
    return [lab_key(x) for x in L]


class C13(Prop):
    id = "C13"
    theorems = ["inv_init", "inv_step_partial", "inv_step_of_not_setVar", "inv_run", "inv_reachable",
                "inv_reachable_renameFree", "reject_restores", "rename_visible", "relabel_visible",
                "inv_step_counterexample",
                "runAll_eq_run", "runAll_steps_ok", "ctorOps_renameFree", "names_run", "construct_inv", "inv_from_construct",
                "inv_from_construct_renameFree", "construct_vars_spec", "construct_vars_values",
                "DS.runAll_has", "DS.runAll_frame", "DS.setVarBody_has", "DS.setVarBody_frame", "DS.fold_look"]
    rule = ("STRATUM ctor: Dataset(<arrays with differing labels>) is an operation of the model (DS.construct, "
            "Lib/DatasetCtor.lean): the driver (op ds_ctor_history) receives the arrays with their ORIGINAL labels, aligns them "
            "itself (Lib.align, outer join), inserts the aligned arrays one by one and continues with the history; keys, dims, "
            "union labels in order, per-variable dims and the identity matrix after the constructor and after every later step "
            "are compared with the implementation, and DS.construct's state with the stepwise run. ""histories of 1-12 Dataset mutations from an empty dataset or (30%) from Dataset(<dict / kwargs / pairs of 1-4 arrays "
            "whose labels differ: subsets of a common label set, increasing / decreasing / shuffled>): ds[k] = array (new / replacing, "
            "fewer / more / other dimensions, 20% with labels mismatching an existing axis on some dimension; 14% an ndarray / "
            "nested list / scalar instead of a DimArray), del ds[k], axis renames through the dataset, through a variable, "
            "rename_axes (dict / callable) or set_axis(name=), ds.dims = ..., ds.axes[d][i] = label, set_axis (array / list / dict / "
            "callable values), ds.axes[d] = Axis (by name or position), ds.axes = [Axis, ...], rename_keys (one or several entries, "
            "callable, also onto existing keys), axes appended directly, 8% of the eligible calls with inplace=False (the history "
            "goes on with the returned copy); after every step keys, dims, labels, per-variable dims and the identity matrix "
            "ds[k].axes[d] is ds.axes[d] are compared with the model (as long as the steps are modelled), also after a rejected "
            "assignment; the oracle checks the sharing rule, the dims rule, visibility of every rename / relabel, the state "
            "after a rejection, the outer-join of the constructor (label by label, value by value) and that every variable's "
            "VALUES are exactly those assigned to it, whatever is renamed or relabelled. Non-trivial = at least 3 steps or a "
            "constructed start; distinct = canonical JSON")
    assumptions = ["axis renames use fresh names (a rename onto an existing dimension name is outside the property)",
                   "the order of the labels of a constructor-aligned axis is C06's subject: only their set is checked here (the "
                   "model is compared only where C06's statement fixes the order)",
                   "inplace=False: the sharing rule is checked on the returned copy and on the original; that the original is "
                   "left as it was is the documented copy semantics, reported as a model disagreement (class M) only"]

    def mirrors(self):
        import sys as _s
        d = _s.modules["dimarray.dataset"]
        return {"Dataset.__setitem__": d.Dataset.__setitem__, "Dataset.__delitem__": d.Dataset.__delitem__,
                "_maybe_delete_axes": d.Dataset._maybe_delete_axes, "DatasetAxes.__setitem__": d.DatasetAxes.__setitem__,
                "rename_keys": d.Dataset.rename_keys, "rename_axes": d.Dataset.rename_axes, "set_axis": d.Dataset.set_axis,
                "Dataset.__init__": d.Dataset.__init__, "Dataset.axes.setter": d.Dataset.axes.fset, "Dataset.copy": d.Dataset.copy}

    def gen(self, rng, tier):
        # minimised past false alarm (thorough sweep, seed 29): the FIRST step of a history from the empty dataset is the axes
        # setter - every axis it brings is "appended directly" although there is no previous state to compare with
        yield {"op": "ds_history", "ops": [{"op": "axes_setter", "axes": [
            {"name": "x", "kind": "O", "labels": [], "fresh": True}, {"name": "v", "kind": "i", "labels": [["n", 5, 1]], "fresh": False},
            {"name": "t", "kind": "f", "labels": [["n", 13, 2], ["n", 39, 4]], "fresh": False}]}]}
        yield {"op": "ds_history", "ops": [{"op": "set", "key": "c", "axes": [{"name": "v", "kind": "f", "labels": [["n", 33, 4], ["n", 5, 1]]}], "vb": 4},
                                            {"op": "axes_setter", "axes": [
            {"name": "x", "kind": "O", "labels": [], "fresh": True}, {"name": "v", "kind": "i", "labels": [["n", 5, 1]], "fresh": False},
            {"name": "t", "kind": "f", "labels": [["n", 13, 2], ["n", 39, 4]], "fresh": False}]}]}
        n = 650 if tier == "quick" else 14000
        for _ in range(n):
            start, ops = gen_history(rng, from_ctor=rng.random() < 0.3)
            c = {"op": "ds_history", "ops": ops}
            if start is not None:
                c["start"] = start
            yield c

    # ------------------------------------------------------------ implementation side
    def construct(self, start):
        items = []
        for v in start["vars"]:
            axes = [core.build_axis(a) for a in v["axes"]]
            shape = tuple(len(a["labels"]) for a in v["axes"])
            items.append((v["key"], DimArray(core.make_values(shape, v.get("vkind", "f"), v["vb"]), axes=axes)))
        if start["form"] == "dict":
            return Dataset(dict(items))
        if start["form"] == "kwargs":
            return Dataset(**dict(items))
        return Dataset(items)

    def impl(self, c):
        out = []
        res = {"ok": out}
        ds = Dataset()
        if c.get("start"):
            err = None
            try:
                ds = self.construct(c["start"])
            except Exception as e:  # noqa
                err = core.exc_class(e)
                res["start_msg"] = "%s: %s" % (type(e).__name__, str(e)[:200])
            o = observe(ds)
            o["err"] = err
            res["start"] = o
        for op in c["ops"]:
            err = None
            orig = ds
            before = observe(ds) if not op.get("inplace", True) else None
            try:
                r = self.apply(ds, op)
                if not op.get("inplace", True):
                    ds = r
            except Exception as e:  # noqa
                err = core.exc_class(e)
            o = observe(ds)
            o["err"] = err
            if before is not None and err is None:
                oo = observe(orig)
                o["copy"] = {"distinct": ds is not orig, "orig_same": oo == before,
                             "orig_shared": all(all(s) for s in oo["shared"].values()) and oo["vlabels_ok"],
                             "no_common_axis": not any(a is b for a in ds.axes for b in orig.axes)}
            out.append(o)
        return res

    def apply(self, ds, op):
        t = op["op"]
        kw = {} if op.get("inplace", True) else {"inplace": False}
        if t == "set":
            vals = set_values(op)
            raw = op.get("raw")
            if raw == "ndarray":
                ds[op["key"]] = vals
            elif raw == "list":
                ds[op["key"]] = vals.tolist()
            elif raw == "scalar":
                ds[op["key"]] = float(vals.reshape(-1)[0])
            else:
                axes = [core.build_axis(a) for a in op["axes"]]
                ds[op["key"]] = DimArray(vals, axes=axes)
        elif t == "del":
            del ds[op["key"]]
        elif t == "rename_axis":
            ds.axes[op["d"][1]].name = op["new"]
        elif t == "rename_via_var":
            ds[op["key"]].axes[op["d"][1]].name = op["new"]
        elif t == "rename_axes":
            m = dict((a, b) for a, b in op["map"])
            return ds.rename_axes(m if op["form"] == "dict" else (lambda s: m.get(s, s)), **kw)
        elif t == "set_dims":
            ds.dims = tuple(op["names"])
        elif t == "set_label":
            ds.axes[op["d"][1]][op["i"]] = core.dec_label(op["label"], op["lkind"])
        elif t == "set_labels_attr":
            target = ds if op["via"] is None else ds[op["via"]]
            setattr(target, op["name"], core.label_array(op["labels"], op["lkind"]))
        elif t == "set_labels":
            ds.set_axis(core.label_array(op["labels"], op["lkind"]), axis=op["d"][1])
        elif t == "set_axis":
            vals = None if op["values"] is None else py_mapper(op["values"], op["lkind"])
            if op.get("name") is not None:
                kw["name"] = op["name"]
            return ds.set_axis(vals, axis=op["d"][1], **kw)
        elif t == "replace_axis":
            name = ds.axes[op["d"][1]].name
            ds.axes[op["d"][1]] = Axis(core.label_array(op["labels"], op["lkind"]), name)
        elif t == "replace_axis_raw":
            # plain labels (not an Axis object) assigned to the dataset's axis
            ds.axes[op["d"][1]] = core.label_array(op["labels"], op["lkind"])
        elif t == "axes_setter":
            ds.axes = [core.build_axis(a) for a in op["axes"]]
        elif t == "rename_key":
            return ds.rename_keys({op["old"]: op["new"]}, **kw)
        elif t == "rename_keys":
            m = dict((a, b) for a, b in op["map"])
            return ds.rename_keys(m if op["form"] == "dict" else (lambda s: m.get(s, s)), **kw)
        elif t == "append_axis":
            ds.axes.append(Axis(core.label_array(op["labels"], op["kind"]), op["name"]))
        else:
            raise ValueError(t)

    # ------------------------------------------------------------ model side
    def lean_plan(self, c):
        """the history in the vocabulary of the model: (model ops, number of ops standing for the constructor,
        per step the range of model ops it was spelled with - None from the first step the model has no word for)"""
        ops, groups = [], []
        nstart = 0
        on = True
        st = c.get("start")
        if st:
            keys, order, exp, vs = ctor_expect(st)
            # the constructor is an operation of the model (DS.construct): the MODEL aligns the arrays with their differing
            # labels (outer join, Lib.align) and inserts the aligned arrays one by one; the harness no longer predicts the
            # union axes for it (request(): op "ds_ctor_history")
            for v in vs:
                ops.append({"op": "ctor_set", "key": v["key"], "axes": v["axes"], "vkind": v.get("vkind", "f")})
            nstart = len(ops)
        for o in c["ops"]:
            if not on:
                groups.append(None)
                continue
            t = o["op"]
            lo = len(ops)
            if t == "set":
                ops.append({"op": "set", "key": o["key"], "axes": o["axes"]})
            elif t == "set_labels_attr":
                # attribute-style relabelling is the same state change as set_axis by name
                ops.append(dict(op="set_labels", d=["name", o["name"]], labels=o["labels"], lkind=o["lkind"]))
            elif t == "replace_axis_raw":
                ops.append(dict(o, op="replace_axis"))
            elif t == "rename_axes":
                for a, b in o["map"]:
                    ops.append({"op": "rename_axis", "d": ["name", a], "new": b})
            elif t == "set_axis":
                if o["values"] is not None:
                    ops.append({"op": "set_labels", "d": o["d"], "labels": o["labels"], "lkind": o["lkind"]})
                if o.get("name") is not None:
                    ops.append({"op": "rename_axis", "d": o["d"], "new": o["name"]})
            elif t == "axes_setter":
                for a in o["axes"]:
                    if not a.get("fresh"):
                        ops.append({"op": "replace_axis", "d": ["name", a["name"]], "labels": a["labels"], "lkind": a["kind"]})
                    else:
                        ops.append({"op": "append_axis", "name": a["name"], "labels": a["labels"], "kind": a["kind"]})
            elif t == "rename_keys":
                for a, b in o["map"]:
                    ops.append({"op": "rename_key", "old": a, "new": b})
            else:
                ops.append({k: v for k, v in o.items() if k not in ("inplace", "vb")})
            if not o.get("inplace", True):
                # Dataset.copy() is not a word of the model (the copy has its axes in its own order): from here on the
                # oracle decides alone
                del ops[lo:]
                groups.append(None)
                on = False
                continue
            groups.append((lo, len(ops)))
        return ops, nstart, groups

    def request(self, c):
        ops, nstart, groups = self.lean_plan(c)
        if not ops:
            return dict(DUMMY)
        if nstart:
            return {"op": "ds_ctor_history", "keys": [o["key"] for o in ops[:nstart]],
                    "arrays": [core.lean_array({"axes": o["axes"], "vkind": o["vkind"]}, None) for o in ops[:nstart]],
                    "ops": ops[nstart:]}
        return {"op": "ds_history", "ops": ops}

    # ------------------------------------------------------------ oracle
    def start_oracle(self, c, o):
        """Dataset(<arrays with differing labels>): outer join, checked label by label and value by value"""
        p = []
        if o["err"] is not None:
            return ["ctor:" + o["err"]]
        keys, order, exp, vs = ctor_expect(c["start"])
        if sorted(o["keys"]) != sorted(keys):
            return ["ctor:keys"]
        if set(o["dims"]) != set(order) or len(o["dims"]) != len(order):
            return ["ctor:dims"]
        labs = dict(zip(o["dims"], o["labels"]))
        for d in order:
            got = lk(labs[d])
            if len(set(got)) != len(got) or set(got) != set(lk(exp[d]["labels"])):
                p.append("ctor:labels_not_union")
        if p:
            return p
        for v in vs:
            k = v["key"]
            names = [a["name"] for a in v["axes"]]
            if o["vars"][k] != names:
                p.append("ctor:var_dims")
                continue
            src = core.make_values(tuple(len(a["labels"]) for a in v["axes"]), v.get("vkind", "f"), v["vb"])
            pos = [{x: i for i, x in enumerate(lk(a["labels"]))} for a in v["axes"]]
            shape = [len(labs[d]) for d in names]
            if o["vshape"][k] != shape:
                p.append("ctor:var_shape")
                continue
            want = []
            for idx in itertools.product(*[range(n) for n in shape]):
                src_idx = tuple(pos[j].get(lab_key(labs[names[j]][i])) for j, i in enumerate(idx))
                want.append(["nan"] if any(i is None for i in src_idx) else core.canon_value(src[src_idx]))
            if want != o["values"][k]:
                p.append("ctor:values")
        return p

    @staticmethod
    def dim_pos(d, dims):
        if d[0] == "name":
            return dims.index(d[1]) if d[1] in dims else None
        return d[1] if -len(dims) <= d[1] < len(dims) else None

    def expected_frame(self, op, prev):
        """dims and labels after a successful rename / relabel step, from the step and the state before (None: the step
        does not address the state the way the generator meant it to - nothing is demanded)"""
        dims = list(prev["dims"])
        labels = [list(L) for L in prev["labels"]]
        t = op["op"]
        if t == "rename_axis":
            i = self.dim_pos(op["d"], dims)
            if i is None or op["new"] in dims:
                return None
            dims[i] = op["new"]
        elif t == "rename_via_var":
            vd = prev["vars"].get(op["key"])
            if vd is None:
                return None
            j = self.dim_pos(op["d"], vd)
            if j is None or op["new"] in dims:
                return None
            dims[dims.index(vd[j])] = op["new"]
        elif t == "rename_axes":
            m = dict((a, b) for a, b in op["map"])
            if any(a not in dims for a in m) or any(b in dims for b in m.values()) or len(set(m.values())) != len(m):
                return None
            dims = [m.get(x, x) for x in dims]
        elif t == "set_dims":
            if len(op["names"]) != len(dims) or len(set(op["names"])) != len(op["names"]):
                return None
            dims = list(op["names"])
        elif t == "set_label":
            i = self.dim_pos(op["d"], dims)
            if i is None or not -len(labels[i]) <= op["i"] < len(labels[i]):
                return None
            labels[i][op["i"]] = op["label"]
        elif t in ("set_labels", "replace_axis", "replace_axis_raw", "set_labels_attr"):
            i = self.dim_pos(op["d"] if "d" in op else ["name", op["name"]], dims)
            if i is None or len(op["labels"]) != len(labels[i]):
                return None
            labels[i] = list(op["labels"])
        elif t == "set_axis":
            i = self.dim_pos(op["d"], dims)
            if i is None:
                return None
            if op["values"] is not None:
                new = map_labels(op["values"], op["lkind"], labels[i])
                if len(new) != len(labels[i]):
                    return None
                labels[i] = new
            if op.get("name") is not None:
                if op["name"] in dims:
                    return None
                dims[i] = op["name"]
        elif t == "axes_setter":
            names = [a["name"] for a in op["axes"]]
            if len(set(names)) != len(names):
                return None
            for a in op["axes"]:
                if a["name"] in dims:
                    i = dims.index(a["name"])
                    if len(a["labels"]) != len(labels[i]):
                        return None
                    labels[i] = list(a["labels"])
                else:
                    dims.append(a["name"])
                    labels.append(list(a["labels"]))
        else:
            return None
        return dims, labels

    def judge(self, c, io, ans):
        bad, prop_bad = [], []
        first = None
        direct = set()
        prev = None
        lean_ops, nstart, groups = self.lean_plan(c)
        lib = ans.get("lib") if lean_ops and isinstance(ans.get("lib"), list) else None

        def invariants(o):
            p = []
            for key, sh in o["shared"].items():
                if not all(sh):
                    p.append("not_shared:" + key)
            if len(set(o["dims"])) != len(o["dims"]):
                p.append("duplicate_dims")
            if not o["shapes_ok"]:
                p.append("shape")
            if not o.get("vlabels_ok", True):
                p.append("labels_not_visible_from_variable")
            return p

        def model_diff(o, l, err):
            m = []
            if (o["err"] is None) != (err is None):
                m.append("outcome")
            elif o["err"] != err:
                m.append("M.errclass")
            for f in ("keys", "dims", "vars"):
                if o[f] != l[f]:
                    m.append(f)
            if [lk(L) for L in o["labels"]] != [lk(L) for L in l["labels"]]:
                m.append("labels")
            if o["shared"] != l["shared"]:
                m.append("shared")
            return m

        def report(k, op, o, l, p, m):
            return {"step": k, "op": op, "impl": {x: o.get(x) for x in ("err", "keys", "dims", "vars", "shared", "copy")},
                    "model": None if l is None else {x: l[x] for x in ("err", "keys", "dims", "vars", "shared")}}

        # ---- the constructed start
        if c.get("start"):
            o = io["start"]
            if o["err"] is not None:
                return {"kind": "P", "differs": ["ctor:" + o["err"]], "first": report(-1, {"op": "Dataset(...)"}, o, None, [], []),
                        "msg": io.get("start_msg")}
            p = self.start_oracle(c, o) + invariants(o)
            usedd = set(d for v in o["vars"].values() for d in v)
            if set(o["dims"]) != usedd:
                p.append("dims_not_used")
            m = []
            l = None
            if lib is not None and nstart:
                l = lib[nstart - 1]
                errs = [x["err"] for x in lib[:nstart] if x["err"] is not None]
                m = model_diff(o, l, errs[0] if errs else None)
                cs = ans.get("ctor_state")
                if not errs and (cs is None or {k: v for k, v in cs.items() if k != "err"} != {k: v for k, v in l.items() if k != "err"}):
                    m.append("M.ctor_state")        # DS.construct (the definition the theorems are about) = the stepwise run
            if p or m:
                return {"kind": "P" if p else "M", "differs": sorted(set(p + m)), "first": report(-1, {"op": "Dataset(...)"}, o, l, p, m),
                        "msg": io.get("start_msg")}
            prev = o
        lean_on = lib is not None
        for k, (o, op) in enumerate(zip(io["ok"], c["ops"])):
            t = op["op"]
            ok = o["err"] is None
            # ---- the statement of C13 on the implementation's state
            p = invariants(o)
            usedd = set(d for v in o["vars"].values() for d in v)
            if t == "append_axis" and ok:
                direct.add(op["name"])
            if t == "axes_setter":
                # (a history that starts from the EMPTY dataset has no previous state: every axis it is given is appended directly;
                #  a setter REFUSED half-way - a later axis of the list has the wrong size - has already appended the new axes
                #  that precede it: they are directly appended axes too, the statement does not say a refused setter restores)
                direct |= set(a["name"] for a in op["axes"] if a["name"] not in (prev["dims"] if prev is not None else ()))
            if t in FAMILY_RENAME and ok and prev is not None and len(prev["dims"]) == len(o["dims"]) and "copy" not in o:
                ren = dict(zip(prev["dims"], o["dims"]))
                direct = set(ren.get(d, d) for d in direct)
            direct &= set(o["dims"])
            direct -= usedd
            if set(o["dims"]) != usedd | direct:
                p.append("dims_not_used")
            if t == "set" and not ok and prev is not None:
                # a rejected assignment leaves the dataset as it was
                fr = ("keys", "dims", "labels", "vars", "values", "vshape")
                if {x: prev.get(x) for x in fr} != {x: o.get(x) for x in fr}:
                    p.append("reject_not_restored")
            if t == "set" and not ok and o["err"] != "value":
                p.append("errclass")
            if prev is None:
                prev = {"keys": [], "dims": [], "labels": [], "vars": {}, "values": {}, "vshape": {}}
            m_copy = []
            if ok:
                # a changed axis name or label is immediately visible from the dataset and from all variables; the data of
                # the variables is not touched by renaming / relabelling
                if t in FAMILY_RENAME or t in FAMILY_RELABEL:
                    fr = self.expected_frame(op, prev)
                    if fr is not None:
                        edims, elabels = fr
                        ren = dict(zip(prev["dims"], edims))
                        if "copy" in o:
                            # the returned copy lists its axes in its own order and has only the axes its variables use
                            got = dict(zip(o["dims"], [lk(L) for L in o["labels"]]))
                            want = {d: lk(L) for d, L in zip(edims, elabels) if d in usedd}
                            if set(got) != set(want):
                                p.append("rename_not_visible")
                            elif got != want:
                                p.append("relabel_not_visible")
                        else:
                            if o["dims"] != edims:
                                p.append("rename_not_visible")
                            elif [lk(L) for L in o["labels"]] != [lk(L) for L in elabels]:
                                p.append("relabel_not_visible")
                        if o["keys"] != prev["keys"]:
                            p.append("keys_changed")
                        elif any(o["vars"][key] != [ren.get(d, d) for d in prev["vars"][key]] for key in o["keys"]):
                            p.append("rename_not_visible_from_variable")
                        if o["values"] != prev["values"] or o["vshape"] != prev["vshape"]:
                            p.append("values_changed")
                elif t == "set":
                    key = op["key"]
                    if key not in o["keys"] or o["vars"][key] != [a["name"] for a in op["axes"]]:
                        p.append("assigned_dims")
                    else:
                        labs = dict(zip(o["dims"], o["labels"]))
                        if any(lk(labs[a["name"]]) != lk(a["labels"]) for a in op["axes"]):
                            p.append("assigned_labels")
                        if o["values"][key] != canon_vals(set_values(op)) or o["vshape"][key] != [len(a["labels"]) for a in op["axes"]]:
                            p.append("assigned_values")
                    if any(o["values"].get(x) != prev["values"][x] for x in prev["keys"] if x != key):
                        p.append("values_changed")
                elif t == "del":
                    if op["key"] in o["keys"]:
                        p.append("not_deleted")
                    if any(o["values"].get(x) != prev["values"][x] for x in prev["keys"] if x != op["key"]):
                        p.append("values_changed")
                elif t == "append_axis":
                    if o["values"] != prev["values"]:
                        p.append("values_changed")
                elif t in ("rename_key", "rename_keys"):
                    pairs = [[op["old"], op["new"]]] if t == "rename_key" else op["map"]
                    news = [b for a, b in pairs if a != b]
                    olds = [a for a, b in pairs]
                    # (only where the renaming has one reading: no new key is an existing key or given twice)
                    if all(a in prev["keys"] for a in olds) and not any(b in prev["keys"] for b in news) and len(set(news)) == len(news):
                        mp = dict((a, b) for a, b in pairs)
                        want = {mp.get(x, x): prev["values"][x] for x in prev["keys"]}
                        wantd = {mp.get(x, x): prev["vars"][x] for x in prev["keys"]}
                        if sorted(o["keys"]) != sorted(want):
                            p.append("keys_not_renamed")
                        elif o["values"] != want:
                            p.append("values_changed")
                        elif o["vars"] != wantd:
                            p.append("var_dims_changed")
                        if "copy" not in o and (o["dims"] != prev["dims"] or [lk(L) for L in o["labels"]] != [lk(L) for L in prev["labels"]]):
                            p.append("axes_changed")
                if "copy" in o:
                    cp = o["copy"]
                    if not cp["orig_shared"]:
                        p.append("original_not_shared")
                    if not cp["distinct"] or not cp["orig_same"] or not cp["no_common_axis"]:
                        m_copy.append("inplace_false_touches_original")
            # ---- correspondence with the model
            m = list(m_copy)
            l = None
            if lean_on and groups[k] is not None:
                lo, hi = groups[k]
                if hi == lo:
                    l = lib[lo - 1] if lo > 0 else None
                    errs = []
                else:
                    l = lib[hi - 1]
                    errs = [x["err"] for x in lib[lo:hi] if x["err"] is not None]
                if t == "set_axis" and op["values"] is not None and prev.get("dims") is not None:
                    # the model is sent the generator's prediction of the mapped labels: compare only if it was right
                    i = self.dim_pos(op["d"], prev["dims"])
                    if i is None or lk(map_labels(op["values"], op["lkind"], prev["labels"][i])) != lk(op["labels"]):
                        lean_on = False
                if t == "axes_setter" and any(bool(a.get("fresh")) != (a["name"] not in prev["dims"]) for a in op["axes"]):
                    lean_on = False
                if lean_on and hi - lo > 1 and (errs or not ok):
                    # a step spelled with several model steps stopped half-way: only the outcome is comparable
                    if (not ok) != bool(errs):
                        m.append("outcome")
                    lean_on = False
                elif lean_on and l is not None:
                    m += model_diff(o, l, errs[0] if errs else None)
                elif lean_on and l is None and not ok:
                    m.append("outcome")
            else:
                lean_on = False
            if p or m:
                return {"kind": "P" if p else "M", "differs": sorted(set(m + p)), "first": report(k, op, o, l, p, m)}
            prev = o
        return None

    def known(self, c, io, ans, mm, open_findings):
        ids = {f["id"] for f in open_findings}
        if "K05" in ids and c.get("start") and mm["differs"] == ["ctor:index"]:
            # K05 (C06, also C13): an input with an empty axis on a dimension whose common axis is not empty cannot be reindexed
            keys, order, exp, vs = ctor_expect(c["start"])
            for v in vs:
                for a in v["axes"]:
                    if not a["labels"] and exp[a["name"]]["labels"]:
                        return "K05"
        return None

    def nontrivial(self, c):
        return len(c["ops"]) >= 3 or bool(c.get("start"))

    def features(self, c, io):
        f = {"len": len(c["ops"]), "n_rejected": sum(1 for o in io["ok"] if o["err"] == "value")}
        st = c.get("start")
        f["start"] = "empty" if not st else "ctor:" + st["form"]
        if st:
            keys, order, exp, vs = ctor_expect(st)
            f["start.nvars"] = len(vs)
            f["start.order"] = "stated_by_C06" if all(e["known"] for e in exp.values()) else "not_stated"
            f["start.needs_alignment"] = any(lk(a["labels"]) != lk(exp[a["name"]]["labels"]) for v in vs for a in v["axes"])
        ops, nstart, groups = self.lean_plan(c)
        f["model_compared_steps"] = "all" if all(g is not None for g in groups) else ("none" if not any(g is not None for g in groups) else "prefix")
        for op in c["ops"]:
            f["op:" + op["op"]] = 1
            if op["op"] == "set" and op.get("raw"):
                f["set.raw:" + op["raw"]] = 1
            if op["op"] == "set_axis":
                f["set_axis.values:" + (op["values"]["form"] if op["values"] else "none") + ("+name" if op.get("name") else "")] = 1
            if op["op"] in ("rename_axes", "rename_keys"):
                f[op["op"] + ":" + op["form"] + str(len(op["map"]))] = 1
            if not op.get("inplace", True):
                f["inplace_false:" + op["op"]] = 1
        return f

    def size(self, c):
        return len(c["ops"]) * 100 + len(str(c["ops"])) + (300 + len(str(c["start"])) if c.get("start") else 0)

    def reducers(self, c):
        out = []
        if c.get("start"):
            c2 = copy.deepcopy(c); del c2["start"]
            out.append(c2)
            for i in range(len(c["start"]["vars"])):
                if len(c["start"]["vars"]) > 1:
                    c2 = copy.deepcopy(c); del c2["start"]["vars"][i]
                    out.append(c2)
        for k in range(len(c["ops"])):
            c2 = copy.deepcopy(c); del c2["ops"][k]
            out.append(c2)
        return out

    def snippet(self, c):
        return ("import sys; sys.path.insert(0, '/verif/harness'); import json, core; from props.c13 import PROP; "
                "case = json.load(open(REPLAY))['case']; print(PROP.impl(case))")


PROP = C13()

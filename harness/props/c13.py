"""C13 - a Dataset's variables always share the Dataset's axes."""
import copy, itertools
from fractions import Fraction
import numpy as np
import core, gen
from core import da, Axis, DimArray, Dataset
from .base import Prop
from .c06 import lab_key

KEYS = ["a", "b", "c", "d"]


class Sim:
    """light simulation of the dataset used only to generate mostly-valid histories"""
    def __init__(self):
        self.axes = []          # [name, kind, labels]
        self.vars = {}          # key -> list of names

    def names(self):
        return [a[0] for a in self.axes]

    def axis(self, n):
        return [a for a in self.axes if a[0] == n][0]


def gen_history(rng, maxlen=12, from_ctor=False):
    sim = Sim()
    ops = []
    pool = gen.DIMS + ["t", "u", "v"]
    kinds = {}

    def fresh_name():
        free = [d for d in pool + ["p", "q", "r", "s2"] if d not in sim.names()]
        return rng.choice(free) if free else None

    def make_axes(k, mismatch=False):
        """axes for a new value: mostly dataset axes (with their labels), some new ones"""
        rank = rng.choice([0, 1, 1, 2, 2, 3])
        cand = list(sim.names())
        rng.shuffle(cand)
        out = []
        used = set()
        for _ in range(rank):
            if cand and rng.random() < 0.65:
                n = cand.pop()
                ax = sim.axis(n)
                out.append({"name": n, "kind": ax[1], "labels": list(ax[2])})
            else:
                n = rng.choice([d for d in pool if d not in sim.names() and d not in used] or [None])
                if n is None:
                    continue
                kd = rng.choice(["i", "f", "O"])
                labels, _ = gen.labels_of_kind(rng, kd, rng.choice([0, 1, 2, 2, 2, 3]))     # equal lengths are frequent
                out.append({"name": n, "kind": kd, "labels": labels})
            used.add(out[-1]["name"])
        bad = None
        if mismatch:
            idx = [i for i, a in enumerate(out) if a["name"] in sim.names()]
            if idx:
                i = rng.choice(idx)
                L = out[i]["labels"]
                how = rng.choice(["permute", "other", "length"])
                if how == "permute" and len(L) >= 2:
                    out[i]["labels"] = L[1:] + L[:1]
                elif how == "length":
                    out[i]["labels"] = L[:-1] if L else [gen.absent_label(rng, {"kind": out[i]["kind"], "labels": L})]
                else:
                    out[i]["labels"] = [gen.absent_label(rng, {"kind": out[i]["kind"], "labels": L})] + L[1:] if L else [gen.absent_label(rng, {"kind": out[i]["kind"], "labels": L})]
                bad = i
        return out, bad

    n = rng.randint(1, maxlen)
    for step in range(n):
        r = rng.random()
        if r < 0.34 or not sim.vars:
            key = rng.choice(KEYS)
            mismatch = bool(sim.axes) and rng.random() < 0.2
            axs, bad = make_axes(key, mismatch)
            ops.append({"op": "set", "key": key, "axes": axs})
            if bad is None:
                old = sim.vars.get(key, [])
                for a in axs:
                    if a["name"] not in sim.names():
                        sim.axes.append([a["name"], a["kind"], list(a["labels"])])
                sim.vars[key] = [a["name"] for a in axs]
                for nme in old:
                    if nme not in sim.vars[key] and not any(nme in v for v in sim.vars.values()):
                        sim.axes = [a for a in sim.axes if a[0] != nme]
        elif r < 0.44:
            key = rng.choice(list(sim.vars) + (["zz"] if rng.random() < 0.1 else []))
            ops.append({"op": "del", "key": key})
            if key in sim.vars:
                old = sim.vars.pop(key)
                for nme in old:
                    if not any(nme in v for v in sim.vars.values()):
                        sim.axes = [a for a in sim.axes if a[0] != nme]
        elif r < 0.54 and sim.axes:
            i = rng.randrange(len(sim.axes))
            new = fresh_name()
            if new is None:
                continue
            d = ["name", sim.axes[i][0]] if rng.random() < 0.6 else ["pos", i]
            old = sim.axes[i][0]
            if rng.random() < 0.4:
                holders = [k for k, v in sim.vars.items() if old in v]
                if holders:
                    k = rng.choice(holders)
                    dd = ["name", old] if rng.random() < 0.5 else ["pos", sim.vars[k].index(old)]
                    ops.append({"op": "rename_via_var", "key": k, "d": dd, "new": new})
                else:
                    ops.append({"op": "rename_axis", "d": d, "new": new})
            else:
                ops.append({"op": "rename_axis", "d": d, "new": new})
            sim.axes[i][0] = new
            for k in sim.vars:
                sim.vars[k] = [new if x == old else x for x in sim.vars[k]]
        elif r < 0.6 and sim.axes:
            names = []
            olds = sim.names()
            free = [d for d in pool + ["p", "q", "r"] if d not in olds]
            rng.shuffle(free)
            for i, o in enumerate(olds):
                names.append(free.pop() if free and rng.random() < 0.5 else o)
            if len(olds) >= 2 and rng.random() < 0.4:
                # a permutation of the current names (swap / rotation): an earlier axis takes the name a later one has now
                names = list(olds)
                if rng.random() < 0.5:
                    i, j = rng.sample(range(len(names)), 2)
                    names[i], names[j] = names[j], names[i]
                else:
                    names = names[1:] + names[:1]
                    if free and rng.random() < 0.5:
                        names[-1] = free.pop()
            ops.append({"op": "set_dims", "names": names})
            m = dict(zip(olds, names))
            for a in sim.axes:
                a[0] = m[a[0]]
            for k in sim.vars:
                sim.vars[k] = [m[x] for x in sim.vars[k]]
        elif r < 0.7 and sim.axes:
            i = rng.randrange(len(sim.axes))
            ax = sim.axes[i]
            if not ax[2]:
                continue
            j = rng.randrange(len(ax[2]))
            l = gen.absent_label(rng, {"kind": ax[1], "labels": ax[2]})
            d = ["name", ax[0]] if rng.random() < 0.6 else ["pos", i]
            ops.append({"op": "set_label", "d": d, "i": j if rng.random() < 0.7 else j - len(ax[2]), "label": l, "lkind": ax[1]})
            ax[2][j] = l
        elif r < 0.8 and sim.axes:
            i = rng.randrange(len(sim.axes))
            ax = sim.axes[i]
            labels, _ = gen.labels_of_kind(rng, ax[1], len(ax[2]))
            d = ["name", ax[0]] if rng.random() < 0.4 else ["pos", i]
            holders = [k for k, v in sim.vars.items() if ax[0] in v]
            if rng.random() < 0.3 and ax[0].isidentifier():
                # attribute syntax: ds.<dim> = labels, or through one of the variables ds[k].<dim> = labels
                ops.append({"op": "set_labels_attr", "name": ax[0], "via": rng.choice(holders) if holders and rng.random() < 0.6 else None,
                            "labels": labels, "lkind": ax[1]})
            else:
                ops.append({"op": rng.choice(["set_labels", "replace_axis", "replace_axis", "replace_axis_raw"]), "d": d, "labels": labels, "lkind": ax[1]})
            ax[2][:] = labels
        elif r < 0.9 and sim.vars:
            old = rng.choice(list(sim.vars))
            new = rng.choice(KEYS + ["e"])
            ops.append({"op": "rename_key", "old": old, "new": new})
            if old != new:
                if new in sim.vars:
                    gone = sim.vars.pop(new)
                    for nme in gone:
                        if not any(nme in v for v in sim.vars.values()):
                            sim.axes = [a for a in sim.axes if a[0] != nme]
                sim.vars[new] = sim.vars.pop(old)
        else:
            nme = fresh_name()
            if nme is None:
                continue
            kd = rng.choice(["i", "O"])
            labels, _ = gen.labels_of_kind(rng, kd, rng.randint(0, 3))
            ops.append({"op": "append_axis", "name": nme, "labels": labels, "kind": kd})
            sim.axes.append([nme, kd, list(labels)])     # (a copy: the simulation relabels its own list in place)
    return ops


def observe(ds):
    """keys, dims, labels, per-variable dims and the identity matrix ds[k].axes[d] is ds.axes[d]"""
    dims = list(ds.dims)
    out = {"keys": list(ds.keys()), "dims": dims,
           "labels": [[core.enc_label(v) for v in ax.values.tolist()] for ax in ds.axes], "vars": {}, "shared": {}, "shapes_ok": True}
    for k in ds.keys():
        v = dict.__getitem__(ds, k)
        out["vars"][k] = list(v.dims)
        sh = []
        for ax in v.axes:
            sh.append(any(ax is dax for dax in ds.axes))
        out["shared"][k] = sh
        if tuple(ax.size for ax in v.axes) != v.values.shape:
            out["shapes_ok"] = False
    return out


class C13(Prop):
    id = "C13"
    theorems = ["inv_init", "inv_step_partial", "inv_step_of_not_setVar", "inv_run", "inv_reachable",
                "inv_reachable_renameFree", "reject_restores", "rename_visible", "relabel_visible",
                "inv_step_counterexample"]
    rule = ("histories of 1-12 Dataset mutations from an empty dataset: ds[k] = array (new / replacing, fewer / more / other "
            "dimensions, 20% with labels mismatching an existing axis on some dimension), del ds[k], axis renames through "
            "the dataset or through a variable, ds.dims = ..., ds.axes[d][i] = label, set_axis, ds.axes[d] = Axis (by name "
            "or position), rename_keys (also onto existing keys), axes appended directly; after every step keys, dims, "
            "labels, per-variable dims and the identity matrix ds[k].axes[d] is ds.axes[d] are compared with the model, also "
            "after a rejected assignment. Non-trivial = at least 3 steps; distinct = canonical JSON")
    assumptions = ["axis renames use fresh names (a rename onto an existing dimension name is outside the property)"]

    def mirrors(self):
        import sys as _s
        d = _s.modules["dimarray.dataset"]
        return {"Dataset.__setitem__": d.Dataset.__setitem__, "Dataset.__delitem__": d.Dataset.__delitem__,
                "_maybe_delete_axes": d.Dataset._maybe_delete_axes, "DatasetAxes.__setitem__": d.DatasetAxes.__setitem__,
                "rename_keys": d.Dataset.rename_keys, "rename_axes": d.Dataset.rename_axes, "set_axis": d.Dataset.set_axis,
                "Dataset.__init__": d.Dataset.__init__}

    def gen(self, rng, tier):
        n = 500 if tier == "quick" else 12000
        for _ in range(n):
            yield {"op": "ds_history", "ops": gen_history(rng)}

    def impl(self, c):
        ds = Dataset()
        out = []
        for op in c["ops"]:
            err = None
            try:
                self.apply(ds, op)
            except Exception as e:  # noqa
                err = core.exc_class(e)
            o = observe(ds)
            o["err"] = err
            out.append(o)
        return {"ok": out}

    def apply(self, ds, op):
        t = op["op"]
        if t == "set":
            axes = [core.build_axis(a) for a in op["axes"]]
            shape = tuple(len(a["labels"]) for a in op["axes"])
            ds[op["key"]] = DimArray(core.make_values(shape, "f", 0), axes=axes)
        elif t == "del":
            del ds[op["key"]]
        elif t == "rename_axis":
            ds.axes[op["d"][1]].name = op["new"]
        elif t == "rename_via_var":
            ds[op["key"]].axes[op["d"][1]].name = op["new"]
        elif t == "set_dims":
            ds.dims = tuple(op["names"])
        elif t == "set_label":
            ds.axes[op["d"][1]][op["i"]] = core.dec_label(op["label"], op["lkind"])
        elif t == "set_labels_attr":
            target = ds if op["via"] is None else ds[op["via"]]
            setattr(target, op["name"], core.label_array(op["labels"], op["lkind"]))
        elif t == "set_labels":
            ds.set_axis(core.label_array(op["labels"], op["lkind"]), axis=op["d"][1])
        elif t == "replace_axis":
            name = ds.axes[op["d"][1]].name
            ds.axes[op["d"][1]] = Axis(core.label_array(op["labels"], op["lkind"]), name)
        elif t == "replace_axis_raw":
            # plain labels (not an Axis object) assigned to the dataset's axis
            ds.axes[op["d"][1]] = core.label_array(op["labels"], op["lkind"])
        elif t == "rename_key":
            ds.rename_keys({op["old"]: op["new"]})
        elif t == "append_axis":
            ds.axes.append(Axis(core.label_array(op["labels"], op["kind"]), op["name"]))
        else:
            raise ValueError(t)

    def request(self, c):
        # attribute-style relabelling is the same state change as set_axis by name
        ops = [dict(op="set_labels", d=["name", o["name"]], labels=o["labels"], lkind=o["lkind"]) if o["op"] == "set_labels_attr" else
               (dict(o, op="replace_axis") if o["op"] == "replace_axis_raw" else o)
               for o in c["ops"]]
        return {"op": "ds_history", "ops": ops}

    def judge(self, c, io, ans):
        bad, prop_bad = [], []
        first = None
        direct = set()
        prev = None
        for k, (o, l, op) in enumerate(zip(io["ok"], ans["lib"], c["ops"])):
            # ---- the statement of C13 on the implementation's state
            p = []
            for key, sh in o["shared"].items():
                if not all(sh):
                    p.append("not_shared:" + key)
            usedd = set(d for v in o["vars"].values() for d in v)
            if op["op"] == "append_axis" and o["err"] is None:
                direct.add(op["name"])
            if op["op"] in ("rename_axis", "rename_via_var", "set_dims") and o["err"] is None and prev is not None:
                ren = dict(zip(prev["dims"], o["dims"]))
                direct = set(ren.get(d, d) for d in direct)
            direct &= set(o["dims"])
            direct -= usedd
            if set(o["dims"]) != usedd | direct:
                p.append("dims_not_used")
            if len(set(o["dims"])) != len(o["dims"]):
                p.append("duplicate_dims")
            if not o["shapes_ok"]:
                p.append("shape")
            if op["op"] == "set" and o["err"] is not None and prev is not None:
                # a rejected assignment leaves the dataset as it was
                if {x: prev[x] for x in ("keys", "dims", "labels", "vars")} != {x: o[x] for x in ("keys", "dims", "labels", "vars")}:
                    p.append("reject_not_restored")
            if op["op"] == "set" and o["err"] is not None and o["err"] != "value":
                p.append("errclass")
            # a changed axis name is immediately visible from the dataset (and, names being shared objects, from the variables)
            if op["op"] == "set_dims" and o["err"] is None and len(set(op["names"])) == len(op["names"]) and o["dims"] != op["names"]:
                p.append("rename_not_visible")
            if op["op"] == "rename_axis" and o["err"] is None and prev is not None and op["new"] not in prev["dims"]:
                pos = prev["dims"].index(op["d"][1]) if op["d"][0] == "name" and op["d"][1] in prev["dims"] else (op["d"][1] if op["d"][0] == "pos" else None)
                if pos is not None and 0 <= pos < len(o["dims"]) and o["dims"][pos] != op["new"]:
                    p.append("rename_not_visible")
            # ---- correspondence with the model
            m = []
            if (o["err"] is None) != (l["err"] is None):
                m.append("outcome")
            elif o["err"] != l["err"]:
                m.append("M.errclass")
            for f in ("keys", "dims", "vars"):
                if o[f] != l[f]:
                    m.append(f)
            if [[lab_key(x) for x in L] for L in o["labels"]] != [[lab_key(x) for x in L] for L in l["labels"]]:
                m.append("labels")
            if o["shared"] != l["shared"]:
                m.append("shared")
            if (p or m) and first is None:
                first = {"step": k, "op": op, "impl": {x: o[x] for x in ("err", "keys", "dims", "vars", "shared")},
                         "model": {x: l[x] for x in ("err", "keys", "dims", "vars", "shared")}}
                prop_bad, bad = p, m
                break
            prev = o
        if first is None:
            return None
        return {"kind": "P" if prop_bad else "M", "differs": sorted(set(bad + prop_bad)), "first": first}

    def nontrivial(self, c):
        return len(c["ops"]) >= 3

    def features(self, c, io):
        f = {"len": len(c["ops"]), "n_rejected": sum(1 for o in io["ok"] if o["err"] == "value")}
        for op in c["ops"]:
            f["op:" + op["op"]] = 1
        return f

    def size(self, c):
        return len(c["ops"]) * 100 + len(str(c["ops"]))

    def reducers(self, c):
        out = []
        for k in range(len(c["ops"])):
            c2 = copy.deepcopy(c); del c2["ops"][k]
            out.append(c2)
        return out

    def snippet(self, c):
        return ("import sys; sys.path.insert(0, '/verif/harness'); import json, core; from props.c13 import PROP; "
                "case = json.load(open(REPLAY))['case']; print(PROP.impl(case))")


PROP = C13()

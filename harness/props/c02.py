"""C02 - label slices are inclusive bounding boxes; position slices stay NumPy-like."""
import copy, itertools
from fractions import Fraction
import numpy as np
import core, gen
from core import da, Axis
from .base import Prop
from . import c01


def enc(v):
    return gen.enc(v)


class C02(Prop):
    id = "C02"
    theorems = ["searchLeft_partition", "searchRight_partition", "slicePositions_nat",
                "locateSlice_increasing_spec", "locateSlice_decreasing_spec", "locateSlice_strict_spec",
                "locateSlice_strict_absent", "slice_never_wraps", "locateSlice_sliceSel_monotonic", "locateSlice_sliceSel_strict", "locateSlice_sliceSel_strict_absent"]
    rule = ("exhaustive grid (also in the quick tier): monotonic int/float axes of length 0-5, both directions, bounds "
            "from {None, below, each label, between, above}, steps {None,1,2,3,-1,-2}; shuffled numeric and str axes "
            "with bounds from the labels; every lookup of the grid is repeated on an axis whose ordering flag is already "
            "cached and (one case in three each) with tol= given to the lookup / carried by the axis; infinite bounds (+-numpy.inf as start and / or stop "
            "on monotonic int / uint8 / int32 / float / float32 axes of length 0-5, every step: must select what a finite bound beyond "
            "every label selects); + seeded random N-d "
            "arrays with slices mixed with other index kinds and position slices, in tuple, dict (.loc / .sel / .isel / "
            ".iloc / take), axis= forms, under both values of indexing.by, with tol= / .nloc / Axis(tol=), on cold and "
            "warmed axes. Observed at Axis.loc (positions selected on the axis, against the Lean spec and a second "
            "reading of the statement in Python) and through a[...] (Lean mirror + Python oracle). Non-trivial = "
            "axis length >= 1 and at least one bound not None; distinct = canonical JSON of the case")
    assumptions = ["labels unique and NaN-free", "np.searchsorted / slice.indices as modelled in Prim",
                   "an infinite bound is put to the model and the spec as a finite bound beyond every label (labels are exact rationals in the model)"]
    exhaustive_tiers = {"quick": True, "thorough": True}

    def mirrors(self):
        from dimarray.core import indexing, bases
        return {"locate_slice": indexing.locate_slice, "_locate_slice_strict": indexing._locate_slice_strict,
                "is_monotonic_equal": indexing.is_monotonic_equal, "loc": bases.AbstractAxis.loc}

    # ------------------------------------------------------------ generation
    def grid(self, maxlen=5):
        steps = [None, 1, 2, 3, -1, -2]
        count = 0
        for kind in ("i", "f"):
            for n in range(0, maxlen + 1):
                if kind == "i":
                    base = [2 * k + 2 for k in range(n)]          # 2,4,6,...
                    # integers on and between the labels, and non-integral bounds (must not be truncated)
                    bounds = [None, 0] + sorted(set(base + [b + 1 for b in base] + [b + Fraction(1, 2) for b in base]
                                                    + [b - Fraction(1, 2) for b in base[:1]])) + [2 * n + 4]
                else:
                    base = [Fraction(2 * k + 3, 2) for k in range(n)]   # 1.5, 2.5, ...
                    bounds = [None, Fraction(1, 4)] + sorted(set(base + [b + Fraction(1, 2) for b in base])) + [Fraction(2 * n + 9, 2)]
                for direction in ("inc", "dec"):
                    labels = base if direction == "inc" else base[::-1]
                    if n <= 1 and direction == "dec":
                        continue
                    variants = [None] + (["uint8"] if kind == "i" and n >= 1 else []) + (["float32"] if kind == "f" and n >= 1 else [])
                    for ld in variants:
                        # (the same labels stored unsigned / in single precision: the grid is repeated on them)
                        ax = {"name": "x", "kind": kind, "labels": [enc(v) for v in labels], "_order": direction}
                        if ld:
                            ax["ldtype"] = ld
                        for s, e, st in itertools.product(bounds, bounds, steps):
                            # the same lookup is repeated on an axis that has been asked for its ordering before
                            # (cached flag), and - one case in three each - with a tolerance given to the call or
                            # carried by the axis: a slice selects by its bounds, whatever else is known or asked
                            count += 1
                            yield {"op": "loc", "axis": ax, "ix": ["sl", None if s is None else enc(s),
                                                                 None if e is None else enc(e), st], "_src": "grid",
                                   "variants": ["warm"] + [["tol"], ["axis_tol"], []][count % 3]}

    def inf_cases(self, maxlen=5):
        """infinite bounds on monotonic numeric axes: `a[inf:]`, `a[:-inf]`, `a[-inf:3]` ... The closed interval from / to an
        infinite bound selects what the interval from / to any finite bound beyond every label selects: the case carries that
        finite bound in `ix` (for the model, the spec and the Python oracle) and `inf` says which bounds the implementation
        is given as +-numpy.inf instead."""
        steps = [None, 1, 2, -1, -2]
        for kind in ("i", "f"):
            for n in range(0, maxlen + 1):
                base = [2 * k + 2 for k in range(n)] if kind == "i" else [Fraction(2 * k + 3, 2) for k in range(n)]
                lowf, highf = Fraction(-50), Fraction(50)
                mids = [None] + ([base[n // 2], base[n // 2] + Fraction(1, 2)] if n else [])
                for direction in ("inc", "dec"):
                    if n <= 1 and direction == "dec":
                        continue
                    labels = base if direction == "inc" else base[::-1]
                    for ld in [None] + (["uint8", "int32"] if kind == "i" and n else []) + (["float32"] if kind == "f" and n else []):
                        ax = {"name": "x", "kind": kind, "labels": [enc(v) for v in labels], "_order": direction}
                        if ld:
                            ax["ldtype"] = ld
                        ends = [(m, 0) for m in mids] + [(highf, 1), (lowf, -1)]
                        for (s, si), (e, ei), st in itertools.product(ends, ends, steps):
                            if not (si or ei):
                                continue
                            yield {"op": "loc", "axis": ax, "ix": ["sl", None if s is None else enc(s), None if e is None else enc(e), st],
                                   "inf": [si, ei], "_src": "inf", "variants": ["warm"]}

    def strict_cases(self, rng, n_axes):
        steps = [None, 1, 2, 3, -1, -2]
        for _ in range(n_axes):
            kind = rng.choice(["i", "f", "O", "O"])
            n = rng.randint(0, 5)
            order = "shuf" if kind != "O" else rng.choice(["inc", "dec", "shuf"])
            labels, order = gen.labels_of_kind(rng, kind, n, order)
            ax = {"name": "x", "kind": kind, "labels": labels, "_order": order}
            if kind == "i" and rng.random() < 0.4:
                ax["ldtype"] = rng.choice(["uint8", "uint16", "int32", "uint64"])     # (unsigned arithmetic wraps around)
            elif kind == "f" and rng.random() < 0.3:
                ax["ldtype"] = "float32"
            # the axis may have been asked for its ordering before (cached flag from an earlier alignment)
            ax["_warm"] = rng.random() < 0.5
            bounds = [None] + labels
            if rng.random() < 0.5:
                bounds.append(gen.absent_label(rng, ax, frac=True))
            variants = ["cold" if ax["_warm"] else "warm"] + rng.choice([["tol"], ["axis_tol"], ["tol_inf"], []])
            for s, e, st in itertools.product(bounds, bounds, steps):
                yield {"op": "loc", "axis": ax, "ix": ["sl", s, e, st], "_src": "strict", "variants": variants}

    def tie_cases(self):
        """monotonic axes with REPEATED labels (non-strictly increasing / decreasing): still the inclusive bounding box"""
        steps = [None, 1, 2, -1, -2]
        for kind in ("i", "f"):
            for base in ([2, 4, 4, 6], [2, 2, 4], [2, 4, 4], [4, 4], [2, 4, 4, 4, 6]):
                vals = [Fraction(v) if kind == "i" else Fraction(v) + Fraction(1, 2) for v in base]
                bounds = [None, Fraction(1)] + sorted(set(vals + [v + Fraction(1, 2) for v in vals])) + [Fraction(9)]
                for direction in ("inc", "dec"):
                    labels = vals if direction == "inc" else vals[::-1]
                    ax = {"name": "x", "kind": kind, "labels": [enc(v) for v in labels], "_order": direction, "_ties": True}
                    for s, e, st in itertools.product(bounds, bounds, steps):
                        yield {"op": "loc", "axis": ax, "ix": ["sl", None if s is None else enc(s), None if e is None else enc(e), st],
                               "_src": "ties", "variants": ["warm"]}

    def unsigned_cases(self):
        """non-monotonic axes stored with an unsigned dtype (differences wrap around): the strict first-to-second rule"""
        for ld in ("uint8", "uint16", "uint64"):
            for labels in ([1, 3, 2], [2, 1, 3], [3, 1, 2], [5, 1, 4, 2], [0, 7, 3]):
                ax = {"name": "x", "kind": "i", "labels": [enc(Fraction(v)) for v in labels], "_order": "shuf", "ldtype": ld}
                bounds = [None] + [enc(Fraction(v)) for v in labels]
                for s, e, st in itertools.product(bounds, bounds, [None, 1, 2, -1]):
                    yield {"op": "loc", "axis": ax, "ix": ["sl", s, e, st], "_src": "strict", "variants": ["warm"]}

    def nd_cases(self, rng, n):
        c1 = c01.PROP
        for _ in range(n):
            rank = rng.choice([1, 2, 2, 3, 3, 4])
            arr = gen.dtype_variants(rng, gen.rand_array(rng, rank=rank, maxn=5))
            posmode = rng.random() < 0.3
            ixs, kinds = [], []
            for d in range(rank):
                ax = arr["axes"][d]
                if rng.random() < 0.6:
                    if posmode:
                        ix, k = c1.gen_ix_pos(rng, len(ax["labels"]))
                        while k != "slice":
                            ix, k = c1.gen_ix_pos(rng, len(ax["labels"]))
                    else:
                        ix, k = self.rand_label_slice(rng, ax), "slice"
                else:
                    ix, k = (c1.gen_ix_pos(rng, len(ax["labels"])) if posmode else c1.gen_ix_label(rng, ax))
                ixs.append(ix); kinds.append(k)
            c = {"op": "take", "array": arr, "option": "label", "spelling": "ix" if posmode else rng.choice(["getitem", "loc", "take"]),
                 "mode": "position" if posmode else "label", "as_array": False,
                 "index": {"form": "tuple", "ix": ixs}, "bare": False, "_ixkinds": kinds, "_src": "nd"}
            if rng.random() < 0.2:
                # one slice along one dimension, the dimension given with axis= (name, position or negative position)
                d = rng.randrange(rank)
                c["spelling"] = "take_position" if posmode else "take"
                c["index"] = {"form": "axis", "ix": ixs[d], "axis": rng.choice([["name", arr["axes"][d]["name"]], ["pos", d], ["pos", d - rank]])}
                c["_ixkinds"] = [kinds[d]]
            yield c

    LABEL_READS = {"label": [("getitem", "tuple"), ("loc", "tuple"), ("loc", "dict"), ("sel", "dict"), ("take", "tuple"),
                             ("take_dict", "dict"), ("take_dict_pos", "dict_pos"), ("take_axis_name", "axis"),
                             ("take_axis_pos", "axis_pos"), ("take_label", "tuple"), ("take_label", "dict"), ("take_label", "axis")],
                   "position": [("loc", "tuple"), ("loc", "dict"), ("sel", "dict"), ("take_label", "tuple"), ("take_label", "dict"),
                                ("take_label", "axis_pos"), ("ix_from_position", "tuple")]}
    POS_READS = {"label": [("ix", "tuple"), ("iloc", "tuple"), ("iloc", "dict"), ("isel", "dict"), ("take_position", "tuple"),
                           ("take_position", "dict"), ("take_position", "axis"), ("take_position", "axis_pos")],
                 "position": [("getitem_position_option", "tuple"), ("iloc", "tuple"), ("iloc", "dict"), ("isel", "dict"), ("take", "tuple"),
                              ("take_dict", "dict"), ("take_dict_pos", "dict_pos"), ("take_axis_name", "axis"), ("take_axis_pos", "axis_pos")]}
    TOL_READS = {"label": [("take", "tuple"), ("take_dict", "dict"), ("take_dict_pos", "dict_pos"), ("take_axis_name", "axis"),
                           ("take_axis_pos", "axis_pos"), ("take_label", "tuple"), ("take_label", "dict")],
                 "position": [("take_label", "tuple"), ("take_label", "dict"), ("take_label", "axis")]}

    def nd_cases2(self, rng, n):
        """slices in the spellings, options and combinations nd_cases (also the base of other properties' generators,
        left as it was) does not reach: dict / sel / isel / iloc / axis= forms, option indexing.by='position', together
        with a tolerance (tol=, .nloc, Axis(tol=)), on axes whose ordering flag is already cached"""
        c1 = c01.PROP
        for _ in range(n):
            option = rng.choice(["label", "label", "position"])
            rank = rng.choice([1, 2, 2, 3, 3, 4])
            arr = gen.dtype_variants(rng, gen.rand_array(rng, rank=rank, maxn=5))
            axes = arr["axes"]
            posread = rng.random() < 0.3
            tolmode = None if posread else rng.choice([None, None, None, "call", "nloc", "axis"])
            if posread:
                sp, form = rng.choice(self.POS_READS[option])
            elif tolmode == "call":
                sp, form = rng.choice(self.TOL_READS[option])
            elif tolmode == "nloc":
                sp, form = "nloc", rng.choice(["tuple", "tuple", "dict", "dict_pos"])
            else:
                sp, form = rng.choice(self.LABEL_READS[option])
            c = {"op": "take", "array": arr, "option": option, "spelling": sp, "mode": "position" if posread else "label",
                 "as_array": rng.random() < 0.3, "_src": "nd2"}
            if tolmode == "call":
                c["tol"] = rng.choice(c1.TOLS[:6])
            elif tolmode == "axis":
                T = rng.choice(c1.TOLS[:6])
                for ax in axes:
                    if ax["kind"] in "if":
                        ax["tol"] = T
            if rng.random() < 0.4:
                c["warm"] = True

            def mk(d):
                ax = axes[d]
                if rng.random() < 0.65:
                    if posread:
                        ix, k = c1.gen_ix_pos(rng, len(ax["labels"]))
                        while k != "slice":
                            ix, k = c1.gen_ix_pos(rng, len(ax["labels"]))
                        return ix, k
                    return self.rand_label_slice(rng, ax), "slice"
                if posread:
                    return c1.gen_ix_pos(rng, len(ax["labels"]))
                if tolmode and ax["kind"] in "if" and ax["labels"] and rng.random() < 0.6:
                    return c1.near_ix(rng, ax)
                return c1.gen_ix_label(rng, ax)
            c1.fill_index(rng, c, form, mk)
            c["_tolmode"] = tolmode or "none"
            yield c

    def rand_label_slice(self, rng, ax):
        labels = ax["labels"]
        numeric_mono = ax["kind"] in "if" and ax.get("_order") in ("inc", "dec")
        def bound():
            r = rng.random()
            if r < 0.25 or not labels:
                return None
            if numeric_mono and r < 0.6:
                b = rng.choice(labels)
                v = Fraction(b[1], b[2]) + Fraction(rng.choice([-3, -1, 1, 2, 5]), 8 if ax["kind"] == "f" else 1)
                if ax["kind"] == "i" and rng.random() < 0.7:
                    v = Fraction(int(v))
                elif ax["kind"] == "i":
                    v = Fraction(int(v)) + Fraction(1, 2)
                return enc(v)
            return rng.choice(labels)
        return ["sl", bound(), bound(), rng.choice([None, None, 1, 2, 3, -1, -2])]

    def gen(self, rng, tier):
        for c in self.grid(5):
            yield c
        for c in self.strict_cases(rng, 50 if tier == "quick" else 600):
            yield c
        for c in self.tie_cases():
            yield c
        for c in self.inf_cases():
            yield c
        for c in self.unsigned_cases():
            yield c
        for c in self.nd_cases(rng, 400 if tier == "quick" else 20000):
            if rng.random() < 0.3:
                c["warm"] = True          # every axis has been asked for its ordering before the read
            yield c
        for c in self.nd_cases2(rng, 600 if tier == "quick" else 30000):
            yield c

    # ------------------------------------------------------------ implementation side
    def impl(self, c):
        if c["op"] == "take":
            return c01.PROP.impl(c)
        ix = c01.py_index(c["ix"], c["axis"])
        if c.get("inf"):
            si, ei = c["inf"]
            ix = slice(si * np.inf if si else ix.start, ei * np.inf if ei else ix.stop, ix.step)
        n = len(c["axis"]["labels"])

        ax0 = core.build_axis(c["axis"])

        def lookup(warm, **how):
            ax = Axis(ax0.values.copy(), ax0.name, tol=how.pop("axis_tol", None))      # a fresh axis for every lookup
            if warm:
                ax.is_monotonic()           # the ordering flag is cached from now on

            def run():
                r = ax.loc(ix, **how)
                assert isinstance(r, slice)
                norm = lambda v: None if v is None else int(v)
                raw = ["slice", norm(r.start), norm(r.stop), norm(r.step)]
                return {"raw": raw, "positions": [int(p) for p in np.arange(n)[r]]}
            return core.guarded(run)
        warm = bool(c["axis"].get("_warm"))
        out = lookup(warm)
        for v in c.get("variants", ()):
            o = {"warm": lambda: lookup(True), "cold": lambda: lookup(False), "tol": lambda: lookup(warm, tol=0.25),
                 "tol_inf": lambda: lookup(warm, tol=np.inf), "axis_tol": lambda: lookup(warm, axis_tol=0.75)}[v]()
            out.setdefault("variants", {})[v] = o if "err" in o else {"ok": {"positions": o["ok"]["positions"]}}
        return out

    def request(self, c):
        if c["op"] == "take":
            return c01.PROP.request(c)
        return {"op": "loc", "axis": core.lean_axis(gen.clean(c["axis"]), None), "ix": c["ix"]}

    def judge(self, c, io, ans):
        if c["op"] == "take":
            return c01.PROP.judge(c, io, ans)
        bad = []
        lib, spec, pos = ans["lib"], ans["spec"], ans["positions"]
        # the property: selected positions equal the spec's
        if "err" in io:
            if spec != "error":
                bad.append("outcome")
        else:
            if spec == "error":
                bad.append("outcome")
            elif io["ok"]["positions"] != spec:
                bad.append("values")
        # ... whatever the axis has cached about its ordering, and whatever tolerance comes with the lookup
        for v, o in sorted(io.get("variants", {}).items()):
            if spec == "error":
                if "tol" in v:
                    continue        # a tolerance next to a bound that must be an existing label: not spoken about
                if "err" not in o:
                    bad.append("outcome@" + v)
            elif "err" in o:
                bad.append("outcome@" + v)
            elif o["ok"]["positions"] != spec:
                bad.append("values@" + v)
        # a second reading of the statement, in Python on exact rationals (c01.slice_positions)
        try:
            want = c01.slice_positions(c["axis"]["labels"], c["axis"]["kind"], c["ix"][1], c["ix"][2], c["ix"][3])
        except c01.Demands:
            want = "error"
        except c01.Undecided:
            want = None
        if want is not None:
            if ("err" in io) != (want == "error"):
                bad.append("outcome@py")
            elif "ok" in io and io["ok"]["positions"] != want:
                bad.append("values@py")
        # the correspondence: impl vs mirror
        m = []
        if ("err" in io) != ("err" in lib) and ("err" in io) != ("err" in pos):
            m.append("mirror.outcome")
        elif "err" in io:
            if "err" in lib and lib["err"] != io["err"]:
                m.append("mirror.errclass")
        else:
            if "ok" in pos and pos["ok"][1] != io["ok"]["positions"]:
                m.append("mirror.positions")
            if "ok" in lib and lib["ok"] != io["ok"]["raw"]:
                m.append("mirror.raw")
        if not bad and not m:
            return None
        return {"kind": "P" if bad else "M", "differs": bad + m, "impl": io, "spec": spec, "lib": lib}

    def nontrivial(self, c):
        if c["op"] == "take":
            return True
        return len(c["axis"]["labels"]) >= 1 and (c["ix"][1] is not None or c["ix"][2] is not None)

    def features(self, c, io):
        f = {"outcome": "err:" + io["err"] if "err" in io else "ok", "src": c.get("_src", "?")}
        if c["op"] == "loc":
            f["axis_len"] = len(c["axis"]["labels"])
            f["step"] = c["ix"][3]
            f["order"] = c["axis"].get("_order")
            f["kind"] = c["axis"]["kind"]
            if "ok" in io:
                f["n_selected"] = len(io["ok"]["positions"])
            for v in c.get("variants", ()):
                f["variant:" + v] = 1
            f["cache"] = "warm" if c["axis"].get("_warm") else "cold"
        else:
            f["rank"] = len(c["array"]["axes"])
            f["mode"] = c["mode"]
            f1 = c01.PROP.features(c, io)
            for k in ("spelling", "option", "form", "tol", "axis_tol", "warm", "compared_with", "oracle"):
                f[k] = f1[k]
            f["tolmode"] = c.get("_tolmode", "none")
            f["slices"] = sum(1 for k in c.get("_ixkinds", []) if k == "slice")
        return f

    def size(self, c):
        if c["op"] == "take":
            return 1000 + c01.PROP.size(c)
        return len(c["axis"]["labels"]) * 10 + len(str(c["ix"]))

    def snippet(self, c):
        return ("import sys; sys.path.insert(0, '/verif/harness'); import json, core; from props.c02 import PROP; "
                "case = json.load(open(REPLAY))['case']; print(PROP.impl(case))")


PROP = C02()

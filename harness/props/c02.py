"""C02 - label slices are inclusive bounding boxes; position slices stay NumPy-like."""
import copy, itertools
from fractions import Fraction
import numpy as np
import core, gen
from core import da, Axis
from .base import Prop
from . import c01


def enc(v):
    return gen.enc(v)


class C02(Prop):
    id = "C02"
    theorems = ["searchLeft_partition", "searchRight_partition", "slicePositions_nat",
                "locateSlice_increasing_spec", "locateSlice_decreasing_spec", "locateSlice_strict_spec",
                "locateSlice_strict_absent", "slice_never_wraps", "locateSlice_sliceSel_monotonic", "locateSlice_sliceSel_strict", "locateSlice_sliceSel_strict_absent"]
    rule = ("exhaustive grid (also in the quick tier): monotonic int/float axes of length 0-5, both directions, bounds "
            "from {None, below, each label, between, above}, steps {None,1,2,3,-1,-2}; shuffled numeric and str axes "
            "with bounds from the labels; + seeded random N-d arrays with slices mixed with other index kinds and "
            "position slices. Observed at Axis.loc (positions selected on the axis) and through a[...]. Non-trivial = "
            "axis length >= 1 and at least one bound not None; distinct = canonical JSON of the case")
    assumptions = ["labels unique and NaN-free", "np.searchsorted / slice.indices as modelled in Prim"]
    exhaustive_tiers = {"quick": True, "thorough": True}

    def mirrors(self):
        from dimarray.core import indexing, bases
        return {"locate_slice": indexing.locate_slice, "_locate_slice_strict": indexing._locate_slice_strict,
                "is_monotonic_equal": indexing.is_monotonic_equal, "loc": bases.AbstractAxis.loc}

    # ------------------------------------------------------------ generation
    def grid(self, maxlen=5):
        steps = [None, 1, 2, 3, -1, -2]
        for kind in ("i", "f"):
            for n in range(0, maxlen + 1):
                if kind == "i":
                    base = [2 * k + 2 for k in range(n)]          # 2,4,6,...
                    # integers on and between the labels, and non-integral bounds (must not be truncated)
                    bounds = [None, 0] + sorted(set(base + [b + 1 for b in base] + [b + Fraction(1, 2) for b in base]
                                                    + [b - Fraction(1, 2) for b in base[:1]])) + [2 * n + 4]
                else:
                    base = [Fraction(2 * k + 3, 2) for k in range(n)]   # 1.5, 2.5, ...
                    bounds = [None, Fraction(1, 4)] + sorted(set(base + [b + Fraction(1, 2) for b in base])) + [Fraction(2 * n + 9, 2)]
                for direction in ("inc", "dec"):
                    labels = base if direction == "inc" else base[::-1]
                    if n <= 1 and direction == "dec":
                        continue
                    variants = [None] + (["uint8"] if kind == "i" and n >= 1 else []) + (["float32"] if kind == "f" and n >= 1 else [])
                    for ld in variants:
                        # (the same labels stored unsigned / in single precision: the grid is repeated on them)
                        ax = {"name": "x", "kind": kind, "labels": [enc(v) for v in labels], "_order": direction}
                        if ld:
                            ax["ldtype"] = ld
                        for s, e, st in itertools.product(bounds, bounds, steps):
                            yield {"op": "loc", "axis": ax, "ix": ["sl", None if s is None else enc(s),
                                                                 None if e is None else enc(e), st], "_src": "grid"}

    def strict_cases(self, rng, n_axes):
        steps = [None, 1, 2, 3, -1, -2]
        for _ in range(n_axes):
            kind = rng.choice(["i", "f", "O", "O"])
            n = rng.randint(0, 5)
            order = "shuf" if kind != "O" else rng.choice(["inc", "dec", "shuf"])
            labels, order = gen.labels_of_kind(rng, kind, n, order)
            ax = {"name": "x", "kind": kind, "labels": labels, "_order": order}
            if kind == "i" and rng.random() < 0.4:
                ax["ldtype"] = rng.choice(["uint8", "uint16", "int32", "uint64"])     # (unsigned arithmetic wraps around)
            elif kind == "f" and rng.random() < 0.3:
                ax["ldtype"] = "float32"
            # the axis may have been asked for its ordering before (cached flag from an earlier alignment)
            ax["_warm"] = rng.random() < 0.5
            bounds = [None] + labels
            if rng.random() < 0.5:
                bounds.append(gen.absent_label(rng, ax, frac=True))
            for s, e, st in itertools.product(bounds, bounds, steps):
                yield {"op": "loc", "axis": ax, "ix": ["sl", s, e, st], "_src": "strict"}

    def nd_cases(self, rng, n):
        c1 = c01.PROP
        for _ in range(n):
            rank = rng.choice([1, 2, 2, 3, 3, 4])
            arr = gen.dtype_variants(rng, gen.rand_array(rng, rank=rank, maxn=5))
            posmode = rng.random() < 0.3
            ixs, kinds = [], []
            for d in range(rank):
                ax = arr["axes"][d]
                if rng.random() < 0.6:
                    if posmode:
                        ix, k = c1.gen_ix_pos(rng, len(ax["labels"]))
                        while k != "slice":
                            ix, k = c1.gen_ix_pos(rng, len(ax["labels"]))
                    else:
                        ix, k = self.rand_label_slice(rng, ax), "slice"
                else:
                    ix, k = (c1.gen_ix_pos(rng, len(ax["labels"])) if posmode else c1.gen_ix_label(rng, ax))
                ixs.append(ix); kinds.append(k)
            c = {"op": "take", "array": arr, "option": "label", "spelling": "ix" if posmode else rng.choice(["getitem", "loc", "take"]),
                 "mode": "position" if posmode else "label", "as_array": False,
                 "index": {"form": "tuple", "ix": ixs}, "bare": False, "_ixkinds": kinds, "_src": "nd"}
            if rng.random() < 0.2:
                # one slice along one dimension, the dimension given with axis= (name, position or negative position)
                d = rng.randrange(rank)
                c["spelling"] = "take_position" if posmode else "take"
                c["index"] = {"form": "axis", "ix": ixs[d], "axis": rng.choice([["name", arr["axes"][d]["name"]], ["pos", d], ["pos", d - rank]])}
                c["_ixkinds"] = [kinds[d]]
            yield c

    def rand_label_slice(self, rng, ax):
        labels = ax["labels"]
        numeric_mono = ax["kind"] in "if" and ax.get("_order") in ("inc", "dec")
        def bound():
            r = rng.random()
            if r < 0.25 or not labels:
                return None
            if numeric_mono and r < 0.6:
                b = rng.choice(labels)
                v = Fraction(b[1], b[2]) + Fraction(rng.choice([-3, -1, 1, 2, 5]), 8 if ax["kind"] == "f" else 1)
                if ax["kind"] == "i" and rng.random() < 0.7:
                    v = Fraction(int(v))
                elif ax["kind"] == "i":
                    v = Fraction(int(v)) + Fraction(1, 2)
                return enc(v)
            return rng.choice(labels)
        return ["sl", bound(), bound(), rng.choice([None, None, 1, 2, 3, -1, -2])]

    def gen(self, rng, tier):
        for c in self.grid(5):
            yield c
        for c in self.strict_cases(rng, 50 if tier == "quick" else 600):
            yield c
        for c in self.nd_cases(rng, 400 if tier == "quick" else 20000):
            yield c

    # ------------------------------------------------------------ implementation side
    def impl(self, c):
        if c["op"] == "take":
            return c01.PROP.impl(c)
        ax = core.build_axis(c["axis"])
        if c["axis"].get("_warm"):
            ax.is_monotonic()
        ix = c01.py_index(c["ix"], c["axis"])
        n = len(c["axis"]["labels"])

        def run():
            r = ax.loc(ix)
            assert isinstance(r, slice)
            norm = lambda v: None if v is None else int(v)
            raw = ["slice", norm(r.start), norm(r.stop), norm(r.step)]
            return {"raw": raw, "positions": [int(p) for p in np.arange(n)[r]]}
        return core.guarded(run)

    def request(self, c):
        if c["op"] == "take":
            return c01.PROP.request(c)
        return {"op": "loc", "axis": core.lean_axis(gen.clean(c["axis"]), None), "ix": c["ix"]}

    def judge(self, c, io, ans):
        if c["op"] == "take":
            return c01.PROP.judge(c, io, ans)
        bad = []
        lib, spec, pos = ans["lib"], ans["spec"], ans["positions"]
        # the property: selected positions equal the spec's
        if "err" in io:
            if spec != "error":
                bad.append("outcome")
        else:
            if spec == "error":
                bad.append("outcome")
            elif io["ok"]["positions"] != spec:
                bad.append("values")
        # the correspondence: impl vs mirror
        m = []
        if ("err" in io) != ("err" in lib) and ("err" in io) != ("err" in pos):
            m.append("mirror.outcome")
        elif "err" in io:
            if "err" in lib and lib["err"] != io["err"]:
                m.append("mirror.errclass")
        else:
            if "ok" in pos and pos["ok"][1] != io["ok"]["positions"]:
                m.append("mirror.positions")
            if "ok" in lib and lib["ok"] != io["ok"]["raw"]:
                m.append("mirror.raw")
        if not bad and not m:
            return None
        return {"kind": "P" if bad else "M", "differs": bad + m, "impl": io, "spec": spec, "lib": lib}

    def nontrivial(self, c):
        if c["op"] == "take":
            return True
        return len(c["axis"]["labels"]) >= 1 and (c["ix"][1] is not None or c["ix"][2] is not None)

    def features(self, c, io):
        f = {"outcome": "err:" + io["err"] if "err" in io else "ok", "src": c.get("_src", "?")}
        if c["op"] == "loc":
            f["axis_len"] = len(c["axis"]["labels"])
            f["step"] = c["ix"][3]
            f["order"] = c["axis"].get("_order")
            f["kind"] = c["axis"]["kind"]
            if "ok" in io:
                f["n_selected"] = len(io["ok"]["positions"])
        else:
            f["rank"] = len(c["array"]["axes"])
            f["mode"] = c["mode"]
        return f

    def size(self, c):
        if c["op"] == "take":
            return 1000 + c01.PROP.size(c)
        return len(c["axis"]["labels"]) * 10 + len(str(c["ix"]))

    def snippet(self, c):
        return ("import sys; sys.path.insert(0, '/verif/harness'); import json, core; from props.c02 import PROP; "
                "case = json.load(open(REPLAY))['case']; print(PROP.impl(case))")


PROP = C02()

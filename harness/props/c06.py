"""C06 - align() is a set union / intersection that neither invents nor loses data."""
import copy, itertools, math
from fractions import Fraction
import numpy as np
import core, gen
from core import da, Axis, DimArray, Dataset
from .base import Prop


def related_labels(rng, kind, base, how):
    """label set related to `base`: equal / overlapping / nested / disjoint / empty (encoded, unique)"""
    uni = {"i": list(range(-2, 12)), "f": [Fraction(k, 4) for k in range(-6, 40)], "O": gen.STRS}[kind]
    uni = [gen.enc(v) for v in uni]
    others = [u for u in uni if u not in base]
    if how == "nearly" and kind == "f" and base:
        # pairwise almost equal (far inside np.allclose's tolerance) but different labels: still a union of both
        out = list(base)
        for i in rng.sample(range(len(out)), rng.randint(1, len(out))):
            out[i] = gen.enc(Fraction(out[i][1], out[i][2]) + Fraction(1, 2 ** 40))
    elif how in ("equal", "nearly"):
        out = list(base)
    elif how == "empty":
        out = []
    elif how == "nested":
        out = [b for b in base if rng.random() < 0.6]
    elif how == "disjoint":
        out = rng.sample(others, min(len(others), rng.randint(1, 3)))
    else:  # overlapping
        out = [b for b in base if rng.random() < 0.6] + rng.sample(others, min(len(others), rng.randint(1, 2)))
    return out


def order_labels(rng, labels, order):
    key = lambda l: (l[0], Fraction(l[1], l[2]) if l[0] == "n" else l[1])
    if order == "inc":
        return sorted(labels, key=key)
    if order == "dec":
        return sorted(labels, key=key, reverse=True)
    if order == "mid":
        # sorted, but with the INTERIOR labels permuted: same first and last label as the increasing order
        out = sorted(labels, key=key)
        if len(out) >= 4:
            inner = out[1:-1]
            while inner == out[1:-1]:
                rng.shuffle(inner)
            out = [out[0]] + inner + [out[-1]]
        return out
    out = list(labels)
    rng.shuffle(out)
    return out


def gen_arrays(rng, n=None, maxrank=3, allow_empty=True, same_dims=False, minn=0):
    """list of arrays over a common pool of dimensions with related label sets"""
    n = n or rng.choice([1, 2, 2, 2, 3, 3, 4])
    pool = rng.sample(gen.DIMS, rng.randint(1, 3))
    kinds = {d: rng.choice(["i", "f", "O", "i"]) for d in pool}
    bases = {}
    for d in pool:
        bases[d], _ = gen.labels_of_kind(rng, kinds[d], rng.randint(max(1, minn), 4) if rng.random() < 0.8 else 5, "inc")
    # a common direction for most cases so that the sorted-direction clause is exercised
    common_order = rng.choice(["inc", "dec", None, None])
    arrays = []
    for k in range(n):
        dims = list(pool) if same_dims else [d for d in pool if rng.random() < 0.75]
        rng.shuffle(dims)
        dims = dims[:maxrank]
        axes = []
        for d in dims:
            how = rng.choice(["equal", "overlapping", "nested", "disjoint", "overlapping", "nearly"] + (["empty"] if allow_empty and rng.random() < 0.3 else []))
            labels = related_labels(rng, kinds[d], bases[d], how)
            if len(labels) < minn:
                labels = list(bases[d])
            order = common_order or rng.choice(["inc", "dec", "shuf", "mid"])
            kind = kinds[d]
            if kind == "i" and rng.random() < 0.15:
                kind = "f"      # mixed int / float kinds
            axes.append({"name": d, "kind": kind, "labels": order_labels(rng, labels, order), "_order": order, "_how": how})
        arrays.append({"axes": axes, "vkind": rng.choice(["f", "f", "i"])})
    return arrays


VK_EXTRA = ["b", "O", "U"]      # bool / object / str values: the outer-join fill makes them object arrays


def build_arr(ad, k=0):
    """core.build_array, plus str-valued ('U' dtype) arrays (cell i of array k holds 'v<k>_<i>')"""
    if ad.get("vkind") == "U":
        a = core.build_array(dict(ad, vkind="O"), k)
        b = DimArray(a.values.astype(str), axes=list(a.axes))
        for key, v in a.attrs.items():
            b.attrs[key] = v
        return b
    return core.build_array(ad, k)


def flat_arrays(entries):
    """array descriptions of an align case in expanded order (a Dataset entry counts for its variables)"""
    out = []
    for e in entries:
        out.extend(e["dataset"] if "dataset" in e else [e])
    return out


def group_dataset(rng, arrays):
    """turn a run of 1-3 consecutive arrays (each with at least one dimension) into the variables of one Dataset:
    a Dataset holds ONE axis per dimension, so the first occurrence of a dimension in the run gives the axis of
    every variable of the run"""
    ok = [i for i, a in enumerate(arrays) if "dataset" not in a and a["axes"] and not a.get("scalar")]
    if not ok:
        return arrays
    i = rng.choice(ok)
    j = i
    while j + 1 in ok and j - i < 2 and rng.random() < 0.6:
        j += 1
    run = [copy.deepcopy(a) for a in arrays[i:j + 1]]
    first = {}
    for a in run:
        for n, ax in enumerate(a["axes"]):
            if ax["name"] in first:
                a["axes"][n] = copy.deepcopy(first[ax["name"]])
            else:
                first[ax["name"]] = ax
    return arrays[:i] + [{"dataset": run}] + arrays[j + 1:]


def f32_exact(l):
    v = float(Fraction(l[1], l[2]))
    return float(np.float32(v)) == v


def midshuffle_pairs():
    """pairs of arrays over one dimension whose label sets are equal or nested, stored with the same first and last
    label but a different order in between (int / float / str labels; either array first)"""
    sets = {"i": ([0, 1, 2, 3], [0, 2, 1, 3], [0, 1, 2, 5, 3], [0, 3]), "f": ([0.5, 1.5, 2.5, 3.5], [0.5, 2.5, 1.5, 3.5], [0.5, 3.0, 1.5, 2.5, 3.5], [0.5, 3.5]),
            "O": (["a", "b", "c", "d"], ["a", "c", "b", "d"], ["a", "c", "e", "b", "d"], ["a", "d"])}
    for kind, (inc, mid, mid5, ends) in sets.items():
        def ax(vals):
            return {"name": "x", "kind": kind, "labels": [gen.enc(Fraction(v) if kind != "O" else v) for v in vals], "_order": "mid", "_how": "equal"}
        for la, lb in ((inc, mid), (mid, inc), (mid5, ends), (ends, mid5), (mid, mid5)):
            yield [{"axes": [ax(la)], "vkind": "f"}, {"axes": [ax(lb)], "vkind": "f"}]


def gen_entries(rng, tier="quick"):
    """an align case: the plain stream of gen_arrays, and on modest shares of it the other argument forms the
    statement quantifies over (Datasets, scalars, a tuple, strict=, narrow / unsigned label dtypes, float32 / int32 /
    bool / object / str values, an axis that is not a name)"""
    strict = rng.random() < 0.10
    arrays = gen_arrays(rng, same_dims=strict and rng.random() < 0.6)
    c = {"op": "align", "arrays": arrays, "join": rng.choice(["outer", "outer", "inner"]), "sort": rng.random() < 0.3}
    if rng.random() < 0.30:
        for a in arrays:
            if rng.random() < 0.7:
                gen.dtype_variants(rng, a, p=0.5)
    if rng.random() < 0.22:
        for a in arrays:
            if rng.random() < 0.6:
                a["vkind"] = rng.choice(VK_EXTRA)
                a.pop("vdtype", None)
    if len(arrays) < 4 and rng.random() < 0.08:
        # a bare scalar in the list stands for a 0-d array
        arrays.insert(rng.randint(0, len(arrays)), {"axes": [], "vkind": rng.choice(["f", "i", "b"]), "scalar": rng.choice(["py", "np"])})
    dims = []
    for a in arrays:
        for ax in a["axes"]:
            if ax["name"] not in dims:
                dims.append(ax["name"])
    c["axis"] = rng.choice(dims) if dims and rng.random() < 0.25 else None
    if strict:
        c["strict"] = True
    elif rng.random() < 0.14:
        c["arrays"] = group_dataset(rng, arrays)
        if rng.random() < 0.3:
            c["arrays"] = group_dataset(rng, c["arrays"])      # two Datasets in the list
    if rng.random() < 0.2:
        c["container"] = "tuple"
    if dims and rng.random() < 0.03:
        c["axis"] = None
        c["axis_raw"] = rng.choice([0, 1, -1])      # align's axis must be a name
    return c


def lab_key(l):
    return (l[0], Fraction(l[1], l[2])) if l[0] == "n" else (l[0], l[1] if len(l) > 1 else None)


def direction(labels):
    """'inc' / 'dec' / 'both' (fewer than 2 labels) / None"""
    ks = [lab_key(l) for l in labels]
    if len(ks) < 2:
        return "both"
    try:
        if all(a < b for a, b in zip(ks, ks[1:])):
            return "inc"
        if all(a > b for a, b in zip(ks, ks[1:])):
            return "dec"
    except TypeError:
        return None
    return None


def cell_index(obs, coord):
    """flat index of the cell at label coordinate {dim: label} (None if a label is missing)"""
    idx = 0
    for ax, n in zip(obs["axes"], obs["shape"]):
        keys = [lab_key(l) for l in ax["labels"]]
        k = lab_key(coord[ax["name"]])
        if k not in keys:
            return None
        idx = idx * n + keys.index(k)
    return idx


def check_align_property(c, inputs, outs, join, sort, axis):
    """the statement of C06, checked directly on what the implementation returned"""
    bad = []
    dims = []
    for o in inputs:
        for ax in o["axes"]:
            if ax["name"] not in dims:
                dims.append(ax["name"])
    if axis is not None:
        dims = [axis]
    for d in dims:
        have = [i for i, o in enumerate(inputs) if d in o["dims"]]
        if not have:
            continue
        sets = [set(lab_key(l) for l in inputs[i]["axes"][inputs[i]["dims"].index(d)]["labels"]) for i in have]
        want = set.union(*sets) if join == "outer" else set.intersection(*sets)
        ref = None
        for i in have:
            o = outs[i]
            if d not in o["dims"]:
                bad.append("dims"); continue
            labs = o["axes"][o["dims"].index(d)]["labels"]
            keys = [lab_key(l) for l in labs]
            if len(set(keys)) != len(keys):
                bad.append("axes.labels:duplicate")
            if set(keys) != want:
                bad.append("axes.labels:set")
            if ref is None:
                ref = keys
            elif keys != ref:
                bad.append("axes.labels:identical")
            if sort:
                if direction(labs) not in ("inc", "both"):
                    bad.append("axes.labels:sort")
            else:
                dirs = [direction(inputs[j]["axes"][inputs[j]["dims"].index(d)]["labels"]) for j in have]
                for want_dir in ("inc", "dec"):
                    if all(x in (want_dir, "both") for x in dirs) and direction(labs) not in (want_dir, "both"):
                        if not all(x == "both" for x in dirs) :
                            bad.append("axes.labels:direction")
    # dimensions an array does not have are left alone; values stay at their labels, NaN elsewhere
    for i, (inp, o) in enumerate(zip(inputs, outs)):
        if o["dims"] != inp["dims"]:
            bad.append("dims")
            continue
        for ax_in, ax_out in zip(inp["axes"], o["axes"]):
            if ax_in["name"] not in dims and ax_in["labels"] != ax_out["labels"]:
                bad.append("axes.labels:untouched")
        # every output cell
        shape = o["shape"]
        for flat, coord in enumerate(itertools.product(*[ax["labels"] for ax in o["axes"]])):
            cd = {ax["name"]: l for ax, l in zip(o["axes"], coord)}
            src = cell_index(inp, cd)
            v = o["values"][flat]
            if src is None:
                if v != ["nan"]:
                    bad.append("values:nan_elsewhere")
            elif v != inp["values"][src]:
                bad.append("values:moved")
    return sorted(set(bad))


def check_datasets(c, io):
    """a Dataset in the list comes back as a Dataset of the same variables, whose own axes are those of its variables"""
    bad = []
    k = 0
    for e, m_in, m_out in zip(c["arrays"], io["ds_inputs"], io["ds"]):
        n = len(e["dataset"]) if "dataset" in e else 1
        if "dataset" in e:
            if m_out is None or m_out["keys"] != m_in["keys"]:
                bad.append("dataset.keys")
            else:
                for ax in m_out["axes"]:
                    for o in io["ok"][k:k + n]:
                        if ax["name"] in o["dims"] and [lab_key(l) for l in o["axes"][o["dims"].index(ax["name"])]["labels"]] != [lab_key(l) for l in ax["labels"]]:
                            bad.append("axes.labels:dataset")
                used = set(d for o in io["ok"][k:k + n] for d in o["dims"])
                if used != set(ax["name"] for ax in m_out["axes"]):
                    bad.append("dataset.dims")
        k += n
    return bad


class C06(Prop):
    id = "C06"
    theorems = ["align_strict_spec", "align_strict_refuses", "commonAxis_fold_labels", "commonAxis_fold_sorted", "commonAxis_direction_counterexample", "union_sorted_decreasing", "union_sorted_increasing_gen", "commonAxis_outer_induct", "kindsClosed_same", "kindsClosed_numeric", "mem_union1d", "nodup_union1d", "union_mem", "union_nodup", "intersection_mem", "intersection_nodup",
                "intersection_sublist", "union_sorted_increasing", "commonAxis_outer_mem", "commonAxis_outer_nodup",
                "castKind_table_agrees", "castKind_table_lossless", "castKind_table_complete", "align_axis_spec", "align_axis_labels", "align_all_spec", "align_all_labels", "align_succeeds"]
    rule = ("lists of 1-4 arrays over a pool of 1-3 dimensions with arbitrary overlap and order of dimensions; per-"
            "dimension label sets equal / overlapping / nested / disjoint / empty, stored increasing / decreasing / "
            "shuffled (a common direction in half of the cases), int/float/str and mixed int/float kinds; join outer/"
            "inner, sort, axis=None or one dimension; plus Axis.union / Axis.intersection observed directly on pairs. "
            "On modest shares of the stream: Datasets in the list (1-3 variables sharing one axis per dimension, up to two "
            "Datasets), bare scalars, a tuple instead of a list, strict=True (refused when an array lacks an aligned "
            "dimension), an axis given by position (refused), unsigned / int32 / float32 label dtypes, float32 / int32 / "
            "bool / object / str values, Fortran memory order. A Dataset is compared through its variables, and its own "
            "axes against theirs. Non-trivial = at least two arrays sharing a dimension with different labels; "
            "distinct = canonical JSON")
    assumptions = ["labels unique per axis, NaN-free",
                   "float32 labels only on dimensions whose labels are all float32 numbers (open defect: labels rounded by reindex_axis)",
                   "the KIND of an axis is not compared with the mirror when unsigned labels are present (the mirror reads 'u' as 'i')"]

    def mirrors(self):
        import sys as _s
        al = _s.modules["dimarray.core.align"]
        from dimarray.core import axes
        return {"align": al.align, "_get_aligned_axes": al._get_aligned_axes, "_common_axis": al._common_axis,
                "union": axes.Axis.union, "intersection": axes.Axis.intersection, "_get_cast_kind": axes._get_cast_kind,
                "_check_axes_merge": axes._check_axes_merge, "reindex_axis": al.reindex_axis}

    # ---- finite decision table, regenerated from the implementation on every run
    def pre_build(self):
        from dimarray.core.axes import _get_cast_kind
        rows = []
        for k0 in core.KINDS:
            for k1 in core.KINDS:
                k, cons = _get_cast_kind(k0, k1)
                rows.append((k0, k1, k, bool(cons)))
        body = ",\n  ".join("(%s, %s, %s, %s)" % (core.lean_kind(a), core.lean_kind(b), core.lean_kind(k), "true" if c else "false")
                             for a, b, k, c in rows)
        content = ("/- GENERATED on every run by harness/props/c06.py from dimarray.core.axes._get_cast_kind -/\n"
                   "import DimModel.Core.Basic\nnamespace DimModel.Gen\n\n"
                   "def castKindTable : List (Kind × Kind × Kind × Bool) := [\n  %s]\n\nend DimModel.Gen\n" % body)
        changed = core.write_table("TableC06", content)
        self._table = rows
        return {"changed": changed, "summary": {"_get_cast_kind rows": len(rows)}, "rows": rows}

    def table_failing_rows(self, info):
        bad = []
        for a, b, k, cons in info["rows"]:
            want = (a, True) if a == b else (("O", False) if "O" in (a, b) else (("f", True) if "f" in (a, b) else (("i", True) if "i" in (a, b) else ("O", False))))
            if (k, cons) != want:
                bad.append({"kind0": a, "kind1": b, "impl": [k, cons], "model": list(want)})
        return bad

    def table_replay_hint(self):
        return "from dimarray.core.axes import _get_cast_kind; _get_cast_kind(kind0, kind1)"

    def extra_evidence(self):
        return {"tabulated_rows": len(getattr(self, "_table", []))}

    def gen(self, rng, tier):
        n = 700 if tier == "quick" else 20000
        for arrays in midshuffle_pairs():
            for join in ("outer", "inner"):
                yield {"op": "align", "arrays": arrays, "join": join, "sort": False, "axis": None}
        for _ in range(n):
            yield gen_entries(rng, tier)
        for _ in range(n // 2):
            kind = rng.choice(["i", "f", "O"])
            base, _ = gen.labels_of_kind(rng, kind, rng.randint(0, 4), "inc")
            a = order_labels(rng, base, rng.choice(["inc", "dec", "shuf", "inc"]))
            how = rng.choice(["equal", "overlapping", "nested", "disjoint", "empty"])
            b = order_labels(rng, related_labels(rng, kind, base, how), rng.choice(["inc", "dec", "shuf", "inc"]))
            kb = "f" if kind == "i" and rng.random() < 0.2 else kind
            c = {"op": "union", "a": {"name": "x", "kind": kind, "labels": a}, "b": {"name": "x", "kind": kb, "labels": b},
                 "join": rng.choice(["outer", "inner"]), "_how": how}
            if rng.random() < 0.3:
                # unsigned / narrow label dtypes on either side (same labels, another representation)
                for ax in (c["a"], c["b"]):
                    if ax["kind"] == "i" and rng.random() < 0.6:
                        ax["ldtype"] = rng.choice(["uint8", "uint16", "int32", "uint64", "int8"])
                    elif ax["kind"] == "f" and rng.random() < 0.6:
                        ax["ldtype"] = "float32"
            yield c

    # ------------------------------------------------------------------
    def impl(self, c):
        if c["op"] == "union":
            a, b = core.build_axis(c["a"]), core.build_axis(c["b"])
            sa, sb = core.obs_axis(a), core.obs_axis(b)
            out = core.guarded(lambda: core.obs_axis(a.union(b) if c["join"] == "outer" else a.intersection(b)))
            if core.obs_axis(a) != sa or core.obs_axis(b) != sb:
                out["operand_modified"] = True
            return out
        objs, k = [], 0
        for e in c["arrays"]:
            if "dataset" in e:
                ds = Dataset()
                for j, v in enumerate(e["dataset"]):
                    ds["v%d" % j] = build_arr(v, k)
                    k += 1
                objs.append(ds)
            else:
                a = build_arr(e, k)
                k += 1
                if e.get("scalar"):
                    a = a.values[()] if e["scalar"] == "np" else a.values[()].item()
                objs.append(a)

        def observe(objs):
            """expanded observations (a Dataset gives one per variable) and what the Datasets themselves say"""
            flat, meta = [], []
            for e, o in zip(c["arrays"], objs):
                if "dataset" in e:
                    if not isinstance(o, Dataset):
                        raise TypeError("harness: a Dataset did not come back as a Dataset but as %s" % type(o).__name__)
                    flat.extend(core.obs_array(dict.__getitem__(o, key)) for key in o.keys())
                    meta.append({"keys": list(o.keys()), "axes": [core.obs_axis(ax) for ax in o.axes]})
                else:
                    if "dataset" not in e and isinstance(o, Dataset):
                        raise TypeError("harness: an array came back as a Dataset")
                    flat.append(core.obs_array(o))
                    meta.append(None)
            return flat, meta
        before, meta_before = observe(objs)
        kw = {"join": c["join"]}
        if c["sort"]:
            kw["sort"] = True
        if c["axis"]:
            kw["axis"] = c["axis"]
        if c.get("axis_raw") is not None:
            kw["axis"] = c["axis_raw"]
        if c.get("strict"):
            kw["strict"] = True
        arg = tuple(objs) if c.get("container") == "tuple" else list(objs)

        def run():
            res = da.align(arg, **kw)
            if len(res) != len(objs):
                raise TypeError("harness: %d results for %d inputs" % (len(res), len(objs)))
            return observe(res)
        out = core.guarded(run)
        if "ok" in out:
            out["ds"] = out["ok"][1]
            out["ok"] = out["ok"][0]
        after, meta_after = observe(objs)
        if before != after or meta_before != meta_after:
            out["operand_modified"] = True
        out["inputs"] = before
        out["ds_inputs"] = meta_before
        return out

    def request(self, c):
        if c["op"] == "union":
            return {"op": "union", "a": gen.clean(c["a"]), "b": gen.clean(c["b"]), "join": c["join"]}
        if c.get("axis_raw") is not None:
            # the mirror's axis is a name or nothing: this form is decided by the oracle alone
            return {"op": "union", "a": {"name": "x", "kind": "i", "labels": []}, "b": {"name": "x", "kind": "i", "labels": []}, "join": "outer"}
        # a Dataset stands for its variables (one axis per dimension, shared by them); a scalar for a 0-d array
        r = {"op": "align", "arrays": [core.lean_array(gen.clean(a), None) for a in flat_arrays(c["arrays"])], "join": c["join"],
             "sort": c["sort"], "axis": c["axis"]}
        if c.get("strict"):
            r["strict"] = True
        return r

    def judge(self, c, io, ans):
        lean = ans["lib"]
        bad = []
        if c["op"] == "union":
            if "err" in io:
                bad.append("outcome")
            else:
                for f in ("name", "labels", "kind"):
                    if io["ok"][f] != lean["ok"][f] and not (f == "kind" and not io["ok"]["labels"]):
                        bad.append("axes." + f)
            prop_bad = []
            if "ok" in io:
                ka = set(lab_key(l) for l in c["a"]["labels"]); kb = set(lab_key(l) for l in c["b"]["labels"])
                got = [lab_key(l) for l in io["ok"]["labels"]]
                want = ka | kb if c["join"] == "outer" else ka & kb
                if set(got) != want or len(set(got)) != len(got):
                    prop_bad.append("axes.labels:set")
                if c["join"] == "outer":
                    da_, db_ = direction(c["a"]["labels"]), direction(c["b"]["labels"])
                    for w in ("inc", "dec"):
                        if da_ in (w, "both") and db_ in (w, "both") and not (da_ == "both" and db_ == "both"):
                            if direction(io["ok"]["labels"]) not in (w, "both"):
                                prop_bad.append("axes.labels:direction")
            else:
                prop_bad.append("outcome")
            if io.get("operand_modified"):
                bad.append("operand_modified"); prop_bad.append("operand_modified")
            if not bad and not prop_bad:
                return None
            return {"kind": "P" if prop_bad else "M", "differs": sorted(set(bad + prop_bad)), "impl": io, "lean": lean}
        # align
        flat = flat_arrays(c["arrays"])
        if c.get("axis_raw") is not None:
            # "axis=None or a single dimension" (docstring: must be a string since the axes do not necessarily match):
            # a position cannot name the dimension to align, the call has to be refused
            prop_bad = [] if io.get("err") in ("value", "type") else ["outcome"]
            if io.get("operand_modified"):
                prop_bad.append("operand_modified")
            return {"kind": "P", "differs": prop_bad, "impl": io.get("err") or "ok", "msg": io.get("msg")} if prop_bad else None
        if "ok" in lean:
            envs = core.CellEnv([build_arr(a, k).values for k, a in enumerate(flat)])
            outs = []
            for lo in lean["ok"]:
                x = core.lean_obs_to_canon(lo, envs, cast_kind=lo["vkind"] if lo["vkind"] in "fi" else None)
                x["scalar"] = False
                outs.append(x)
            if "err" in io:
                bad.append("outcome")
            elif len(outs) != len(io["ok"]):
                bad.append("outcome")
            else:
                # the mirror knows unsigned labels as integers ('u' -> 'i'); the implementation's label-kind widening
                # (_maybe_cast_type: u <- i gives object) is then not the mirror's: the KIND of such an axis is not compared
                unsigned = any(ax.get("ldtype", "").startswith("uint") for a in flat for ax in a["axes"])
                for k, (x, y) in enumerate(zip(io["ok"], outs)):
                    for b in core.diff_obs({"ok": x}, {"ok": y}):
                        if not (b == "axes.kind" and unsigned):
                            bad.append(b)
        else:
            if "ok" in io:
                bad.append("outcome")
            elif io["err"] != lean["err"]:
                bad.append("errclass")
        prop_bad = []
        dims_aligned = [c["axis"]] if c["axis"] else sorted(set(ax["name"] for a in flat for ax in a["axes"]))
        refused = c.get("strict") and any(d not in [ax["name"] for ax in a["axes"]] for a in flat for d in dims_aligned)
        if refused:
            # strict=True (docstring: "check that all arrays have the same dimensions"): nothing to align
            if io.get("err") != "value":
                prop_bad = ["outcome"]
        elif "ok" in io:
            prop_bad = check_align_property(c, io["inputs"], io["ok"], c["join"], c["sort"], c["axis"])
            prop_bad += check_datasets(c, io)
        else:
            prop_bad = ["outcome:" + io["err"]]
        if io.get("operand_modified"):
            prop_bad.append("operand_modified")
            bad.append("operand_modified")
        if not bad and not prop_bad:
            return None
        return {"kind": "P" if prop_bad else "M", "differs": sorted(set(bad + prop_bad)),
                "impl": io.get("err") or [{k: o[k] for k in ("dims", "shape")} for o in io["ok"]],
                "msg": io.get("msg")}

    def known(self, c, io, ans, mm, open_findings):
        ids = {f["id"] for f in open_findings}
        if "K05" in ids and c["op"] == "align" and "err" in io and io["err"] == "index":
            # an input with an empty axis on a dimension whose common axis is not empty
            for d in set(ax["name"] for a in flat_arrays(c["arrays"]) for ax in a["axes"]):
                lens = [len(ax["labels"]) for a in flat_arrays(c["arrays"]) for ax in a["axes"] if ax["name"] == d]
                if 0 in lens and any(l > 0 for l in lens) and "lib" in ans and ans["lib"].get("err") == "index":
                    return "K05"
        if "K06" in ids and c["op"] == "align" and mm["differs"] == ["axes.labels:direction"] and not c["sort"]:
            for d in set(ax["name"] for a in flat_arrays(c["arrays"]) for ax in a["axes"]):
                labs = [ax["labels"] for a in flat_arrays(c["arrays"]) for ax in a["axes"] if ax["name"] == d]
                singles = [l for l in labs if len(l) == 1]
                longer = [l for l in labs if len(l) > 1]
                if len(singles) >= 2 and longer and all(direction(l) == "dec" for l in longer):
                    return "K06"
        return None

    def nontrivial(self, c):
        if c["op"] == "union":
            return c["a"]["labels"] != c["b"]["labels"]
        seen = {}
        for a in flat_arrays(c["arrays"]):
            for ax in a["axes"]:
                if ax["name"] in seen and seen[ax["name"]] != ax["labels"]:
                    return True
                seen[ax["name"]] = ax["labels"]
        return False

    def features(self, c, io):
        f = {"outcome": "err:" + io["err"] if "err" in io else "ok", "op": c["op"], "join": c["join"]}
        if c["op"] == "align":
            f["n_arrays"] = len(c["arrays"]); f["sort"] = c["sort"]; f["axis"] = c["axis"] is not None
            f["container"] = c.get("container", "list"); f["strict"] = bool(c.get("strict"))
            f["axis_not_a_name"] = c.get("axis_raw") is not None
            f["datasets"] = sum(1 for e in c["arrays"] if "dataset" in e)
            f["scalars"] = sum(1 for e in c["arrays"] if e.get("scalar"))
            for a in flat_arrays(c["arrays"]):
                f["vkind:" + a.get("vkind", "f")] = 1
                if a.get("vdtype"):
                    f["vdtype:" + a["vdtype"]] = 1
                if a.get("order"):
                    f["memory:F"] = 1
                for ax in a["axes"]:
                    f["how:" + ax.get("_how", "?")] = 1
                    f["order:" + ax.get("_order", "?")] = 1
                    f["kind:" + ax["kind"]] = 1
                    if ax.get("ldtype"):
                        f["ldtype:" + ax["ldtype"]] = 1
        else:
            f["how"] = c.get("_how")
            for ax in (c["a"], c["b"]):
                if ax.get("ldtype"):
                    f["ldtype:" + ax["ldtype"]] = 1
        return f

    def size(self, c):
        if c["op"] == "union":
            return len(c["a"]["labels"]) + len(c["b"]["labels"])
        return 100 * len(flat_arrays(c["arrays"])) + sum(len(ax["labels"]) for a in flat_arrays(c["arrays"]) for ax in a["axes"])

    def snippet(self, c):
        return ("import sys; sys.path.insert(0, '/verif/harness'); import json, core; from props.c06 import PROP; "
                "case = json.load(open(REPLAY))['case']; print(PROP.impl(case))")


PROP = C06()

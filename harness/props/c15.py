"""C15 - operations do not modify their operands; copies are independent.

Two streams:
 * "heap": object-level histories (create / copy / views / derived arrays / in-place mutations through any
   live array) executed on real objects and on the Lean heap model (Lib/Heap.lean); after every step the
   snapshot of every live array is compared with the model's, and the property oracles are applied to the
   implementation's snapshots: no non-in-place step changes any live array; a mutation made through an array
   never shows in an array separated from it by copy() (or created independently);
 * "sweep": the calls generated for C01-C14, C16-C18 (and C19: serialisation) are re-run under a monitor that
   snapshots every operand (receiver and array / dataset / axis arguments, with a live transposed sibling sharing
   its Axis objects and mutable metadata values) before each outermost public non-in-place library call and
   compares afterwards; for calls that are in place for their receiver only (assignment, construction) the other
   operands are snapshotted;
 * "ds" / "derived": direct call lists on a Dataset and its source arrays / on operands that are themselves results
   of library operations; every call that the implementation refuses is recorded (`raised`) and shows up in the
   evidence as a feature `raised:<call>`, so that a call form that never runs cannot pass for coverage.
"""
import copy, functools, importlib, inspect, json, os, threading, warnings
import numpy as np
import core, gen
from core import da, Axis, DimArray, Dataset
from .base import Prop

NCDIR = os.path.join(core.WORK, "nc")          # files written through the vendored netCDF4 stand-in (see props/c19.py)

SWEEP = ["C01", "C02", "C03", "C04", "C05", "C06", "C07", "C08", "C09", "C10", "C11", "C12", "C13", "C14", "C16", "C17", "C18", "C19"]

# calls that are in place by contract
INPLACE_NAMES = {"__setitem__", "__delitem__", "_setitem", "fill", "__setattr__", "__delattr__", "update", "pop", "popitem",
                 "clear", "setdefault", "append", "insert", "extend", "remove", "sort", "reverse", "setncattr", "delncattr",
                 "__iadd__", "__isub__", "__imul__", "__itruediv__", "__ifloordiv__", "__ipow__", "__idiv__", "__iand__",
                 "__ior__", "__ixor__", "_set_attrs", "_metadata", "set_metadata", "__init__", "__new__", "__setstate__",
                 "__reduce__", "__reduce_ex__", "__getstate__", "__deepcopy__", "__copy__", "__getattribute__", "__getattr__",
                 "__repr__", "__str__", "__len__", "__iter__", "__contains__", "__hash__", "__class__",
                 "__dir__", "__format__", "__sizeof__", "__subclasshook__", "__init_subclass__", "__array__",
                 "__array_wrap__", "__array_finalize__", "__array_prepare__", "__bool__", "__nonzero__"}

# calls that are in place for their RECEIVER only: every other operand (the array stored into a Dataset, the array /
# axes a DimArray or Dataset is constructed from, a DimArray right-hand side of an assignment) must stay as it was
INPLACE_OPERANDS = {"__setitem__", "_setitem", "__init__"}


# ----------------------------------------------------------------------------------------- snapshots
def deep_attrs(d):
    out = []
    for k in d:
        v = d[k]
        out.append((str(k), repr(v.tolist()) if isinstance(v, np.ndarray) else repr(v)))
    return tuple(out)


def snap_axis(ax):
    v = np.asarray(ax.values)
    out = (str(ax.name), repr(v.tolist()), v.dtype.kind, deep_attrs(getattr(ax, "attrs", {})))
    subs = getattr(ax, "axes", None)
    if subs is not None and type(ax).__name__ in ("MultiAxis", "GroupedAxis"):
        # a grouped axis: its member axes are part of the object's state (the tuple labels above may come from a cache)
        out = out + (tuple(snap_axis(sub) for sub in subs),)
    return out


def snap(x, depth=0):
    if isinstance(x, DimArray):
        v = x.values
        return ("A", repr(np.asarray(v).tolist()), str(v.dtype), tuple(v.shape), tuple(x.dims), tuple(snap_axis(a) for a in x.axes),
                deep_attrs(x.attrs))
    if isinstance(x, Dataset):
        return ("D", tuple(str(k) for k in x.keys()), tuple(snap(x[k]) for k in x.keys()), tuple(snap_axis(a) for a in x.axes),
                deep_attrs(x.attrs))
    if isinstance(x, Axis):
        return ("X",) + snap_axis(x)
    if isinstance(x, da.core.axes.Axes) if hasattr(da, "core") else False:
        return ("XS", tuple(snap_axis(a) for a in x))
    if depth < 2 and isinstance(x, (list, tuple)):
        return ("L", tuple(snap(y, depth + 1) for y in x))
    if depth < 2 and isinstance(x, dict):
        # the statement is about the ARRAYS passed to an operation: of a dict argument (an index {dim: ...}, a dict of
        # arrays) the contained arrays are the operands, whatever key they sit under (dimarray rewrites the positional
        # keys of a dict index into dimension names in the caller's dict - not a change of any array)
        return ("M", tuple(sorted((snap(v, depth + 1) for v in x.values()), key=repr)))
    if isinstance(x, np.ndarray) and x.size <= 4096:
        return ("N", repr(x.tolist()), str(x.dtype))
    return None


FIELDS = {"A": ["", "values", "dtype", "shape", "dims", "axes", "attrs"], "D": ["", "keys", "variables", "axes", "attrs"],
          "X": ["", "name", "labels", "labels.dtype", "attrs"]}


def what_changed(a, b):
    if a is None or b is None or a[0] != b[0]:
        return "type"
    names = FIELDS.get(a[0])
    for i, (x, y) in enumerate(zip(a, b)):
        if x != y:
            return names[i] if names and i < len(names) else "item%d" % (i - 1)
    return "?"


_SIGS = {}


def inplace_call(fn, args, kw):
    """is this call in place by contract: its `inplace` parameter (given or default) is true"""
    if fn not in _SIGS:
        try:
            _SIGS[fn] = inspect.signature(fn)
        except (TypeError, ValueError):
            _SIGS[fn] = None
    sig = _SIGS[fn]
    if sig is None or "inplace" not in sig.parameters:
        return bool(kw.get("inplace"))
    try:
        b = sig.bind_partial(*args, **kw)
    except TypeError:
        return bool(kw.get("inplace"))
    if "inplace" in b.arguments:
        return bool(b.arguments["inplace"])
    d = sig.parameters["inplace"].default
    return d is not inspect.Parameter.empty and bool(d)


def buffers(x, depth=0):
    """the NumPy buffers (values, labels) reachable from an operand"""
    try:
        if isinstance(x, DimArray):
            return [x.values] + [ax.values for ax in x.axes]
        if isinstance(x, Dataset):
            out = [ax.values for ax in x.axes]
            for k in x.keys():
                out += buffers(dict.__getitem__(x, k))
            return out
        if isinstance(x, Axis):
            return [x.values]
        if isinstance(x, np.ndarray):
            return [x]
        if depth < 2 and isinstance(x, (list, tuple)):
            return [b for y in x for b in buffers(y, depth + 1)]
        if depth < 2 and isinstance(x, dict):
            return [b for y in x.values() for b in buffers(y, depth + 1)]
    except Exception:
        pass
    return []


def aliased(recv, o):
    """does operand `o` share storage with the receiver of an in-place call (then it legitimately changes with it)"""
    if o is recv:
        return True
    bo = [b for b in buffers(o) if isinstance(b, np.ndarray)]
    if not bo:
        return False
    br = [b for b in buffers(recv) if isinstance(b, np.ndarray)]
    return any(np.may_share_memory(x, y) for x in br for y in bo)


class _DescWrap(object):
    """monitored stand-in of a non-function class attribute that hands out the callable on access (the reductions:
    transform._NumpyDesc.__get__ returns partial(apply_along_axis, obj, name))"""

    def __init__(self, desc, qual, mon):
        self.desc, self.qual, self.mon = desc, qual, mon
        self._verif_wrapped = True

    def __get__(self, obj, cls=None):
        fn = self.desc.__get__(obj, cls)
        if obj is None:
            return fn
        mon, qual = self.mon, self.qual

        def w(*args, **kw):
            return mon.call(fn, qual, "", [obj] + list(args) + list(kw.values()), args, kw)
        w.__name__ = getattr(fn, "__name__", qual)
        w.__doc__ = getattr(fn, "__doc__", None)
        return w


class Monitor:
    """wraps the public callables of dimarray (methods of DimArray / Dataset / Axis / Axes wherever in the class
    hierarchy they are defined - indexing and arithmetic live in the base classes of core/bases.py -, the reductions
    handed out by descriptors, classmethod constructors, the property T, the package-level functions); at the outermost
    library call that is not in place by contract, snapshots every operand before and compares after; at an outermost
    call that is in place for its receiver only (assignment, construction), does so for the other operands"""
    tl = threading.local()

    def __init__(self):
        self.violations = []
        self.calls = 0
        self.per_func = {}
        self.raised = {}
        self.saved = []
        self.siblings = {}

    def sibling_of(self, x):
        return self.siblings.get(id(x))

    def call(self, fn, qual, name, ops, args, kw):
        mon = self
        depth = getattr(Monitor.tl, "depth", 0)
        if depth > 0 or not getattr(Monitor.tl, "active", False):
            return fn(*args, **kw)
        if name in ("__setitem__", "__init__") or inplace_call(fn, args, kw):
            if name not in INPLACE_OPERANDS or len(ops) < 2:
                return fn(*args, **kw)
            # in place for the receiver: the other operands (unless they share storage with it) must not change
            recv = ops[0]
            ops = [o for o in ops[1:] if isinstance(o, (DimArray, Dataset, Axis, list, tuple, dict)) and not aliased(recv, o)]
            if not any(snap(o) is not None for o in ops):
                return fn(*args, **kw)
            qual = qual + "[operands]"
        Monitor.tl.depth = 1
        try:
            sibs = [mon.sibling_of(o) for o in ops]
            before = [snap(o) for o in ops]
            sb = [snap(s) if s is not None else None for s in sibs]
            try:
                return fn(*args, **kw)
            except Exception:
                mon.raised[qual] = mon.raised.get(qual, 0) + 1
                raise
            finally:
                mon.calls += 1
                mon.per_func[qual] = mon.per_func.get(qual, 0) + 1
                for i, (o, b0) in enumerate(zip(ops, before)):
                    if b0 is None:
                        continue
                    b1 = snap(o)
                    if b1 != b0:
                        mon.violations.append({"func": qual, "operand": i, "changed": what_changed(b0, b1)})
                    if sibs[i] is not None and snap(sibs[i]) != sb[i]:
                        mon.violations.append({"func": qual, "operand": i, "changed": "sibling." + what_changed(sb[i], snap(sibs[i]))})
        finally:
            Monitor.tl.depth = 0

    def wrap(self, owner, name, fn, qual):
        mon = self

        @functools.wraps(fn)
        def w(*args, **kw):
            return mon.call(fn, qual, name, list(args) + list(kw.values()), args, kw)
        w._verif_wrapped = True
        return w

    def targets(self):
        """(owner, attribute name, replacement factory input) for everything to patch"""
        import dimarray
        from dimarray.core.transform import _NumpyDesc
        out, seen = [], set()
        classes = [DimArray, Dataset, Axis, dimarray.core.axes.Axes]
        for cls in classes:
            for k in cls.__mro__:
                if not getattr(k, "__module__", "").startswith("dimarray"):
                    continue
                for name, v in list(vars(k).items()):
                    if (k, name) in seen:
                        continue
                    seen.add((k, name))
                    qual = "%s.%s" % (k.__name__, name)
                    if isinstance(v, _NumpyDesc):
                        out.append((k, name, v, qual, "desc"))
                        continue
                    if isinstance(v, classmethod):
                        if not name.startswith("_"):
                            out.append((k, name, v, qual, "classmethod"))
                        continue
                    if isinstance(v, property):
                        if name == "T":
                            out.append((k, name, v, qual, "property"))
                        continue
                    if not inspect.isfunction(v):
                        continue
                    if name in INPLACE_OPERANDS:
                        if name == "__init__" and k is dimarray.core.axes.Axes:
                            continue
                        out.append((k, name, v, qual, "func"))
                        continue
                    if name in INPLACE_NAMES:
                        continue
                    if name.startswith("_") and not (name.startswith("__") and name.endswith("__")) and name not in ("_getitem",):
                        continue
                    out.append((k, name, v, qual, "func"))
        for name, fn in list(vars(dimarray).items()):
            if inspect.isfunction(fn) and getattr(fn, "__module__", "").startswith("dimarray") and not name.startswith("_") \
                    and name not in ("set_option", "get_option", "print_options", "rcParams"):
                out.append((dimarray, name, fn, "dimarray." + name, "func"))
        return out

    def __enter__(self):
        for owner, name, v, qual, kind in self.targets():
            if getattr(v, "_verif_wrapped", False) or getattr(getattr(v, "__func__", None), "_verif_wrapped", False) \
                    or getattr(getattr(v, "fget", None), "_verif_wrapped", False):
                continue
            if kind == "func":
                new = self.wrap(owner, name, v, qual)
            elif kind == "desc":
                new = _DescWrap(v, qual, self)
            elif kind == "classmethod":
                new = classmethod(self.wrap(owner, name, v.__func__, qual))
            else:
                new = property(self.wrap(owner, name, v.fget, qual), v.fset, v.fdel, v.__doc__)
            self.saved.append((owner, name, v))
            setattr(owner, name, new)
        # plugin modules did `from dimarray import align, stack ...`? they go through da.<name>, which is patched
        return self

    def __exit__(self, *exc):
        for owner, name, fn in reversed(self.saved):
            setattr(owner, name, fn)
        self.saved = []
        Monitor.tl.active = False
        return False

    def activate(self, flag=True):
        Monitor.tl.active = flag


# ----------------------------------------------------------------------------------------- heap histories
def py_attrs(spec):
    return {k: ("K" if v is None else list(v)) for k, v in spec}


def obs_attrs(d):
    out = []
    for k in d:
        v = d[k]
        out.append([str(k), ["list", [str(x) for x in v]] if isinstance(v, list) else ["atom", str(v)]])
    return out


NONE_LABEL = -999          # the label of the dummy axis of newaxis (None), as in Lib/HeapX.lean


class Outside(Exception):
    """the step is outside what the model covers (guard mirrored in the model, which refuses too)"""


def share_live(env):
    """what np.shares_memory / `is` see between every pair of live arrays"""
    out = []
    for j in range(len(env)):
        for i in range(j):
            a, b = env[i], env[j]
            pairs = [[x, y] for x in range(a.ndim) for y in range(b.ndim)]
            out.append({"i": i, "j": j, "same": a is b, "vals": bool(np.shares_memory(a.values, b.values)),
                        "axes": [p for p in pairs if a.axes[p[0]] is b.axes[p[1]]],
                        "labels": [p for p in pairs if bool(np.shares_memory(a.axes[p[0]].values, b.axes[p[1]].values))],
                        "attrs": a.attrs is b.attrs,
                        "attr_vals": [str(k) for k in a.attrs if isinstance(a.attrs[k], list) and k in b.attrs and a.attrs[k] is b.attrs[k]]})
    return out


def obs_live(a):
    if not isinstance(a, DimArray):
        return None
    return {"shape": [int(s) for s in a.shape], "values": [int(v) for v in np.asarray(a.values).reshape(-1).tolist()],
            "axes": [{"name": str(ax.name), "labels": [(NONE_LABEL if v is None else int(v)) for v in ax.values.tolist()], "attrs": obs_attrs(ax.attrs)} for ax in a.axes],
            "attrs": obs_attrs(a.attrs)}


def run_heap(ops, share=False):
    """execute the history on real objects; per step the snapshots of all live arrays (and what they share)"""
    env, out = [], []

    def labels_of(ax):
        return [(NONE_LABEL if v is None else int(v)) for v in ax.values.tolist()]
    for op in ops:
        t = op[0]
        try:
            if t == "create":
                _, shape, cells, axes, attrs = op
                axs = []
                for name, labels, aat in axes:
                    ax = Axis(np.array(labels, dtype=np.int64), name)
                    ax.attrs.update(py_attrs(aat))
                    axs.append(ax)
                a = DimArray(np.array(cells, dtype=np.int64).reshape(shape), axes=axs)
                a.attrs.update(py_attrs(attrs))
                env.append(a)
            elif t == "copy":
                env.append(env[op[1]].copy())
            elif t == "transpose":
                env.append(env[op[1]].transpose(*op[2]))
            elif t == "squeeze":
                env.append(env[op[1]].squeeze())
            elif t == "slice_all":
                env.append(env[op[1]][:] if env[op[1]].ndim else env[op[1]][()])
            elif t == "take_scalar":
                env.append(env[op[1]].take(op[3], axis=op[2], indexing="position"))
            elif t == "take_list":
                env.append(env[op[1]].take(list(op[3]), axis=op[2], indexing="position"))
            elif t == "add":
                env.append(env[op[1]] + op[2])
            elif t == "sort_axis":
                env.append(env[op[1]].sort_axis(axis=op[2]))
            elif t == "swapaxes":
                env.append(env[op[1]].swapaxes(op[2], op[3]))
            elif t == "rollaxis":
                env.append(env[op[1]].rollaxis(op[2]))
            elif t == "T":
                env.append(env[op[1]].T)
            elif t == "newaxis":
                env.append(env[op[1]].newaxis(op[2], pos=op[3]))
            elif t == "slice":
                env.append(env[op[1]].take(slice(op[3], op[4], op[5]), axis=op[2], indexing="position"))
            elif t == "ds_var":
                from dimarray import Dataset as _Dataset
                _ds = _Dataset()
                _ds["v"] = env[op[1]]
                if _ds["v"] is not _ds["v"]:
                    raise AssertionError("ds['v'] is not ds['v']")
                env.append(_ds["v"])
            elif t == "sum":
                if env[op[1]].ndim < 2:
                    raise Outside("a scalar result is not an array")
                env.append(env[op[1]].sum(axis=op[2]))
            elif t == "add_arr":
                a, b = env[op[1]], env[op[2]]
                if a.ndim == 0 or a.dims != b.dims or a.shape != b.shape or \
                        [labels_of(x) for x in a.axes] != [labels_of(x) for x in b.axes]:
                    raise Outside("operands that need aligning")
                env.append(a + b)
            elif t == "reindex":
                a = env[op[1]]
                if op[2] >= a.ndim:
                    raise Outside("no such dimension")
                have = labels_of(a.axes[op[2]])
                if len(set(have)) != len(have) or any(l not in have for l in op[3]):
                    raise Outside("duplicate or missing labels")
                env.append(a.reindex_axis(np.array(op[3], dtype=np.int64) if NONE_LABEL not in op[3] else
                                          np.array([None if l == NONE_LABEL else l for l in op[3]], dtype=object), axis=op[2]))
            elif t == "mut":
                a, m = env[op[1]], op[2]
                if m[0] == "set_val":
                    a.values.flat[m[1]] = m[2]
                elif m[0] == "set_label":
                    a.axes[m[1]].values[m[2]] = m[3]
                elif m[0] == "rename":
                    a.axes[m[1]].name = m[2]
                elif m[0] == "set_attr":
                    a.attrs[m[1]] = m[2]
                elif m[0] == "append_attr":
                    if isinstance(a.attrs.get(m[1]), list):
                        a.attrs[m[1]].append(m[2])
                elif m[0] == "set_axis_attr":
                    a.axes[m[1]].attrs[m[2]] = m[3]
                elif m[0] == "append_axis_attr":
                    if isinstance(a.axes[m[1]].attrs.get(m[2]), list):
                        a.axes[m[1]].attrs[m[2]].append(m[3])
        except Exception as e:                                      # refused: no new variable
            out.append({"err": "%s: %s" % (type(e).__name__, e), "obs": [obs_live(a) for a in env]})
            if share:
                out[-1]["share"] = share_live(env)
            continue
        out.append({"obs": [obs_live(a) for a in env]})
        if share:
            out[-1]["share"] = share_live(env)
    return out


# the strata over the extended heap model (Lib/HeapX.lean)
HEAPX = True


def run_heapflat(ops, k):
    """the history (create / copy / swapaxes / rollaxis / T / newaxis / slice), then b = env[k].flatten(): does b.values share
    memory with env[k].values, b's shape, values and the name of the grouped axis"""
    env = []
    for op in ops:
        t = op[0]
        try:
            if t == "create":
                _, shape, cells, axes, attrs = op
                axs = [Axis(np.array(labels, dtype=np.int64), name) for name, labels, _ in axes]
                env.append(DimArray(np.array(cells, dtype=np.int64).reshape(shape), axes=axs))
            elif t == "copy":
                env.append(env[op[1]].copy())
            elif t == "swapaxes":
                env.append(env[op[1]].swapaxes(op[2], op[3]))
            elif t == "rollaxis":
                env.append(env[op[1]].rollaxis(op[2]))
            elif t == "T":
                env.append(env[op[1]].T)
            elif t == "newaxis":
                env.append(env[op[1]].newaxis(op[2], pos=op[3]))
            elif t == "slice":
                env.append(env[op[1]].take(slice(op[3], op[4], op[5]), axis=op[2], indexing="position"))
        except Exception:
            continue
    if k >= len(env):
        return None
    a = env[k]
    before = obs_live(a)
    try:
        b = a.flatten()
    except Exception:
        return None
    return {"shares": bool(np.shares_memory(b.values, a.values)), "shape": [int(x) for x in b.shape],
            "values": [int(v) for v in np.asarray(b.values).reshape(-1).tolist()], "name": str(b.axes[0].name),
            "_operand_unchanged": before == obs_live(a), "_contig": bool(a.values.flags["C_CONTIGUOUS"])}

DERIVED_CALLS = (
    ["add", "radd", "add_self", "reshape_same", "reshape_t", "mean", "sum_axis0", "transpose", "copy", "sort_axis", "take0", "eq",
     "align", "stack_with", "to_dataset", "unflatten", "fillna", "percentile", "quantile", "quantile_last", "median", "cumsum",
     "diff", "argmax", "interp", "copy_mutate", "copy_mutate", "setna_masks", "put_mask"] +
    ["skipna_%s_%s" % (f, ax) for f in ("any", "all", "ptp", "sum", "mean", "min", "max", "std", "median", "prod", "cumsum", "argmin")
     for ax in ("none", "0", "last")] +
    # ---- forms added for the operand audit
    ["align_%s_%s_%s" % (j, s_, f) for j in ("outer", "inner") for s_ in ("sort", "nosort")
     for f in ("list", "rev", "axis", "three", "scalar", "strict")] +
    ["red_%s_%s" % (f, ax) for f in ("sum", "mean", "min", "max", "std", "var", "median", "prod", "ptp", "all", "any")
     for ax in ("default", "name", "neg", "tuple")] +
    2 * ["to_json", "json_roundtrip", "write_nc", "write_nc_ds", "write_nc_append", "to_misc"] +
    2 * ["put_label", "put_pos", "put_dimarray", "setitem_dimarray", "boolnd_dimarray_mask", "eq_forms", "ne", "cmp"] +
    ["sub", "mul", "div", "pow_other", "floordiv", "scalar_ops", "ndarray_ops", "T", "sort_axis_last", "align_dims",
     "broadcast_arrays", "add_lastdim", "add_lastdim", "broadcast", "stack_align", "concatenate", "concatenate_align", "reindex_axis", "reindex_method",
     "reindex_like", "interp_like", "to_dataset_method", "group", "dropna", "compress_axis", "cumprod", "diff_last", "argmin_all",
     "interp_first", "apply", "squeeze", "set_axis", "index_spellings", "index_array", "deepcopy_mutate"])


class C15(Prop):
    id = "C15"
    theorems = ["Heap.apply_extends", "Heap.obsArr_append", "Heap.wf_step", "Heap.wf_run", "Heap.wf_step_counterexample", "Heap.nonmut_frame", "Heap.nonmut_history_frame", "Heap.deepCopy_spec", "Heap.mutate_below", "Heap.mutate_above", "Heap.obsArr_below", "Heap.obsArr_above", "Heap.separation_below", "Heap.separation_above", "Heap.copy_independent", "Heap.copy_independent_rev",
                "Heap.xapply_extends", "Heap.xnonmut_frame", "Heap.xnonmut_history_frame", "Heap.transpose_shares", "Heap.swapaxes_shares",
                "Heap.rollaxis_shares", "Heap.tT_rank0_same", "Heap.newaxis_shares_values", "Heap.reduceSum_shares_axes",
                "Heap.write_through_view", "Heap.write_through_view_counterexample", "Heap.transpose_view_cell", "Heap.swapaxes_is_transpose", "Heap.rollaxis_is_transpose", "Heap.tT_is_transpose", "Heap.write_through_transpose", "Heap.write_through_swapaxes", "Heap.write_through_rollaxis", "Heap.write_through_tT", "Heap.write_through_transpose_counterexample", "Heap.flatten_shares_iff_contiguous", "Heap.flatten_shares_iff_contiguous_counterexample", "Heap.fresh_values_independent",
                "Heap.dsVar_shares", "Heap.xwf_step", "Heap.xwf_run", "Heap.xwf_step_counterexample", "Heap.xmixed_history_frame", "Heap.xmixed_step_frame"]
    rule = ("(heap) object-level histories of 2-9 steps over 1-5 live arrays of rank 1-3: create (unsorted integer labels, "
            "metadata with atoms and mutable lists on the array and on its axes), copy(), transpose, squeeze, a[:], "
            "take(scalar), take(list), a + k, sort_axis, and in-place mutations through any live array (a value cell, a label, "
            "an axis name, metadata set / append on the array or an axis); (heapx) the same histories interleaved with the "
            "operations of Lib/HeapX.lean (swapaxes, rollaxis, T, newaxis, take(slice(start, stop, step)) by position, sum over "
            "an axis, a + b for operands with equal dimensions and labels, reindex_axis with labels present in a duplicate-free "
            "axis), up to 9 live arrays; after EVERY step, besides the snapshots, the sharing between every pair of live arrays is "
            "compared with the model: `is` on the arrays, np.shares_memory on the values, `is` on every pair of Axis objects, "
            "np.shares_memory on every pair of label arrays, `is` on the metadata dicts and on their mutable values; a copy() "
            "that shares anything is a violation of the property, any other difference a model disagreement; (ds) a Dataset built from 1-3 arrays, then 1-4 "
            "non-in-place Dataset calls (axes / keys renaming, indexing, reductions, reindex / interp (_like), align, stack_ds / "
            "concatenate_ds, arithmetic, ==, to_array / to_dict, write_nc, (re)insertion of a variable, copy() followed by a "
            "change of one component of the copy), source arrays and Dataset snapshotted around every call; (derived) "
            "operands that are results of library operations (N-d boolean read, flatten, newaxis, stack, take, transpose) "
            "or plain, with a second operand whose labels partly overlap, under 1-3 of ~190 call forms (arithmetic, "
            "comparisons incl. every branch of __eq__/__ne__, reductions by name / position / tuple / default with and "
            "without skipna, align in both joins with and without sort in six argument forms, reindex, interp, stack / "
            "concatenate with align, put(inplace=False) in four forms, assignment of a DimArray, indexing spellings, to_json "
            "/ from_json, write_nc through the netCDF4 stand-in, copy() / deepcopy followed by changes in both directions); "
            "calls the implementation refuses are counted apart (features raised:*); (sweep) every call generated for "
            "C01-C14, C16-C18 and C19 re-run under the operand monitor (methods wherever defined in the class hierarchy, "
            "reductions handed out by descriptors, classmethods, T, package functions; for assignments and constructors "
            "the operands other than the receiver) with transposed siblings and mutable metadata. Non-trivial = a "
            "history with a mutation after a copy or derived array / a sweep case with at least one monitored call; "
            "distinct = canonical JSON; (heapflat) an array of rank 1-3 (sizes 0-4), 0-3 arrays derived from the live ones by "
            "swapaxes / rollaxis / T / newaxis / position slices along dimension 0 / copy, then b = env[k].flatten() of all dimensions: "
            "np.shares_memory(b.values, env[k].values), b's shape, values and the name of the grouped axis against "
            "Heap.flattenObs (view iff the index map of env[k] is the identity enumeration), and on the implementation "
            "alone: shares iff env[k].values is C-contiguous (non-empty), the operand unchanged")
    assumptions = ["heapflat: the model decides contiguity from the index map of a view; the MEMORY LAYOUT of a new buffer is not "
                   "modelled (NumPy keeps the operand's layout in a.T.copy() and in position slices of a.T / along a later "
                   "dimension, so their flatten() copies again where the model would say view): copy / slice steps of the "
                   "heapflat stratum are generated for certainly contiguous operands and slices along dimension 0 only. The "
                   "grouped axis of the result (tuple labels) is represented by a new Axis object with the joined name; "
                   "flatten of a subset of the dimensions and reshape are not mirrored in the heap model",
                   "PARTIAL: the theorems are about the object-level model of the aliasing discipline (which result components "
                   "are new objects, which are shared); for operations outside the heap model (interpolation, joining, stacking, "
                   "alignment of operands with different labels, flatten / reshape, cumulative functions, Dataset operations) the "
                   "property is decided by the snapshot monitor over generated calls only (a search, not a proof)",
                   "the extended operations (Lib/HeapX.lean) have the frame theorems and the sharing statements; invariance of "
                   "well-formedness is proved for them too (xwf_step / xwf_run, with in-place mutations interleaved), so the frame "
                   "theorem holds for the non-mutating stretches of every mixed history from a well-formed initial heap "
                   "(xmixed_history_frame); hypothesis: every create is given as many axes as dimensions (XOpOK)",
                   "heapx ds_var (ds = Dataset(); ds['v'] = a; b = ds['v']): b is a new object but b.values IS a.values and b.attrs IS "
                   "a.attrs (dataset.py __setitem__ makes copy.copy(val) and deep-copies only the axes): every write to values "
                   "(b.values[...] = x, b[...] = x, ds['v'][...] = x, in-place operators) and every write to b.attrs reaches the assigned "
                   "array a; writes to b's axes (labels, names, axis attrs) do not (they reach the Dataset's axes and the other variables "
                   "of the Dataset instead). Modelled as such (dsVar_shares), not judged",
                   "heapx: steps the model does not cover (a + b that needs aligning, sum of a rank-1 array = a scalar, reindex_axis "
                   "with absent labels or over duplicate labels) are refused by a guard on both sides"]

    def mirrors(self):
        import sys as _s
        dc = _s.modules["dimarray.core.dimarraycls"]
        ax = _s.modules["dimarray.core.axes"]
        al = _s.modules["dimarray.core.align"]
        return {"DimArray.copy": dc.DimArray.copy, "DimArray._constructor": dc.DimArray._constructor, "Axis.copy": ax.Axis.copy,
                "Axes.copy": ax.Axes.copy, "Axis.__getitem__": ax.Axis.__getitem__, "_get_aligned_axes": al._get_aligned_axes,
                "DimArray.take_axis": dc.DimArray.take_axis, "Dataset.__setitem__": Dataset.__setitem__}

    # ---------------------------------------------------------------- generation
    def gen_heap(self, rng, i):
        ops, shapes, groups = [], [], []
        renames = [0]

        def spec():
            s = []
            if rng.random() < 0.7:
                s.append(["units", None])
            if rng.random() < 0.8:
                s.append(["hist", ["h%d" % rng.randint(0, 9)]])
            return s

        def create():
            rank = rng.choice([1, 2, 2, 3])
            shape = [rng.choice([1, 2, 2, 3]) for _ in range(rank)]
            n = int(np.prod(shape))
            base = 100 * (len(shapes) + 1)
            names = rng.sample(["x", "y", "z", "w"], rank)
            axes = []
            for d in range(rank):
                labs = rng.sample(range(0, 9), shape[d])            # unsorted, unique
                axes.append([names[d], labs, spec()])
            ops.append(["create", shape, [base + k for k in range(n)], axes, spec()])
            shapes.append(shape); groups.append(len(groups))

        create()
        for _ in range(rng.randint(1, 8)):
            k = rng.randrange(len(shapes))
            sh = shapes[k]
            r = rng.random()
            if r < 0.08 and len(shapes) < 4:
                create()
            elif r < 0.25:
                ops.append(["copy", k]); shapes.append(list(sh)); groups.append(max(groups) + 1)
            elif r < 0.33 and len(sh) >= 1:
                perm = list(range(len(sh))); rng.shuffle(perm)
                ops.append(["transpose", k, perm]); shapes.append([sh[p] for p in perm]); groups.append(groups[k])
            elif r < 0.38 and len(sh) >= 1:
                ops.append(["squeeze", k]); shapes.append([s for s in sh if s != 1]); groups.append(groups[k])
            elif r < 0.43 and len(sh) >= 1:
                ops.append(["slice_all", k]); shapes.append(list(sh)); groups.append(groups[k])
            elif r < 0.49 and len(sh) >= 2:
                d = rng.randrange(len(sh))
                ops.append(["take_scalar", k, d, rng.randrange(sh[d])]); shapes.append(sh[:d] + sh[d + 1:]); groups.append(groups[k])
            elif r < 0.55 and len(sh) >= 1:
                d = rng.randrange(len(sh))
                ps = [rng.randrange(sh[d]) for _ in range(rng.randint(1, 3))]
                ops.append(["take_list", k, d, ps]); shapes.append(sh[:d] + [len(ps)] + sh[d + 1:]); groups.append(groups[k])
            elif r < 0.60:
                ops.append(["add", k, rng.randint(1, 5)]); shapes.append(list(sh)); groups.append(groups[k])
            elif r < 0.66 and len(sh) >= 1:
                ops.append(["sort_axis", k, rng.randrange(len(sh))]); shapes.append(list(sh)); groups.append(groups[k])
            else:
                n = int(np.prod(sh))
                choices = ["set_attr", "append_attr"]
                if n:
                    choices += ["set_val", "set_val"]
                if len(sh):
                    choices += ["set_label", "rename", "set_axis_attr", "append_axis_attr"]
                m = rng.choice(choices)
                d = rng.randrange(len(sh)) if len(sh) else 0
                if m == "set_val":
                    mm = ["set_val", rng.randrange(n), rng.randint(-99, -1)]
                elif m == "set_label":
                    mm = ["set_label", d, rng.randrange(sh[d]), rng.randint(20, 40)]
                elif m == "rename":
                    # a name no live array uses yet (duplicate dimension names make an array ill-formed: outside C15)
                    renames[0] += 1
                    mm = ["rename", d, "n%d" % renames[0]]
                elif m == "set_attr":
                    mm = ["set_attr", rng.choice(["units", "hist", "new"]), "V%d" % rng.randint(0, 9)]
                elif m == "append_attr":
                    mm = ["append_attr", rng.choice(["hist", "units"]), "i%d" % rng.randint(0, 9)]
                elif m == "set_axis_attr":
                    mm = ["set_axis_attr", d, rng.choice(["units", "hist", "new"]), "V%d" % rng.randint(0, 9)]
                else:
                    mm = ["append_axis_attr", d, rng.choice(["hist", "units"]), "i%d" % rng.randint(0, 9)]
                ops.append(["mut", k, mm])
        return {"op": "heap", "ops": ops, "_groups": groups, "seed": i}

    def gen_heapflat(self, rng, i):
        """create an array of rank 1-3, derive 0-3 arrays by transposes / newaxis / position slices / copy, flatten one"""
        rank = rng.choice([1, 2, 2, 2, 3, 3])
        shape = [rng.choice([1, 2, 2, 3, 3, 4]) for _ in range(rank)]
        if i % 37 == 5:
            shape[rng.randrange(rank)] = 0
        n = 1
        for x in shape:
            n *= x
        ops = [["create", shape, [rng.randint(-9, 9) for _ in range(n)],
                [["d%d" % d, [rng.randint(-5, 5) for _ in range(shape[d])], []] for d in range(rank)], []]]
        shapes = [shape]
        # LIMIT of the model: a new buffer made from a non-contiguous operand (a.T.copy(), a position slice of a.T) keeps the
        # operand's memory layout in NumPy (so its flatten() copies again); the model's fresh buffers are row-major.  copy / slice
        # are therefore generated for operands that are certainly contiguous only (plain[k]).
        plain = [True]
        for _ in range(rng.choice([0, 1, 1, 2, 2, 3])):
            k = rng.randrange(len(shapes))
            sh = shapes[k]
            r = len(sh)
            t = rng.choice(["swapaxes", "rollaxis", "T", "newaxis", "slice", "copy"])
            if t in ("slice", "copy") and not plain[k]:
                t = rng.choice(["swapaxes", "rollaxis", "newaxis"])
            plain.append(plain[k] and t in ("slice", "copy", "newaxis"))
            if t == "swapaxes":
                a, b = rng.randrange(r), rng.randrange(r)
                nsh = list(sh); nsh[a], nsh[b] = sh[b], sh[a]
                ops.append(["swapaxes", k, a, b])
            elif t == "rollaxis":
                d = rng.randrange(r)
                nsh = [sh[d]] + [x for j, x in enumerate(sh) if j != d]
                ops.append(["rollaxis", k, d])
            elif t == "T":
                if r > 2:
                    plain.pop()
                    continue
                nsh = list(reversed(sh))
                ops.append(["T", k])
            elif t == "newaxis":
                if r >= 3:
                    plain.pop()
                    continue
                pos = rng.randrange(r + 1)
                nsh = sh[:pos] + [1] + sh[pos:]
                ops.append(["newaxis", k, "n%d" % len(shapes), pos])
            elif t == "slice":
                # along the FIRST dimension only: the values of a position slice along a later dimension are a new buffer
                # laid out transposed (take_axis goes through swapaxes), a memory layout the model's fresh buffers do not carry
                d = 0
                a = rng.randrange(sh[d] + 1); b = rng.randrange(a, sh[d] + 1); st = rng.choice([1, 1, 2])
                nsh = list(sh); nsh[d] = len(range(a, b, st))
                ops.append(["slice", k, d, a, b, st])
            else:
                nsh = list(sh)
                ops.append(["copy", k])
            shapes.append(nsh)
        return {"op": "heapflat", "ops": ops, "k": rng.randrange(len(shapes)), "seed": i}

    def gen_heapx(self, rng, i):
        """histories over the extended operation set (Lib/HeapX.lean); the generator tracks shapes and (as far as it can:
        in-place label changes through an alias are not followed) labels; steps it gets wrong are refused on both sides"""
        base = self.gen_heap(rng, i)
        ops, shapes, groups, labs = [], [], [], []
        fresh = [0]

        def track(op):
            t = op[0]
            k = op[1] if t != "create" else None
            if t == "create":
                shapes.append(list(op[1])); labs.append([list(a[1]) for a in op[3]]); groups.append(max(groups + [-1]) + 1)
                return
            if t == "mut":
                m = op[2]
                if m[0] == "set_label":
                    labs[k][m[1]][m[2]] = m[3]
                return
            sh, lb = shapes[k], labs[k]
            g = groups[k]
            if t == "copy":
                nsh, nlb, g = list(sh), [list(x) for x in lb], max(groups) + 1
            elif t == "transpose":
                nsh, nlb = [sh[p] for p in op[2]], [list(lb[p]) for p in op[2]]
            elif t == "squeeze":
                nsh, nlb = [x for x in sh if x != 1], [list(l) for x, l in zip(sh, lb) if x != 1]
            elif t in ("slice_all", "add", "add_arr", "ds_var"):
                nsh, nlb = list(sh), [list(x) for x in lb]
                if t == "add_arr":
                    g = max(groups) + 1
            elif t in ("take_scalar", "sum"):
                d = op[2]
                nsh, nlb = sh[:d] + sh[d + 1:], [list(x) for x in lb[:d] + lb[d + 1:]]
            elif t == "take_list":
                d, ps = op[2], op[3]
                nsh, nlb = sh[:d] + [len(ps)] + sh[d + 1:], [list(x) for x in lb]
                nlb[d] = [lb[d][q] for q in ps]
            elif t == "sort_axis":
                nsh, nlb = list(sh), [list(x) for x in lb]
                nlb[op[2]] = sorted(lb[op[2]])
            elif t == "swapaxes":
                perm = list(range(len(sh))); perm[op[2]], perm[op[3]] = perm[op[3]], perm[op[2]]
                nsh, nlb = [sh[p] for p in perm], [list(lb[p]) for p in perm]
            elif t == "rollaxis":
                perm = [op[2]] + [q for q in range(len(sh)) if q != op[2]]
                nsh, nlb = [sh[p] for p in perm], [list(lb[p]) for p in perm]
            elif t == "T":
                nsh, nlb = list(reversed(sh)), [list(x) for x in reversed(lb)]
            elif t == "newaxis":
                nsh, nlb = sh[:op[3]] + [1] + sh[op[3]:], [list(x) for x in lb[:op[3]]] + [[NONE_LABEL]] + [list(x) for x in lb[op[3]:]]
            elif t == "slice":
                d = op[2]
                ps = list(range(sh[d]))[slice(op[3], op[4], op[5])]
                nsh, nlb = sh[:d] + [len(ps)] + sh[d + 1:], [list(x) for x in lb]
                nlb[d] = [lb[d][q] for q in ps]
            elif t == "reindex":
                d = op[2]
                nsh, nlb = sh[:d] + [len(op[3])] + sh[d + 1:], [list(x) for x in lb]
                nlb[d] = list(op[3])
            else:
                raise ValueError(t)
            shapes.append(nsh); labs.append(nlb); groups.append(g)

        def extended():
            k = rng.randrange(len(shapes))
            sh, lb = shapes[k], labs[k]
            rank = len(sh)
            t = rng.choice(["swapaxes", "rollaxis", "T", "T", "newaxis", "newaxis", "slice", "slice", "sum", "add_arr", "add_arr",
                            "reindex", "reindex", "ds_var", "ds_var"])
            if t == "ds_var" and rank >= 1:
                return ["ds_var", k]
            if t == "swapaxes" and rank >= 1:
                return ["swapaxes", k, rng.randrange(rank), rng.randrange(rank)]
            if t == "rollaxis" and rank >= 1:
                return ["rollaxis", k, rng.randrange(rank)]
            if t == "T" and rank <= 2:
                return ["T", k]
            if t == "newaxis" and rank <= 3:
                fresh[0] += 1
                return ["newaxis", k, "m%d" % fresh[0], rng.randint(0, rank)]
            if t == "slice" and rank >= 1:
                d = rng.randrange(rank)
                a = rng.randint(0, sh[d]); b = rng.randint(a, sh[d] + 1)
                return ["slice", k, d, a, b, rng.choice([1, 1, 2])]
            if t == "sum" and rank >= 2:
                return ["sum", k, rng.randrange(rank)]
            if t == "add_arr" and rank >= 1:
                cands = [j for j in range(len(shapes)) if shapes[j] == sh and labs[j] == lb]
                return ["add_arr", k, rng.choice(cands)]
            if t == "reindex" and rank >= 1:
                d = rng.randrange(rank)
                if len(set(lb[d])) == len(lb[d]) and lb[d] and NONE_LABEL not in lb[d]:
                    return ["reindex", k, d, [rng.choice(lb[d]) for _ in range(rng.randint(1, 3))]]
            return None

        bmap = []                                   # variable of the base history -> variable here
        for op in base["ops"]:
            if op[0] != "create":
                op = [op[0], bmap[op[1]]] + list(op[2:])
            ops.append(op); track(op)
            if op[0] != "mut":
                bmap.append(len(shapes) - 1)
            while rng.random() < 0.55 and len(shapes) < 9:
                x = extended()
                if x is not None:
                    ops.append(x); track(x)
        return {"op": "heapx", "ops": ops, "_groups": groups, "seed": i}

    def gen_ds(self, rng, i):
        """a Dataset built from 1-3 arrays over shared dimensions, then non-in-place Dataset calls"""
        dims = rng.sample(["x", "y", "z"], rng.randint(1, 3))
        labels = {d: rng.sample(range(0, 9), rng.randint(2, 3)) for d in dims}
        vars_ = []
        for k in range(rng.randint(1, 3)):
            vd = rng.sample(dims, rng.randint(1, len(dims)))
            vars_.append(["v%d" % k, vd])
        used = [d for d in dims if any(d in vd for _, vd in vars_)]       # only these are dimensions of the Dataset
        calls = []
        for _ in range(rng.randint(1, 4)):
            d = rng.choice(used)
            n = len(labels[d])
            key = rng.choice(vars_)[0]
            calls.append(rng.choice([
                ["set_axis", d, [rng.randint(10, 30) + 100 * j for j in range(n)]],
                ["rename_axes", d, rng.choice(["p", "q"])],
                ["rename_keys", vars_[0][0], "w"],
                ["take", d, rng.randrange(n)],
                ["mean", d], ["sort_axis", d], ["copy"], ["to_array"],
                ["reindex_axis", d, [labels[d][0], 77]],
                ["take_axis", d, [0]],
                ["getitem", vars_[0][0]],
                ["add"], ["interp_axis", d, [labels[d][0]]],
                # forms added for the operand audit: serialisation, comparison, unary / scalar arithmetic, the other
                # reductions, label indexing, alignment / stacking of Datasets, (re)insertion of a variable, and the
                # independence of Dataset.copy() per component
                ["write_nc"], ["write_nc_append", key], ["to_dict"], ["eq"], ["neg"], ["mul_scalar"], ["sub_array", key],
                ["reduce", rng.choice(["sum", "std", "var", "median"]), d], ["take_label", d, labels[d][rng.randrange(n)]],
                # the engine behind take_axis / sort_axis / reindex_axis / interp_axis called directly, with and without keepattrs
                ["reduce_axis", rng.choice(["mean", "sum", "max"]), d, rng.choice([None, False, True])],
                ["getitem_dim", d], ["reindex_like", d, key], ["interp_like", d, key],
                ["align_ds", d, rng.choice([False, True]), rng.choice(["outer", "inner"])],
                ["stack_ds", rng.choice([False, True])], ["concatenate_ds", d], ["setitem_var", key], ["ctor_from_ds"],
                ["copy_mutate", rng.choice(["labels", "axis_name", "axis_attrs", "attrs_key", "values", "var_attrs", "attrs_mutable"]), d, key],
                ["copy_mutate", rng.choice(["labels", "axis_name", "axis_attrs", "attrs_key"]), d, key]]))
        return {"op": "ds", "dims": dims, "labels": labels, "vars": vars_, "calls": calls, "seed": i}

    def run_ds(self, c):
        from collections import OrderedDict
        arrays = OrderedDict()
        for name, vd in c["vars"]:
            shape = [len(c["labels"][d]) for d in vd]
            a = DimArray(np.arange(int(np.prod(shape)), dtype=float).reshape(shape) + 10 * len(arrays),
                         axes=[Axis(np.array(c["labels"][d], dtype=np.int64), d) for d in vd])
            a.attrs["hist"] = ["h0"]
            for ax in a.axes:
                ax.attrs["note"] = ["n0"]
            arrays[name] = a
        before_arrays = {k: snap(v) for k, v in arrays.items()}
        ds = Dataset(arrays)
        ds.attrs["title"] = ["T"]
        viol, raised, done, shared = [], {}, {}, {}
        for k, v in arrays.items():
            if snap(v) != before_arrays[k]:
                viol.append({"func": "Dataset(...)", "operand": k, "changed": what_changed(before_arrays[k], snap(v))})
        ncalls = 0
        for call in c["calls"]:
            b_ds, b_arr = snap(ds), {k: snap(v) for k, v in arrays.items()}
            t = call[0]
            extra = {}
            try:
                if t == "set_axis":
                    ds.set_axis(np.array(call[2], dtype=np.int64), axis=call[1], inplace=False)
                elif t == "rename_axes":
                    ds.rename_axes({call[1]: call[2]}, inplace=False)
                elif t == "rename_keys":
                    ds.rename_keys({call[1]: call[2]}, inplace=False)
                elif t == "take":
                    ds.take(indices=call[2], axis=call[1], indexing="position")
                elif t == "take_label":
                    ds.take(indices=call[2], axis=call[1])
                elif t == "mean":
                    ds.mean(axis=call[1])
                elif t == "reduce":
                    getattr(ds, call[1])(axis=call[2])
                elif t == "reduce_axis":
                    kw = {} if call[3] is None else {"keepattrs": call[3]}
                    ds.reduce_axis(getattr(np, call[1]), axis=call[2], **kw)
                elif t == "sort_axis":
                    ds.sort_axis(axis=call[1])
                elif t == "copy":
                    cp = ds.copy()
                    cp.set_axis(np.arange(len(cp.axes[0].values)) + 500, axis=0, inplace=True)
                elif t == "copy_mutate":
                    # what is changed through the copy of a Dataset must not show in the Dataset it was copied from
                    what, d, key = call[1], call[2], call[3]
                    d = d if d in ds.dims else ds.dims[0]
                    cp = ds.copy()
                    v0 = float(dict.__getitem__(ds, key).values.flat[0])
                    if what == "labels":
                        cp.axes[d].values[0] = 99
                    elif what == "axis_name":
                        cp.axes[d].name = d + "_m"
                    elif what == "axis_attrs":
                        cp.axes[d].attrs["note"].append("copy")
                        cp.axes[d].attrs["touched"] = True
                    elif what == "attrs_key":
                        cp.attrs["new"] = 1
                        cp.attrs["title"] = "replaced"
                    # TODO(defect): Dataset.copy() is shallow below the axes: the copy's variables share their value
                    # buffers and their attrs dicts with the original's (and with the arrays the Dataset was built
                    # from), and mutable values of the Dataset-level attrs are shared as well. The three mutations below
                    # are executed and what shows through is RECORDED (features "ds_copy_shares:*") but not judged until
                    # it is decided whether "copies are independent" covers Dataset.copy().
                    elif what == "values":
                        dict.__getitem__(cp, key).values.flat[0] = -777.0
                    elif what == "var_attrs":
                        dict.__getitem__(cp, key).attrs["new"] = 1
                    elif what == "attrs_mutable":
                        cp.attrs["title"].append("copy")
                    if what in ("values", "var_attrs", "attrs_mutable"):
                        if snap(ds) != b_ds:
                            shared["ds_copy_shares:" + what] = 1
                            # undo, so that the following calls see the Dataset as it was
                            if what == "values":
                                dict.__getitem__(ds, key).values.flat[0] = v0
                            elif what == "var_attrs":
                                dict.__getitem__(ds, key).attrs.pop("new", None)
                            else:
                                ds.attrs["title"].remove("copy")
                        else:
                            shared["ds_copy_independent:" + what] = 1
                elif t == "to_array":
                    ds.to_array(keys=list(ds.keys()))
                elif t == "reindex_axis":
                    ds.reindex_axis(np.array(call[2], dtype=np.int64), axis=call[1])
                elif t == "take_axis":
                    ds.take_axis(call[2], axis=call[1], indexing="position")
                elif t == "getitem":
                    ds[call[1]] + 1
                elif t == "getitem_dim":
                    ds[call[1]]                      # a dimension name: the axis as a variable
                elif t == "add":
                    ds + ds
                elif t == "neg":
                    -ds
                elif t == "mul_scalar":
                    2 * ds
                    ds * 2
                elif t == "sub_array":
                    ds - ds
                    ds * ds
                    ds / 2
                elif t == "eq":
                    ds == ds
                    ds == ds.copy()
                elif t == "to_dict":
                    ds.to_dict()
                    ds.to_odict()
                elif t == "interp_axis":
                    ds.interp_axis(np.array(call[2], dtype=float), axis=call[1])
                elif t in ("reindex_like", "interp_like", "align_ds"):
                    d = call[1]
                    labs = [c["labels"][d][-1], 55, c["labels"][d][0]]
                    o = DimArray(np.arange(3.0), axes=[Axis(np.array(labs, dtype=np.int64), d)])
                    o.attrs["hist"] = ["o"]
                    extra["other"] = (o, snap(o))
                    if t == "reindex_like":
                        ds.reindex_like(o)
                    elif t == "interp_like":
                        ds.interp_like(o)
                    else:
                        da.align([ds, o], sort=call[2], join=call[3])
                elif t in ("stack_ds", "concatenate_ds"):
                    ds2 = Dataset(OrderedDict((k, v + 1) for k, v in arrays.items()))
                    extra["other"] = (ds2, snap(ds2))
                    if t == "stack_ds":
                        da.stack_ds([ds, ds2], axis="s", keys=["p", "q"], align=call[1])
                    else:
                        common = [d for d in ds.dims if all(d in v.dims for v in arrays.values())]
                        da.concatenate_ds([ds, ds2], axis=call[1] if call[1] in common or not common else common[0])
                elif t == "setitem_var":
                    # in place for the Dataset; the array stored must stay as it was (and so must the Dataset's other parts)
                    ds2 = ds.copy()
                    src = arrays[call[1]]
                    ds2["again"] = src
                    ds2[call[1]] = src
                elif t == "ctor_from_ds":
                    Dataset(ds)
                    Dataset(**{k: arrays[k] for k in arrays})
                elif t in ("write_nc", "write_nc_append"):
                    os.makedirs(NCDIR, exist_ok=True)
                    path = os.path.join(NCDIR, "c15ds_%d_%d.nc" % (os.getpid(), c["seed"]))
                    try:
                        ds.write_nc(path, mode="w")
                        if t == "write_nc_append":
                            arrays[call[1]].write_nc(path, "again", mode="a")
                    finally:
                        if os.path.exists(path):
                            os.remove(path)
                done["Dataset." + t] = 1
            except Exception as e:
                raised["Dataset." + t] = type(e).__name__
            ncalls += 1
            if snap(ds) != b_ds:
                viol.append({"func": "Dataset." + t + (":" + call[1] if t == "copy_mutate" else ""), "operand": "dataset", "changed": what_changed(b_ds, snap(ds))})
            for k, v in arrays.items():
                if snap(v) != b_arr[k]:
                    viol.append({"func": "Dataset." + t, "operand": "source array " + k, "changed": what_changed(b_arr[k], snap(v))})
            for k, (obj, s0) in extra.items():
                if snap(obj) != s0:
                    viol.append({"func": "Dataset." + t, "operand": k, "changed": what_changed(s0, snap(obj))})
        return {"ok": {"violations": viol, "calls": ncalls, "funcs": done, "raised": raised, "notes": shared, "impl_error": None}}

    def run_derived(self, c):
        ldt = np.int64 if c.get("lkind", "i") == "i" else np.float64
        a = DimArray(np.arange(int(np.prod(c["shape"])), dtype=float).reshape(c["shape"]),
                     axes=[Axis(np.array(l, dtype=ldt), n) for l, n in zip(c["labels"], c["names"])])
        a.attrs["hist"] = ["h0"]
        if c.get("axis_attrs"):
            for ax in a.axes:
                ax.attrs["note"] = ["n0"]
        for k in c.get("nan", []):
            a.values.flat[k % a.size] = np.nan
        how = c["how"]
        if how == "boolnd":
            b = a[a > 1]
        elif how == "flatten":
            b = a.flatten()
        elif how == "flatten_two":
            b = a.flatten((c["names"][1], c["names"][0]))
        elif how == "newaxis":
            b = a.newaxis("t", pos=1)
        elif how == "stack":
            b = da.stack([a, a + 1], axis="s", keys=["p", "q"])
        elif how == "take_list":
            b = a.take([c["labels"][0][0]], axis=0)
        elif how == "plain":
            b = a
        else:
            b = a.transpose(*reversed(a.dims))
        # the second operand: along the last dimension of the source; with "olabels" its labels only partly overlap the
        # source's (and are unsorted), so that aligning has to reindex
        olabels = c.get("olabels") or c["labels"][-1]
        other = DimArray(np.arange(len(olabels), dtype=float), axes=[Axis(np.array(olabels, dtype=ldt), c["names"][-1])])
        other.attrs["hist"] = ["o0"]
        last = c["names"][-1]
        viol, n, raised, done = [], 0, {}, {}

        def check_extra(call, extra):
            for k2, (obj, s0) in extra.items():
                if snap(obj) != s0:
                    viol.append({"func": call, "operand": k2, "changed": what_changed(s0, snap(obj))})

        for call in c["calls"]:
            before = {"operand": snap(b), "source": snap(a), "other": snap(other)}
            try:
                if call == "add":
                    b + other
                elif call == "radd":
                    other + b
                elif call == "add_self":
                    b + b
                elif call in ("sub", "mul", "div", "pow_other", "floordiv"):
                    {"sub": lambda: b - other, "mul": lambda: other * b, "div": lambda: b / other, "pow_other": lambda: b ** other,
                     "floordiv": lambda: b // other}[call]()
                elif call == "scalar_ops":
                    -b; 2 * b; b * 2; 1 - b; b / 2; b ** 2; 2 ** b; b // 2
                elif call == "ndarray_ops":
                    v = np.ones(b.shape)
                    v0 = v.copy()
                    b + v; b - v; b == v
                    if not np.array_equal(v, v0):
                        viol.append({"func": call, "operand": "ndarray", "changed": "values"})
                elif call == "reshape_same":
                    b.reshape(*b.dims)
                elif call == "reshape_t":
                    b.reshape(*reversed(b.dims))
                elif call == "mean":
                    b.mean()
                elif call == "sum_axis0":
                    b.sum(axis=0)
                elif call.startswith("red_"):
                    # the reductions handed out by descriptors, default skipna, by name / position / none / tuple of axes
                    _, fn, axs = call.split("_")
                    ax = {"none": None, "0": 0, "last": b.ndim - 1, "name": b.dims[-1], "neg": -1, "tuple": tuple(b.dims[:2])}.get(axs)
                    getattr(b, fn)(axis=ax) if axs != "default" else getattr(b, fn)()
                elif call == "transpose":
                    b.transpose(*reversed(b.dims))
                elif call == "T":
                    b.T
                elif call == "copy":
                    b.copy()
                elif call == "sort_axis":
                    b.sort_axis(axis=0)
                elif call == "sort_axis_last":
                    b.sort_axis(axis=b.dims[-1])
                elif call == "take0":
                    b.take(0, axis=0, indexing="position")
                elif call == "eq":
                    b == b
                elif call == "ne":
                    b != b
                    b != 2
                elif call == "eq_forms":
                    # every branch of __eq__ / __ne__: scalar, ndarray, equal axes, different axes (-> False)
                    b == 2; b == b.values; b == b.copy(); b == other; b != other; b != b.values
                elif call == "cmp":
                    b < b.copy(); b <= b.values; b >= 1; 1 > b; (b > 1) & (b < 4); (b > 1) | (b < 0); ~(b > 1)
                elif call == "align":
                    # (was da.align(b, other): refused, a bare DimArray is not a list of arrays)
                    da.align([b, other])
                elif call.startswith("align_") and call != "align_dims":
                    # aligning with and without sorting, both joins, one axis only, a tuple of arrays, three inputs of which
                    # one is alone in having its dimensions (the case named in the property's rationale)
                    _, join, srt, form = call.split("_")
                    kw = {"join": join, "sort": srt == "sort"}
                    if form == "list":
                        da.align([b, other], **kw)
                    elif form == "rev":
                        da.align((other, b), **kw)
                    elif form == "axis":
                        da.align([b, other], axis=last, **kw)
                    elif form == "three":
                        da.align([b, other, a], **kw)
                    elif form == "scalar":
                        da.align([b, 2.0, other], **kw)
                    elif form == "strict":
                        da.align([a, a.take([0, -1] if a.shape[0] > 1 else [0], axis=0, indexing="position")], strict=True, **kw)
                elif call == "align_dims":
                    da.align_dims(b, other)
                elif call in ("broadcast_arrays", "add_lastdim"):
                    # second operand along the operand's own last dimension (a grouped / tuple-labelled one for flatten / boolnd)
                    ob = DimArray(np.arange(b.shape[-1], dtype=float), axes=[b.axes[-1].copy()])
                    extra = {"second": (ob, snap(ob))}
                    if call == "add_lastdim":
                        b + ob; ob - b; b * ob
                    else:
                        da.broadcast_arrays(b, ob)
                    check_extra(call, extra)
                elif call == "broadcast":
                    other.broadcast(b)
                    other.broadcast(b.axes)
                elif call == "stack_with":
                    da.stack([b, b], axis="k", keys=[0, 1])
                elif call == "stack_align":
                    da.stack([a, a.reindex_axis(np.array(olabels, dtype=ldt), axis=last)], axis="k", keys=["u", "v"], align=True)
                    da.stack({"u": other, "v": other * 2}, axis="k")
                elif call == "concatenate":
                    da.concatenate([b, b], axis=0)
                    da.concatenate((b, b + 1), axis=b.dims[-1])
                elif call == "concatenate_align":
                    o2 = a.reindex_axis(np.array(olabels, dtype=ldt), axis=last)
                    extra = {"second": (o2, snap(o2))}
                    da.concatenate([a, o2], axis=0, align=True, sort=True)
                    check_extra(call, extra)
                elif call == "reindex_axis":
                    b.reindex_axis(np.array(olabels, dtype=ldt), axis=last)
                    b.reindex_axis(other.axes[0])
                elif call == "reindex_method":
                    b.reindex_axis(np.array(olabels, dtype=ldt) + 0, axis=last, method=c.get("method") or "left")
                elif call == "reindex_like":
                    b.reindex_like(other)
                    b.reindex_like(other.axes)
                elif call == "interp_like":
                    b.interp_like(other)
                elif call == "to_dataset":
                    Dataset({"v": b})
                elif call == "to_dataset_method":
                    b.to_dataset(axis=0)
                elif call == "unflatten":
                    b.unflatten()
                elif call == "group":
                    b.group(b.dims[:2])
                    b.flatten(b.dims[:2], insert=0)
                elif call == "fillna":
                    b.fillna(0.)
                elif call == "dropna":
                    b.dropna(axis=0)
                elif call == "compress_axis":
                    m = np.arange(b.shape[0]) > 0
                    b.compress_axis(m, axis=0)
                    b.take_axis([0], axis=0, indexing="position")
                elif call == "percentile":
                    from dimarray.lib.stats import percentile
                    percentile(b, [10, 50], axis=b.ndim - 1)
                elif call == "quantile":
                    from dimarray.lib.stats import quantile
                    quantile(b, [0.1, 0.5], axis=0)
                elif call == "quantile_last":
                    from dimarray.lib.stats import quantile
                    quantile(b, [0.1, 0.5], axis=b.ndim - 1)
                elif call == "median":
                    b.median(axis=0)
                elif call == "cumsum":
                    b.cumsum(axis=b.ndim - 1)
                elif call == "cumprod":
                    b.cumprod(axis=0)
                elif call == "diff":
                    b.diff(axis=0)
                elif call == "diff_last":
                    b.diff(axis=b.dims[-1], n=2) if b.shape[-1] > 2 else b.diff(axis=b.dims[-1])
                elif call == "argmax":
                    b.argmax(axis=0)
                elif call == "argmin_all":
                    b.argmin()
                elif call == "interp":
                    b.interp_axis(np.array([1.5, 2.5]), axis=b.ndim - 1)
                elif call == "interp_first":
                    b.interp_axis(np.array([1.5, 2.5]), axis=0)
                elif call == "apply":
                    b.apply(np.abs)
                elif call == "squeeze":
                    b.squeeze()
                    b.newaxis("r").repeat(2, axis="r")
                    b.swapaxes(0, -1)
                    b.rollaxis(b.dims[-1])
                elif call == "set_axis":
                    b.set_axis(np.arange(b.shape[0]) + 50, axis=0, inplace=False)
                    b.set_axis(name="renamed", axis=0, inplace=False)
                elif call == "index_spellings":
                    l0 = b.axes[-1].values[0]
                    b.ix[0]; b.isel(**{b.dims[-1]: 0}); b[{b.dims[-1]: l0}]; b.sel(**{b.dims[-1]: l0}); b.take({b.dims[-1]: [l0, l0]})
                    b.take_axis([l0], axis=b.dims[-1])
                elif call == "index_array":
                    # a DimArray / an Axes object as the index
                    ix = DimArray(np.array([0, 0]), axes=[Axis(np.array([7, 8]), "k")])
                    extra = {"index": (ix, snap(ix))}
                    b.take(ix, axis=0, indexing="position")
                    b.take(b.axes)
                    check_extra(call, extra)
                elif call == "put_label":
                    # put(inplace=False) in label / position / dict / axis= forms, scalar and array right-hand sides
                    l0 = b.axes[-1].values[0]
                    b.put(l0, 0.0, axis=b.dims[-1], inplace=False)
                    b.put({b.dims[-1]: l0}, -1.0, inplace=False)
                elif call == "put_pos":
                    b.put(0, 0.0, axis=0, indexing="position", inplace=False)
                    b.put(0, np.zeros(b.shape[1:]), axis=0, indexing="position", inplace=False)
                elif call == "put_dimarray":
                    rhs = b.take(0, axis=0, indexing="position") * 0 if b.ndim > 1 else DimArray(np.float64(0.0))
                    extra = {"rhs": (rhs, snap(rhs))} if isinstance(rhs, DimArray) else {}
                    b.put(0, rhs, axis=0, indexing="position", inplace=False)
                    b.put(0, 1, axis=0, indexing="position", inplace=False, cast=True)
                    check_extra(call, extra)
                elif call == "setitem_dimarray":
                    # in place for the receiver (a copy): the DimArray assigned must stay as it was
                    g = b.copy()
                    rhs = b * 0
                    extra = {"rhs": (rhs, snap(rhs))}
                    g[:] = rhs
                    g.ix[0] = rhs.ix[0]
                    check_extra(call, extra)
                elif call == "to_json":
                    b.to_json()
                    b.to_jsondict()
                elif call == "json_roundtrip":
                    DimArray.from_json(b.to_json())
                elif call == "to_misc":
                    b.to_list(); b.to_MaskedArray(); np.asarray(b); float(b.sum()); repr(b); str(b.axes)
                elif call in ("write_nc", "write_nc_ds", "write_nc_append"):
                    os.makedirs(NCDIR, exist_ok=True)
                    path = os.path.join(NCDIR, "c15_%d_%d.nc" % (os.getpid(), c.get("seed", 0)))
                    try:
                        if call == "write_nc":
                            b.write_nc(path, "v", mode="w")
                        elif call == "write_nc_ds":
                            Dataset({"v": b, "o": other}).write_nc(path)
                        else:
                            b.write_nc(path, "v", mode="w")
                            b.write_nc(path, "v2", mode="a")
                            a.write_nc(path, "src", mode="a+")
                    finally:
                        if os.path.exists(path):
                            os.remove(path)
                elif call.startswith("skipna_"):
                    # reductions that skip missing values (masked-array fallback for any/all/ptp, nan-functions otherwise)
                    _, fn, axs = call.split("_")
                    getattr(b, fn)(axis=None if axs == "none" else (0 if axs == "0" else b.ndim - 1), skipna=True)
                elif call == "copy_mutate":
                    # copy() is deep: whatever is changed through the copy (values, labels - of the level axes of a grouped
                    # axis too -, names, metadata, mutable metadata values) never shows in the original - and vice versa:
                    # h is a copy of g taken before g is changed, so g -> h is the direction "original does not show in the copy"
                    g = b.copy()
                    h = g.copy()
                    h0 = snap(h)
                    if g.size:
                        g.values.flat[0] = -777.0
                    g.attrs["hist"].append("copy") if isinstance(g.attrs.get("hist"), list) else None
                    g.attrs["new"] = 1
                    for ax in g.axes:
                        subs = list(getattr(ax, "axes", [])) or [ax]
                        for sub in subs:
                            if sub.size and sub.values.dtype.kind in "iuf":
                                sub.values[0] = 99
                            elif sub.size and not getattr(ax, "axes", None):
                                try:
                                    sub.values[0] = sub.values[-1] if sub.size > 1 else None
                                except Exception:
                                    pass
                            sub.attrs["touched"] = True
                            if isinstance(sub.attrs.get("note"), list):
                                sub.attrs["note"].append("copy")
                            try:
                                sub.name = sub.name + "_m"
                            except Exception:
                                pass
                    if snap(h) != h0:
                        viol.append({"func": "copy_mutate", "operand": "copy (original changed afterwards)", "changed": what_changed(h0, snap(h))})
                elif call == "deepcopy_mutate":
                    g = copy.deepcopy(b)
                    if g.size:
                        g.values.flat[0] = -777.0
                    g.attrs["hist"].append("copy") if isinstance(g.attrs.get("hist"), list) else None
                    for ax in g.axes:
                        ax.attrs["touched"] = True
                        if ax.size and ax.values.dtype.kind in "iuf":
                            ax.values[0] = 99
                elif call == "setna_masks":
                    m1, m2 = (b > 1), (b > 3)
                    extra = {"mask1": (m1, snap(m1)), "mask2": (m2, snap(m2))}
                    b.setna([m1, m2, 0.0])
                    check_extra(call, extra)
                elif call == "put_mask":
                    m1 = np.asarray((b > 1).values)
                    s0 = m1.copy()
                    b.put(m1, 0.0, inplace=False)
                    if not np.array_equal(m1, s0):
                        viol.append({"func": call, "operand": "mask", "changed": "values"})
                elif call == "boolnd_dimarray_mask":
                    m1 = b > 1
                    extra = {"mask": (m1, snap(m1))}
                    b[m1]
                    b.compress(m1)
                    b.put(m1, 0.0, inplace=False)
                    check_extra(call, extra)
                else:
                    raise KeyError("unknown derived call " + call)
                done["derived:" + how + ":" + call] = 1
            except KeyError as e:
                if "unknown derived call" in str(e):
                    raise
                raised["derived:" + how + ":" + call] = type(e).__name__
            except Exception as e:
                # a refused call (visible in the evidence: features "raised:*"); the operands must be unchanged all the same
                raised["derived:" + how + ":" + call] = type(e).__name__
            n += 1
            for k, x in (("operand", b), ("source", a), ("other", other)):
                if snap(x) != before[k]:
                    viol.append({"func": call, "operand": k, "changed": what_changed(before[k], snap(x))})
        return {"ok": {"violations": viol, "calls": n, "funcs": done, "raised": raised, "impl_error": None}}

    def sub(self, pid):
        if not hasattr(self, "_subs"):
            self._subs = {}
        if pid not in self._subs:
            self._subs[pid] = importlib.import_module("props." + pid.lower()).PROP
        return self._subs[pid]

    def gen(self, rng, tier):
        nheap = 500 if tier == "quick" else 12000
        per = 60 if tier == "quick" else 1500
        for i in range(nheap):
            yield self.gen_heap(rng, i)
        if HEAPX:
            # a stream of its own (derived from VERIF_SEED), so that the cases of the older strata stay what they were
            r3 = __import__("random").Random(7919 + int(os.environ.get("VERIF_SEED", "0")))
            for i in range(400 if tier == "quick" else 8000):
                yield self.gen_heapx(r3, i)
            r4 = __import__("random").Random(104729 + int(os.environ.get("VERIF_SEED", "0")))
            for i in range(300 if tier == "quick" else 6000):
                yield self.gen_heapflat(r4, i)
        for i in range(250 if tier == "quick" else 5000):
            c = self.gen_ds(rng, i)
            if i < 24:
                # systematic: the engine behind take_axis / sort_axis / ... called directly, with every keepattrs setting, on a
                # Dataset holding a variable that lacks the reduced dimension
                dims = ["x", "y"]
                c = {"op": "ds", "dims": dims, "labels": {"x": [3, 1, 2], "y": [0, 5]}, "seed": i,
                     "vars": [["v0", ["x", "y"]], ["v1", [dims[i % 2]]], ["v2", [dims[(i + 1) % 2]]]],
                     "calls": [["reduce_axis", ["mean", "sum", "max"][i % 3], dims[(i // 2) % 2], [None, False, True][(i // 4) % 3]]]}
            yield c
        for i in range(450 if tier == "quick" else 9000):
            # operands that are themselves results of library operations (N-d boolean read, flatten, newaxis, stack ...)
            rank = rng.choice([2, 2, 3])
            shape = [rng.choice([2, 3]) for _ in range(rank)]
            names = rng.sample(["x0", "x1", "y", "z"], rank)
            labels = [rng.sample(range(0, 9), n) for n in shape]
            # labels of the second operand: some of the source's last axis, in another order, plus a label it does not have
            ol = rng.sample(labels[-1], rng.randint(1, len(labels[-1]))) + [rng.choice([x for x in range(10, 14)])]
            rng.shuffle(ol)
            yield {"op": "derived", "shape": shape, "names": names, "labels": labels,
                   "lkind": rng.choice(["i", "f"]),
                   "how": rng.choice(["boolnd", "boolnd", "flatten", "flatten_two", "newaxis", "stack", "take_list", "transpose", "plain"]),
                   "calls": [rng.choice(DERIVED_CALLS) for _ in range(rng.randint(1, 3))],
                   "olabels": ol if rng.random() < 0.7 else None, "axis_attrs": rng.random() < 0.6,
                   "method": rng.choice(["left", "right"]),
                   "nan": [rng.randrange(0, 27) for _ in range(rng.choice([0, 1, 2, 3]))], "seed": i}
        import random as _r
        for pid in SWEEP:
            sub = self.sub(pid)
            r2 = _r.Random(rng.randint(0, 2 ** 31))
            k = 0
            for c in sub.gen(r2, "quick" if tier == "quick" else "thorough"):
                yield {"op": "sweep", "plugin": pid, "case": c}
                k += 1
                if k >= per:
                    break

    # ---------------------------------------------------------------- implementation side
    def impl(self, c):
        with warnings.catch_warnings():
            warnings.simplefilter("ignore")
            if c["op"] == "heap":
                return {"ok": {"steps": run_heap(c["ops"])}}
            if c["op"] == "heapx":
                return {"ok": {"steps": run_heap(c["ops"], share=True)}}
            if c["op"] == "heapflat":
                return {"ok": {"flat": run_heapflat(c["ops"], c["k"])}}
            if c["op"] == "ds":
                return self.run_ds(c)
            if c["op"] == "derived":
                return self.run_derived(c)
            return self.sweep(c)

    def sweep(self, c):
        sub = self.sub(c["plugin"])
        case = copy.deepcopy(c["case"])
        mon = Monitor()
        orig_build = core.build_array

        def build(*a, **kw):
            # arrays handed to the library get a mutable metadata value and a live sibling sharing its Axis objects
            Monitor.tl.active = False
            try:
                arr = orig_build(*a, **kw)
                if isinstance(arr, DimArray):
                    arr.attrs.setdefault("hist", ["h0"])
                    for ax in arr.axes:
                        ax.attrs.setdefault("note", ["n0"])
                    if arr.ndim >= 1:
                        try:
                            mon.siblings[id(arr)] = arr.transpose()
                            mon.keep = getattr(mon, "keep", []) + [arr]
                        except Exception:
                            pass
                return arr
            finally:
                Monitor.tl.active = True
        err = None
        with mon:
            core.build_array = build
            try:
                mon.activate(True)
                try:
                    sub.impl(case)
                except Exception as e:
                    err = "%s: %s" % (type(e).__name__, e)
            finally:
                mon.activate(False)
                core.build_array = orig_build
        return {"ok": {"violations": mon.violations, "calls": mon.calls, "funcs": mon.per_func, "raised": mon.raised, "impl_error": err}}

    def request(self, c):
        if c["op"] == "heap":
            return {"op": "heap_history", "ops": c["ops"]}
        if c["op"] == "heapx":
            return {"op": "heapx_history", "ops": c["ops"]}
        if c["op"] == "heapflat":
            return {"op": "heapflat", "ops": c["ops"], "k": c["k"]}
        return {"op": "union", "a": {"name": "x", "kind": "i", "labels": []}, "b": {"name": "x", "kind": "i", "labels": []}, "join": "outer"}

    def judge(self, c, io, ans):
        if "err" in io:
            return {"kind": "P", "differs": ["outcome:" + io["err"]], "msg": io.get("msg")}
        if c["op"] in ("sweep", "ds", "derived"):
            v = io["ok"]["violations"]
            if not v:
                return None
            return {"kind": "P", "differs": sorted(set("operand_modified:%s:%s" % (x["func"], x["changed"]) for x in v)), "msg": None,
                    "detail": v[:5]}
        if c["op"] == "heapflat":
            lib, lean = io["ok"]["flat"], ans.get("flat", "missing")
            if lib is not None and not lib["_operand_unchanged"]:
                return {"kind": "P", "differs": ["flatten:operand_changed"], "msg": None}
            if lib is not None and lib["_contig"] and lib["values"] and not lib["shares"]:
                # flatten_shares_iff_contiguous read on the implementation: a contiguous operand is viewed, not copied
                return {"kind": "P", "differs": ["flatten:contiguous_operand_copied"], "msg": None}
            if lib is not None and not lib["_contig"] and lib["shares"]:
                return {"kind": "P", "differs": ["flatten:non_contiguous_operand_shared"], "msg": None}
            pub = None if lib is None else {f: lib[f] for f in ("shares", "shape", "values", "name")}
            if pub == lean:
                return None
            which = ["flat.refusal"] if (pub is None or not isinstance(lean, dict)) else ["flat." + f for f in pub if pub[f] != lean.get(f)]
            return {"kind": "M", "differs": which, "msg": None}
        steps = io["ok"]["steps"]
        prop_bad, bad = [], []
        groups = c["_groups"]
        if c["op"] == "heapx":
            # the generator's bookkeeping does not follow label changes made through an alias, so a step it expected to
            # succeed may be refused (by both sides); the copy groups are recomputed from the steps that did add a variable
            groups, n = [], 0
            for op, st in zip(c["ops"], steps):
                if len(st["obs"]) > n:
                    n = len(st["obs"])
                    groups.append(max(groups + [-1]) + 1 if op[0] in ("create", "copy", "add_arr") else groups[op[1]])
        prev = []
        for k, (op, st) in enumerate(zip(c["ops"], steps)):
            cur = st["obs"]
            if op[0] != "mut":
                # no non-in-place operation changes any live array
                for j, (x, y) in enumerate(zip(prev, cur)):
                    if x != y:
                        prop_bad.append("step%d:%s:operand_changed:var%d" % (k, op[0], j))
            else:
                # (heapx: after a refused step a later mutation may name a variable that does not exist: refused by both sides)
                g = groups[op[1]] if op[1] < len(groups) else None
                for j, (x, y) in enumerate(zip(prev, cur)):
                    if x != y and groups[j] != g:
                        prop_bad.append("step%d:mutation_shows_through_copy:var%d" % (k, j))
            if op[0] == "copy" and "share" in st and "err" not in st and len(cur) > len(prev):
                # a copy shares no object with anything that existed
                for sh in st["share"]:
                    if sh["j"] == len(cur) - 1 and (sh["same"] or sh["vals"] or sh["axes"] or sh["labels"] or sh["attrs"] or sh["attr_vals"]):
                        prop_bad.append("step%d:copy_shares_with:var%d" % (k, sh["i"]))
            prev = cur
        lean = ans.get("lib")
        if isinstance(lean, list):
            for k, (st, l) in enumerate(zip(steps, lean)):
                if st["obs"] != l:
                    bad.append("heap.step%d:%s" % (k, c["ops"][k][0]))
                    break
            if c["op"] == "heapx" and not bad:
                lsh = ans.get("share")
                if not isinstance(lsh, list):
                    bad.append("lean.no_share")
                else:
                    for k, (st, l) in enumerate(zip(steps, lsh)):
                        if st["share"] != l:
                            which = sorted(set(f for x, y in zip(st["share"], l) if x != y and x and y for f in x if x[f] != y.get(f)))
                            bad.append("share.step%d:%s:%s" % (k, c["ops"][k][0], ",".join(which)))
                            break
        else:
            bad.append("lean.no_answer")
        if not prop_bad and not bad:
            return None
        return {"kind": "P" if prop_bad else "M", "differs": sorted(set(prop_bad + bad))[:6], "msg": None}

    def nontrivial(self, c):
        if c["op"] in ("heap", "heapx"):
            seen = False
            for op in c["ops"]:
                if op[0] not in ("create", "mut"):
                    seen = True
                if op[0] == "mut" and seen:
                    return True
            return False
        return True

    def features(self, c, io):
        f = {"outcome": "err:" + io["err"] if "err" in io else "ok", "op": c["op"]}
        if c["op"] == "heapflat":
            fl = io["ok"]["flat"] if "ok" in io else None
            f["flatten"] = "refused" if fl is None else ("view" if fl["shares"] else ("empty" if not fl["values"] else "copy"))
            for op in c["ops"]:
                f["flat:" + op[0]] = 1
            return f
        if c["op"] in ("heap", "heapx"):
            for op in c["ops"]:
                f["heap:" + (op[0] if op[0] != "mut" else "mut:" + op[2][0])] = 1
            if c["op"] == "heapx" and "ok" in io:
                for st in io["ok"]["steps"]:
                    for sh in st.get("share", []):
                        if sh["vals"]:
                            f["share:values"] = 1
                        if sh["axes"]:
                            f["share:axis_object"] = 1
                        if sh["same"]:
                            f["share:same_object"] = 1
                        if sh["attr_vals"]:
                            f["share:metadata_value"] = 1
            f["nvars"] = len(c["_groups"])
            f["ncopygroups"] = len(set(c["_groups"]))
            if "ok" in io:
                f["refused_steps"] = sum(1 for s in io["ok"]["steps"] if "err" in s)
        else:
            f["plugin"] = c.get("plugin", "dataset-calls" if c["op"] == "ds" else "derived-operands")
            if "ok" in io:
                f["monitored_calls"] = min(io["ok"]["calls"], 9)
                for q in io["ok"]["funcs"]:
                    f["call:" + q] = 1
                # calls that the implementation refused (raised): counted separately, they exercise the failure paths only
                rs = io["ok"].get("raised") or {}
                f["raised_calls"] = min(len(rs), 9)
                for q in rs:
                    f["raised:" + q] = 1
                for q in io["ok"].get("notes") or {}:
                    f[q] = 1
                if io["ok"]["impl_error"]:
                    f["impl_error"] = 1
        return f

    def size(self, c):
        return len(json.dumps(c))

    def snippet(self, c):
        return ("import sys; sys.path.insert(0, '/verif/harness'); import json, core; from props.c15 import PROP; "
                "case = json.load(open(REPLAY))['case']; print(json.dumps(PROP.impl(case), indent=1)[:4000])")


PROP = C15()

"""C01 - label indexing returns exactly the data stored at those labels."""
import copy
from fractions import Fraction
import numpy as np
import core, gen
from core import da, DimArray
from .base import Prop

LABEL_SPELLINGS = ["getitem", "take", "loc", "sel", "take_dict", "take_dict_pos", "take_axis_name",
                   "take_axis_pos", "take_label", "ix_from_position"]
POS_SPELLINGS = ["ix", "iloc", "isel", "take_position", "getitem_position_option"]


def py_index(ixj, ax, as_array=False):
    """encoded per-dimension index -> python object"""
    t = ixj[0]
    kind = ax["kind"] if ax else "i"
    if t == "sc":
        return core.dec_label(ixj[1], kind)
    if t == "li":
        vals = [core.dec_label(v, kind) for v in ixj[1]]
        if as_array:
            if kind == "O":
                arr = np.empty(len(vals), dtype=object)
                for i, v in enumerate(vals):
                    arr[i] = v
                return arr
            if any(isinstance(v, str) for v in vals):
                arr = np.empty(len(vals), dtype=object)          # (an index beyond the last dimension has no axis kind)
                for i, v in enumerate(vals):
                    arr[i] = v
                return arr
            if kind == "i" and any(isinstance(v, float) for v in vals):
                return np.array(vals, dtype=np.float64)          # never truncate a non-integral request
            return np.array(vals, dtype={"i": np.int64, "f": np.float64}[kind])
        return vals
    if t == "ma":
        return np.array(ixj[1], dtype=bool)
    if t == "sl":
        s = None if ixj[1] is None else core.dec_label(ixj[1], kind)
        e = None if ixj[2] is None else core.dec_label(ixj[2], kind)
        return slice(s, e, ixj[3])
    if t == "el":
        return Ellipsis
    raise ValueError(ixj)


def make_key(c):
    """python index object(s) described by the case: ('tuple', key) | ('dict', d) | ('axis', ix, axis), kw"""
    sp = c["spelling"]
    axes = c["array"]["axes"]
    idx = c["index"]
    arr = c.get("as_array", False)
    posmode = c["mode"] == "position"
    fake = {"kind": "i"}

    def conv(ixj, d):
        return py_index(ixj, fake if posmode else (axes[d] if d is not None and d < len(axes) else fake), arr)

    tol = c.get("tol")
    tolv = None if tol is None else (np.inf if tol[0] == "inf" else float(tol[1]) / tol[2])
    kw = {}
    if tolv is not None and sp not in ("nloc",):
        kw["tol"] = tolv
    if c.get("keepdims"):
        kw["keepdims"] = True
    if idx["form"] == "tuple":
        nd = len(axes)
        ixs = idx["ix"]
        pos = []
        d = 0
        seen = False
        for x in ixs:
            if x[0] == "el":
                pos.append(None)
                if not seen:
                    d += max(nd + 1 - len(ixs), 0)
                    seen = True
                else:
                    d += 1
            else:
                pos.append(d)
                d += 1
        key = tuple(conv(x, p) for x, p in zip(ixs, pos))
        if len(key) == 1 and c.get("bare", False):
            key = key[0]
        return ("tuple", key), kw
    dims = [x["name"] for x in axes]
    if idx["form"] == "dict":
        d = {}
        for k, x in idx["items"]:
            if k[0] == "name":
                dpos = dims.index(k[1]) if k[1] in dims else None
                d[k[1]] = conv(x, dpos)
            else:
                dpos = k[1] if -len(dims) <= k[1] < len(dims) else None
                d[k[1]] = conv(x, dpos % len(dims) if dpos is not None and dims else None)
        return ("dict", d), kw
    if idx["form"] == "axis":
        k = idx["axis"]
        if k[0] == "name":
            dpos = dims.index(k[1]) if k[1] in dims else None
        else:
            dpos = k[1] % len(dims) if dims and -len(dims) <= k[1] < len(dims) else None
        return ("axis", conv(idx["ix"], dpos), k[1]), kw
    if idx["form"] == "axes":
        # an Axes object as index: one Axis (name, requested labels / positions) per addressed dimension, in any order
        from dimarray.core.axes import Axes
        A = Axes()
        for k, x in idx["items"]:
            dpos = dims.index(k[1]) if k[1] in dims else None
            kind = "i" if posmode or dpos is None else axes[dpos]["kind"]
            A.append(core.Axis(core.label_array(x[1], kind), k[1]))
        return ("axes", A), kw
    raise ValueError("bad case %r" % (c,))


def nd_mask(a, c):
    """the full-shape boolean index of the case: an ndarray, or a DimArray on the same axes (what `a > x` is)"""
    idx = c["index"]
    m = np.array(idx["mask"], dtype=bool).reshape(a.shape)
    if idx.get("as") == "dimarray":
        m = DimArray(m, axes=[core.Axis(ax.values.copy(), ax.name) for ax in a.axes])
    return m


def call_take(a, c):
    """perform the read described by the case on the real array"""
    sp = c["spelling"]
    if c["index"]["form"] == "boolnd":
        m = nd_mask(a, c)
        kw = {"keepdims": True} if c.get("keepdims") else {}
        if sp in ("getitem", "getitem_position_option"):
            return a[m]
        if sp in ("loc", "nloc", "ix", "iloc"):
            return getattr(a, sp)[m]
        if sp == "ix_from_position":
            return a.ix[m]
        if sp == "take":
            return a.take(m, **kw)
        if sp == "take_label":
            return a.take(m, indexing="label", **kw)
        if sp == "take_position":
            return a.take(m, indexing="position", **kw)
        if sp == "compress":
            return a.compress(m)
        raise ValueError("bad case %r" % (c,))
    k, kw = make_key(c)
    if k[0] == "axes":
        A = k[1]
        if sp in ("getitem", "getitem_position_option"):
            return a[A]
        if sp in ("loc", "nloc", "ix", "iloc"):
            return getattr(a, sp)[A]
        if sp == "ix_from_position":
            return a.ix[A]
        if sp == "take":
            return a.take(A, **kw)
        if sp == "take_label":
            return a.take(A, indexing="label", **kw)
        if sp == "take_position":
            return a.take(A, indexing="position", **kw)
        raise ValueError("bad case %r" % (c,))
    if k[0] == "tuple":
        key = k[1]
        if sp in ("getitem", "getitem_position_option"):
            return a[key]
        if sp == "take":
            return a.take(key, **kw)
        if sp == "loc":
            return a.loc[key]
        if sp == "nloc":
            return a.nloc[key]
        if sp in ("ix", "ix_from_position"):
            return a.ix[key]
        if sp == "iloc":
            return a.iloc[key]
        if sp == "take_label":
            return a.take(key, indexing="label", **kw)
        if sp == "take_position":
            return a.take(key, indexing="position", **kw)
    if k[0] == "dict":
        d = k[1]
        if sp == "sel":
            return a.sel(**d)
        if sp == "isel":
            return a.isel(**d)
        if sp == "take_position":
            return a.take(d, indexing="position", **kw)
        if sp == "loc":
            return a.loc[d]
        if sp == "nloc":
            return a.nloc[d]
        if sp == "iloc":
            return a.iloc[d]
        if sp == "take_label":
            return a.take(d, indexing="label", **kw)
        return a.take(d, **kw)
    if k[0] == "axis":
        if sp == "take_position":
            kw["indexing"] = "position"
        if sp == "take_label":
            kw["indexing"] = "label"
        return a.take(k[1], axis=k[2], **kw)
    raise ValueError("bad case %r" % (c,))


def call_put(a, c, value):
    """perform the assignment described by the case; returns the modified array (a itself when in place)"""
    sp = c["spelling"]
    k, kw = make_key(c)
    kw.pop("keepdims", None)
    if c.get("cast"):
        kw["cast"] = True
    inplace = c.get("inplace", True)
    if k[0] == "tuple":
        key = k[1]
        if sp == "getitem" and inplace and not kw:
            a[key] = value
            return a
        if sp == "loc" and inplace and not kw:
            a.loc[key] = value
            return a
        if sp in ("ix", "ix_from_position") and inplace and not kw:
            a.ix[key] = value
            return a
        if sp == "iloc" and inplace and not kw:
            a.iloc[key] = value
            return a
        if sp in ("loc", "take_label"):
            kw["indexing"] = "label"
        if sp in ("ix", "iloc", "take_position", "ix_from_position", "getitem_position_option"):
            kw["indexing"] = "position" if c["mode"] == "position" else "label"
        r = a.put(key, value, inplace=inplace, **kw)
        return a if inplace else r
    if k[0] == "dict":
        if sp in ("isel", "take_position"):
            kw["indexing"] = "position"
        if sp in ("sel", "loc"):
            kw["indexing"] = "label"
        r = a.put(k[1], value, inplace=inplace, **kw)
        return a if inplace else r
    if k[0] == "axis":
        if sp == "take_position":
            kw["indexing"] = "position"
        r = a.put(k[1], value, axis=k[2], inplace=inplace, **kw)
        return a if inplace else r
    raise ValueError("bad case %r" % (c,))


def cfg_of(c):
    sp = c["spelling"]
    cfg = {"captured": c["option"], "indexing": None, "toggle": False, "tol": c.get("tol"),
           "keepdims": bool(c.get("keepdims", False))}
    if sp in ("loc", "sel", "take_label"):
        cfg["indexing"] = "label"
    elif sp == "nloc":
        cfg["indexing"] = "label"
        cfg["tol"] = ["inf"]
    elif sp in ("iloc", "isel", "take_position"):
        cfg["indexing"] = "position"
    elif sp in ("ix", "ix_from_position"):
        cfg["toggle"] = True
    return cfg


# ------------------------------------------------------------------------------------------------
# building the array of a case (per-axis tolerance, warmed ordering cache)
# ------------------------------------------------------------------------------------------------

def tol_value(t):
    """encoded tolerance -> python number (None when absent)"""
    if t is None:
        return None
    return np.inf if t[0] == "inf" else float(Fraction(t[1], t[2]))


def build_case_array(c):
    """core.build_array + what it does not know about: `Axis(values, name, tol=...)` for the axes that carry
    a "tol" field, and `warm` (every axis has been asked for its ordering before the read)"""
    a = core.build_array(c["array"], 0)
    if any(ax.get("tol") is not None for ax in c["array"]["axes"]):
        axes = []
        for ad, ax in zip(c["array"]["axes"], a.axes):
            if ad.get("tol") is not None:
                ax = core.Axis(ax.values, ax.name, tol=tol_value(ad["tol"]), **ax.attrs)
            axes.append(ax)
        b = DimArray(a.values, axes=axes)
        b.attrs.update(a.attrs)
        a = b
    if c.get("warm"):
        for ax in a.axes:
            ax.is_monotonic()
    return a


# ------------------------------------------------------------------------------------------------
# the oracle: what the statements of C01 (and C02 for slices) demand of a read, computed on exact rationals
# from the case alone (no library code involved besides building the operand to get at its cell values)
# ------------------------------------------------------------------------------------------------

class Undecided(Exception):
    """the statement does not speak about this input (ill-formed index, unspecified combination)"""


class Demands(Exception):
    """the statement demands an exception; cls = its class, or None when the class is not stated"""
    def __init__(self, cls):
        Exception.__init__(self, cls)
        self.cls = cls


INF = "inf"


def _fr(e):
    return Fraction(e[1], e[2])


def _same_label(x, y):
    if x[0] == "n" and y[0] == "n":
        return _fr(x) == _fr(y)
    return x[0] == y[0] and x[1] == y[1]


def effective_mode(c):
    """label / position, from the spelling and the option (a[...] / take follow the option, .loc / .sel / indexing='label'
    and .iloc / .isel / indexing='position' keep their meaning, .ix toggles)"""
    sp, opt = c["spelling"], c["option"]
    if sp in ("loc", "sel", "take_label", "nloc"):
        return "label"
    if sp in ("iloc", "isel", "take_position"):
        return "position"
    if sp in ("ix", "ix_from_position"):
        return "label" if opt == "position" else "position"
    return opt


def call_tol(c):
    """tolerance given with the call: None | INF | Fraction"""
    if c["spelling"] == "nloc":
        return INF
    t = c.get("tol")
    if t is None:
        return None
    return INF if t[0] == "inf" else Fraction(t[1], t[2])


def axis_tol(ax):
    t = ax.get("tol")
    if t is None:
        return None
    return INF if t[0] == "inf" else Fraction(t[1], t[2])


def find_label(labels, kind, v, tol):
    """set of acceptable positions of the requested label (several only when two labels are equally near)"""
    numeric = kind in ("i", "f", "u")
    if tol is not None and numeric:
        if v[0] != "n":
            raise Undecided()
        if not labels:
            # no label at all is within the tolerance of an empty axis: "a label that is not on the axis raises IndexError"
            # (used to be ValueError: np.argmin of an empty sequence)
            raise Demands("index")
        x = _fr(v)
        dist = [abs(_fr(l) - x) for l in labels]
        m = min(dist)
        if tol != INF and m > tol:
            raise Demands("index")
        return {p for p, dd in enumerate(dist) if dd == m}
    if v[0] == "N":
        raise Undecided()
    hits = [p for p, l in enumerate(labels) if _same_label(l, v)]
    if not hits:
        raise Demands("index")
    return {hits[0]}


def slice_positions(labels, kind, s, e, st, tol_given=False):
    """C02: positions selected by the label slice s:e:st"""
    k = 1 if st is None else st
    if k == 0:
        raise Undecided()
    n = len(labels)
    numeric = kind in ("i", "f", "u") and all(l[0] == "n" for l in labels)
    L = [_fr(l) for l in labels] if numeric else None
    mono = numeric and (all(L[i] <= L[i + 1] for i in range(n - 1)) or all(L[i] >= L[i + 1] for i in range(n - 1)))
    if mono:
        for b in (s, e):
            if b is not None and b[0] != "n":
                raise Undecided()
        inc = n == 0 or L[-1] >= L[0]
        first, last = (s, e) if k > 0 else (e, s)
        lo, hi = (first, last) if inc else (last, first)
        lo = None if lo is None else _fr(lo)
        hi = None if hi is None else _fr(hi)
        sel = [p for p in range(n) if (lo is None or lo <= L[p]) and (hi is None or L[p] <= hi)]
    else:
        def find(b):
            if b is None:
                return None
            hits = [p for p, l in enumerate(labels) if _same_label(l, b)]
            if not hits:
                if tol_given:
                    raise Undecided()       # neither statement says what a tolerance means for the bound of a slice
                raise Demands(None)         # "both bounds must be existing labels" (class of the error not stated)
            return hits[0]
        i, j = find(s), find(e)
        if k > 0:
            sel = [p for p in range(n) if (i is None or i <= p) and (j is None or p <= j)]
        else:
            sel = [p for p in range(n) if (j is None or j <= p) and (i is None or p <= i)]
    if k < 0:
        sel.reverse()
    return sel[::abs(k)]


def resolve_dim(ixj, ax, mode, tol, zero_len=False, scalar=True):
    """('sc', {positions}) | ('li', [{positions}, ...]) for one dimension"""
    labels, kind = ax["labels"], ax["kind"]
    n = len(labels)
    t = ixj[0]
    if t == "ma":
        if len(ixj[1]) != n:
            raise Undecided()
        return ("li", [{p} for p, b in enumerate(ixj[1]) if b])
    if t == "sl" and ixj[1] is None and ixj[2] is None and ixj[3] is None:
        return ("li", [{p} for p in range(n)])
    if mode == "position":
        def pos(e):
            if e[0] != "n" or e[2] != 1:
                raise Undecided()
            return e[1]
        def one(e, scalar=False):
            k = pos(e)
            if not -n <= k < n:
                if zero_len and not scalar:
                    # NumPy's bounds check of an index array next to a zero-length dimension depends on how the
                    # orthogonal index is spelled: "the same NumPy index" is not determined
                    raise Undecided()
                raise Demands("index")          # what NumPy does with the same index on .values
            return {k % n}
        if t == "sc":
            return ("sc", one(ixj[1], scalar is True))      # (NumPy checks an integer index whatever the other dimensions)
        if t == "li":
            return ("li", [one(e) for e in ixj[1]])
        if t == "sl":
            if ixj[3] == 0:
                raise Undecided()
            sl = slice(None if ixj[1] is None else pos(ixj[1]), None if ixj[2] is None else pos(ixj[2]), ixj[3])
            return ("li", [{p} for p in list(range(n))[sl]])
        raise Undecided()
    if t == "sc":
        return ("sc", find_label(labels, kind, ixj[1], tol))
    if t == "li":
        return ("li", [find_label(labels, kind, v, tol) for v in ixj[1]])
    if t == "sl":
        return ("li", [{p} for p in slice_positions(labels, kind, ixj[1], ixj[2], ixj[3], tol is not None)])
    raise Undecided()


def per_dim_indices(c):
    """the index of the case as one entry per dimension (None = not addressed = full)"""
    axes = c["array"]["axes"]
    nd = len(axes)
    dims = [x["name"] for x in axes]
    idx = c["index"]
    out = [None] * nd
    if idx["form"] == "tuple":
        ixs = idx["ix"]
        if sum(1 for x in ixs if x[0] == "el") > 1:
            raise Undecided()
        exp = []
        for x in ixs:
            if x[0] == "el":
                exp.extend([None] * (nd + 1 - len(ixs)))
            else:
                exp.append(x)
        if len(exp) > nd:
            raise Undecided()               # more indices than dimensions: not an index of this array
        for d, x in enumerate(exp):
            out[d] = x
        return out
    if idx["form"] in ("dict", "axes"):
        for k, x in idx["items"]:
            if k[0] == "name":
                if k[1] not in dims:
                    raise Undecided()
                d = dims.index(k[1])
            else:
                if not -nd <= k[1] < nd:
                    raise Undecided()
                d = k[1] % nd
            if out[d] is not None:
                raise Undecided()
            out[d] = x
        return out
    if idx["form"] == "axis":
        k = idx["axis"]
        if k[0] == "name":
            if k[1] not in dims:
                raise Undecided()
            d = dims.index(k[1])
        else:
            if not -nd <= k[1] < nd:
                raise Undecided()
            d = k[1] % nd
        out[d] = idx["ix"]
        return out
    raise Undecided()


def _canon(vals):
    return [core.canon_value(v) for v in (vals.reshape(-1).tolist() if vals.dtype.kind != "O" else vals.reshape(-1))]


def _component_matches(g, lab):
    """one (encoded) component of a tuple label against an (encoded) axis label: numbers by value, text by text
    (a number is never stood for by its text: '10' is not 10)"""
    if lab[0] == "n":
        return g[0] == "n" and _fr(g) == _fr(lab)
    return g[0] == lab[0] and g[1:] == lab[1:]


def oracle_boolnd(c, io, values):
    """a[mask] with a mask of the full shape: the elements stored where the mask holds, in storage (C) order, each
    with the labels of its cell"""
    axes = c["array"]["axes"]
    shape = tuple(len(ax["labels"]) for ax in axes)
    mask = np.array(c["index"]["mask"], dtype=bool).reshape(shape)
    if "err" in io:
        return ["outcome"], {"values": _canon(values[mask])}
    ok = io["ok"]
    bad = []
    want = _canon(values[mask])
    if ok["values"] != want:
        bad.append("values")
    if ok["shape"] != [len(want)] or len(ok["dims"]) != 1:
        bad.append("shape")
    else:
        cells = list(zip(*np.nonzero(mask))) if mask.ndim else []
        got = ok["axes"][0]["labels"]
        good = len(got) == len(cells)
        for g, cell in zip(got, cells):
            if not (g[0] == "t" and len(g[1]) == len(axes)
                    and all(_component_matches(x, axes[d]["labels"][p]) for d, (x, p) in enumerate(zip(g[1], cell)))):
                good = False
        if not good:
            bad.append("axes.labels")
    return bad, {"values": want}


def oracle_take(c, io):
    """list of observables on which the implementation's output departs from the statement, and the expectation
    (None when the statement does not decide the case)"""
    axes = c["array"]["axes"]
    nd = len(axes)
    values = np.asarray(core.build_array(c["array"], 0).values)
    if c["index"]["form"] == "boolnd":
        if nd < 2 or c.get("keepdims"):
            return None
        return oracle_boolnd(c, io, values)
    mode = effective_mode(c)
    ct = call_tol(c)
    zero_len = any(len(ax["labels"]) == 0 for ax in axes)
    try:
        ixs = per_dim_indices(c)
        res, demand, undecided = [], None, False
        for d in range(nd):
            x = ixs[d]
            if x is None:
                res.append(("li", [{p} for p in range(len(axes[d]["labels"]))]))
                continue
            if ct is not None and axis_tol(axes[d]) is not None:
                raise Undecided()           # which of the two tolerances wins is not stated
            tol = ct if ct is not None else axis_tol(axes[d])
            try:
                res.append(resolve_dim(x, axes[d], mode, tol if mode == "label" else None, zero_len, not c.get("keepdims")))
            except Demands as e:
                demand = e if demand is None or e.cls is None else demand
                res.append(None)
        if demand is not None:
            raise demand
    except Undecided:
        return None
    except Demands as e:
        if "err" not in io:
            return ["outcome"], {"err": e.cls or "any"}
        if e.cls is not None and io["err"] != e.cls:
            return ["errclass"], {"err": e.cls}
        return [], {"err": e.cls or "any"}
    keep = bool(c.get("keepdims"))
    kept = [d for d in range(nd) if res[d][0] == "li" or keep]
    want_dims = [axes[d]["name"] for d in kept]
    slots = [(r[1] if r[0] == "li" else [r[1]]) for r in res]           # per dimension: list of candidate sets
    want_shape = [len(slots[d]) for d in kept]
    exp = {"dims": want_dims, "shape": want_shape}
    if "err" in io:
        return ["outcome"], exp
    ok = io["ok"]
    bad = []
    if ok["dims"] != want_dims:
        bad.append("dims")
        return bad, exp
    if ok["shape"] != want_shape:
        bad.append("shape")
        return bad, exp
    # labels: each selected label must be one of the acceptable ones; this also fixes the choice made at ties
    chosen = [None] * nd
    for j, d in enumerate(kept):
        got = ok["axes"][j]["labels"]
        lab = axes[d]["labels"]
        if ok["axes"][j]["name"] != axes[d]["name"]:
            bad.append("axes.name")
        ch = []
        for g, cand in zip(got, slots[d]):
            hit = [p for p in sorted(cand) if _same_label(lab[p], g)]
            if not hit:
                bad.append("axes.labels")
                hit = [sorted(cand)[0]]
            ch.append(hit[0])
        chosen[d] = ch
    if bad:
        return sorted(set(bad)), exp
    # dropped dimensions: a tie between two equally near labels may be resolved either way
    import itertools
    free = [d for d in range(nd) if chosen[d] is None]
    combos = 1
    for d in free:
        combos *= len(slots[d][0])
    if combos > 64:
        return None
    cands = []
    for pick in itertools.product(*[sorted(slots[d][0]) for d in free]):
        sel = list(chosen)
        for d, p in zip(free, pick):
            sel[d] = [p]
        sub = values[np.ix_(*[np.array(s, dtype=int) for s in sel])] if nd else values
        cands.append(_canon(np.asarray(sub).reshape(want_shape)))
    exp["values"] = cands[0]
    if ok["values"] not in cands:
        bad.append("values")
    return bad, exp


class C01(Prop):
    id = "C01"
    theorems = ["locateOne_spec", "locateOne_absent", "locateMany_found", "loc_list_spec", "loc_list_absent",
                "perDim_spec", "stages_spec", "take_spec", "take_get", "take_list_labels",
                "locateOne_tol_ok", "locateOne_tol_error", "locateOne_tol_inf", "locateOne_tol_exact", "loc_list_tol", "mode_loc", "mode_iloc", "mode_default", "mode_ix", "take_position_spec", "take_position_get",
                "take_position_out_of_range", "take_tuple_pad", "take_tuple_too_long", "take_ellipsis", "take_dict_eq_tuple", "dictKey_mem",
                "dictKey_not_mem", "take_dict_badkey", "take_axis_eq_tuple", "take_axis_badkey", "take_keepdims_spec", "take_keepdims_label",
                "take_keepdims_none_counterexample", "take_mask_any_cfg", "mask_positions", "locateOne_tol_iff", "take_tol_spec",
                "take_mask_nd_spec", "take_mask_nd_any_cfg", "take_mask_nd_refuses", "take_mask_nd_rank1_counterexample",
                "take_axes_index_eq_labels", "take_axes_index_dim", "take_axes_index_badname"]
    rule = ("arrays of rank 0-4, sizes 0-4, int/float/str labels stored increasing/decreasing/shuffled; per-dimension "
            "index from {present scalar, absent scalar, list with repeats/empty/absent members, ndarray, mask, full "
            "slice, Ellipsis}; spellings a[...], take, take(axis=name|pos), dict by name/position, .loc, .sel, .nloc, "
            "tol=, .ix/.iloc/.isel/indexing='position'; both values of option indexing.by; + strata (40% of the stream): "
            "tol= / .nloc with dict, axis= and indexing='label' forms and ndarray requests (finite, zero and infinite "
            "tolerances), tolerance carried by the axis (Axis(tol=), uniform or differing between axes), full-shape N-d "
            "boolean mask (ndarray or DimArray, every accessor, compress), an Axes object as index, keepdims=True in every "
            "take form, axes whose ordering flag is already cached. STRATUM boolnd goes to the mirror Lib.takeMaskNd "
            "(= Lib.compressNd for a mask of rank > 1, whatever the accessor / mode / tolerance): dims, shape, the axis of "
            "label tuples (name, every tuple component), cells in C order, vkind, metadata compared; STRATUM axes_index "
            "goes to Lib.takeAxesIndex (the Axes object itself: name -> label array per held axis). Every read is judged twice: against the Lean mirror "
            "(when it models the form) and against an oracle computed in Python on exact rationals from the statement. "
            "Non-trivial = rank >= 1 and at least one non-full index; distinct = canonical JSON of the case")
    assumptions = ["labels unique, NaN-free, homogeneous kind per axis",
                   "values[orthogonal_indexer(key)] is outer (np.ix_) selection (conformance-tested in thorough tier)"]
    all_branches = []

    def mirrors(self):
        from dimarray.core import indexing, bases, axes
        return {"locate_one": indexing.locate_one, "locate_many": indexing.locate_many,
                "loc": bases.AbstractAxis.loc, "_get_indices": bases.AbstractHasAxes._get_indices,
                "_getaxes_ortho": bases.AbstractHasAxes._getaxes_ortho, "_getitem": bases.AbstractDimArray._getitem,
                "expanded_indexer": indexing.expanded_indexer, "orthogonal_indexer": indexing.orthogonal_indexer,
                "Axis.__getitem__": axes.Axis.__getitem__, "Axis.__init__": axes.Axis.__init__,
                "compress": core.DimArray.compress, "getaxes_broadcast": indexing.getaxes_broadcast}

    # ---------------------------------------------------------------- generation
    def gen_ix_label(self, rng, ax, allow_slice=False):
        n = len(ax["labels"])
        r = rng.random()
        if r < 0.22 and n > 0:
            return ["sc", rng.choice(ax["labels"])], "scalar"
        if r < 0.30:
            return ["sc", gen.absent_label(rng, ax, frac=True)], "absent_scalar"
        if r < 0.55:
            k = rng.randint(0, 4)
            vs = [rng.choice(ax["labels"]) for _ in range(k)] if n > 0 else []
            return ["li", vs], "list" if vs else "empty_list"
        if r < 0.63:
            k = rng.randint(1, 3)
            vs = [rng.choice(ax["labels"]) for _ in range(k)] if n > 0 else []
            vs.insert(rng.randint(0, len(vs)), gen.absent_label(rng, ax, frac=True))
            return ["li", vs], "list_absent"
        if r < 0.78:
            return ["ma", [rng.random() < 0.5 for _ in range(n)]], "mask"
        return ["sl", None, None, None], "full"

    def gen_ix_pos(self, rng, n):
        r = rng.random()
        if r < 0.25:
            return ["sc", ["n", rng.randint(-n - 1, n), 1]], "scalar"
        if r < 0.5:
            k = rng.randint(0, 4)
            return ["li", [["n", rng.randint(-n, n - 1) if n else 0, 1] for _ in range(k)] if n or rng.random() < 0.3 else []], "list"
        if r < 0.62:
            return ["ma", [rng.random() < 0.5 for _ in range(n)]], "mask"
        if r < 0.85:
            b = lambda: rng.choice([None, None] + list(range(-n - 2, n + 3)))
            s, e = b(), b()
            return ["sl", None if s is None else ["n", s, 1], None if e is None else ["n", e, 1],
                    rng.choice([None, 1, 2, 3, -1, -2])], "slice"
        return ["sl", None, None, None], "full"

    def gen_case(self, rng, tier):
        option = rng.choice(["label", "label", "position"])
        rank = rng.choice([0, 1, 1, 2, 2, 3, 3, 4])
        arr = gen.dtype_variants(rng, gen.rand_array(rng, rank=rank, maxn=4))
        axes = arr["axes"]
        want_pos = rng.random() < 0.3
        if want_pos:
            sp = rng.choice(["ix", "iloc", "isel", "take_position"] if option == "label"
                            else ["getitem_position_option", "iloc", "isel", "take_position", "take"])
            if option == "position" and sp == "ix":
                sp = "iloc"
        else:
            sp = rng.choice(["getitem", "take", "loc", "sel", "take_dict", "take_dict_pos", "take_axis_name",
                             "take_axis_pos", "take_label", "nloc", "tol"] if option == "label"
                            else ["loc", "sel", "take_label", "ix_from_position", "nloc"])
        mode = "position" if want_pos else "label"
        c = {"op": "take", "array": arr, "option": option, "spelling": sp, "mode": mode,
             "as_array": rng.random() < 0.4}
        kinds = []
        mk = (lambda d: self.gen_ix_pos(rng, len(axes[d]["labels"]))) if want_pos else (lambda d: self.gen_ix_label(rng, axes[d]))
        if sp in ("nloc", "tol"):
            # tolerance: numeric axes get near-miss labels
            c["spelling"] = "nloc" if sp == "nloc" else "take"
            if sp == "tol":
                c["tol"] = ["fin", rng.choice([1, 1, 3, 1]), rng.choice([8, 4, 8, 2])]
            ixs = []
            for d in range(rank):
                ax = axes[d]
                if ax["kind"] in "if" and ax["labels"] and rng.random() < 0.8:
                    def near():
                        b = rng.choice(ax["labels"])
                        from fractions import Fraction
                        v = Fraction(b[1], b[2]) + Fraction(rng.choice([-3, -1, 0, 0, 1, 2, 5]), 8)
                        return ["n", v.numerator, v.denominator]
                    if rng.random() < 0.5:
                        ixs.append(["sc", near()]); kinds.append("tol_scalar")
                    else:
                        ixs.append(["li", [near() for _ in range(rng.randint(0, 3))]]); kinds.append("tol_list")
                else:
                    ix, k = self.gen_ix_label(rng, ax)
                    ixs.append(ix); kinds.append(k)
            c["index"] = {"form": "tuple", "ix": ixs}
            c["as_array"] = False
            c["_ixkinds"] = kinds
            return c
        if sp in ("sel", "isel", "take_dict", "take_dict_pos"):
            ds = rng.sample(range(rank), rng.randint(0, rank)) if rank else []
            items = []
            for d in ds:
                ix, k = mk(d)
                kinds.append(k)
                key = ["name", axes[d]["name"]] if sp != "take_dict_pos" else ["pos", d if rng.random() < 0.7 else d - rank]
                items.append([key, ix])
            if sp != "take_dict_pos" and rng.random() < 0.05:
                items.append([["name", "nodim"], ["sl", None, None, None]])
            c["index"] = {"form": "dict", "items": items}
        elif sp in ("take_axis_name", "take_axis_pos"):
            if rank == 0:
                c["spelling"] = "take"
                c["index"] = {"form": "tuple", "ix": []}
            else:
                d = rng.randrange(rank)
                ix, k = mk(d)
                kinds.append(k)
                # (a negative position counts from the end, as everywhere else)
                key = ["name", axes[d]["name"]] if sp == "take_axis_name" else ["pos", d if rng.random() < 0.6 else d - rank]
                c["index"] = {"form": "axis", "ix": ix, "axis": key}
        else:
            if want_pos and sp in ("take_position",) and rng.random() < 0.3 and rank:
                ds = rng.sample(range(rank), rng.randint(1, rank))
                items = []
                for d in ds:
                    ix, k = mk(d); kinds.append(k)
                    items.append([["name", axes[d]["name"]], ix])
                c["index"] = {"form": "dict", "items": items}
            else:
                nix = rng.randint(0, rank) if rng.random() < 0.4 else rank
                if rng.random() < 0.04:
                    nix = rank + 1
                ixs = []
                for d in range(nix):
                    ix, k = mk(min(d, rank - 1)) if rank else (["sc", ["n", 0, 1]], "scalar")
                    ixs.append(ix); kinds.append(k)
                if rank >= 1 and rng.random() < 0.15:
                    # replace a run of leading/trailing/inner entries by an Ellipsis
                    p = rng.randint(0, len(ixs))
                    q = rng.randint(p, len(ixs))
                    tail = ixs[q:]
                    # indices after the ellipsis address the *last* dims: regenerate them for those dims
                    newtail = []
                    for j in range(len(tail)):
                        d = rank - len(tail) + j
                        ix, k = mk(d); newtail.append(ix); kinds.append(k)
                    ixs = ixs[:p] + [["el"]] + newtail
                    kinds.append("ellipsis")
                c["index"] = {"form": "tuple", "ix": ixs}
                c["bare"] = rng.random() < 0.5
        if rng.random() < 0.08 and sp in ("take", "take_label", "take_position"):
            c["keepdims"] = True
        c["_ixkinds"] = kinds
        return c

    # ---------------------------------------------------------------- strata added after the coverage audit
    # (gen_case above is also the base of other properties' generators: it is left as it was)
    TOLS = [["fin", 1, 8], ["fin", 1, 4], ["fin", 3, 8], ["fin", 1, 2], ["fin", 1, 1], ["inf"], ["fin", 0, 1]]

    def near_ix(self, rng, ax):
        """a near-miss request (scalar or list) on a numeric axis"""
        def near():
            b = rng.choice(ax["labels"])
            v = Fraction(b[1], b[2]) + Fraction(rng.choice([-3, -1, 0, 0, 1, 2, 5]), 8)
            return ["n", v.numerator, v.denominator]
        if rng.random() < 0.5:
            return ["sc", near()], "tol_scalar"
        return ["li", [near() for _ in range(rng.randint(0, 3))]], "tol_list"

    def fill_index(self, rng, c, form, mk):
        """put the per-dimension indices made by mk(d) into the case in the given form"""
        axes = c["array"]["axes"]
        rank = len(axes)
        kinds = []
        if form == "tuple" or rank == 0:
            nix = rng.randint(0, rank) if rng.random() < 0.3 else rank
            ixs = []
            for d in range(nix):
                ix, k = mk(d); ixs.append(ix); kinds.append(k)
            if rank >= 2 and rng.random() < 0.15:
                # an Ellipsis in place of a run of entries: the indices written after it address the LAST dimensions
                p = rng.randint(0, len(ixs))
                q = rng.randint(p, len(ixs))
                ntail = len(ixs) - q
                newtail = []
                for j in range(ntail):
                    ix, k = mk(rank - ntail + j); newtail.append(ix); kinds.append(k)
                ixs = ixs[:p] + [["el"]] + newtail
                kinds.append("ellipsis")
            c["index"] = {"form": "tuple", "ix": ixs}
            c["bare"] = rng.random() < 0.5
        elif form in ("dict", "dict_pos"):
            items = []
            for d in rng.sample(range(rank), rng.randint(1, rank)):
                ix, k = mk(d); kinds.append(k)
                key = ["name", axes[d]["name"]] if form == "dict" else ["pos", d if rng.random() < 0.7 else d - rank]
                items.append([key, ix])
            c["index"] = {"form": "dict", "items": items}
        else:
            d = rng.randrange(rank)
            ix, k = mk(d); kinds.append(k)
            key = ["name", axes[d]["name"]] if form == "axis" else ["pos", d if rng.random() < 0.6 else d - rank]
            c["index"] = {"form": "axis", "ix": ix, "axis": key}
        c["_ixkinds"] = kinds
        return c

    FORM_OF = {"take_dict": "dict", "take_dict_pos": "dict_pos", "take_axis_name": "axis", "take_axis_pos": "axis_pos",
               "sel": "dict", "isel": "dict"}

    def gen_tol_forms(self, rng):
        """tol= / .nloc in every spelling that takes it: dict by name / position, axis=, indexing='label', ndarray requests"""
        option = rng.choice(["label", "label", "position"])
        rank = rng.choice([1, 1, 2, 2, 3, 4])
        arr = gen.dtype_variants(rng, gen.rand_array(rng, rank=rank, maxn=4))
        axes = arr["axes"]
        if option == "label":
            sp, form = rng.choice([("take", "tuple"), ("take_dict", "dict"), ("take_dict_pos", "dict_pos"), ("take_axis_name", "axis"),
                                   ("take_axis_pos", "axis_pos"), ("take_label", "tuple"), ("take_label", "dict"), ("take_label", "axis"),
                                   ("take_label", "axis_pos"), ("nloc", "tuple"), ("nloc", "dict"), ("nloc", "dict_pos")])
        else:
            sp, form = rng.choice([("take_label", "tuple"), ("take_label", "dict"), ("take_label", "axis_pos"), ("take_label", "dict_pos"),
                                   ("nloc", "tuple"), ("nloc", "dict")])
        c = {"op": "take", "array": arr, "option": option, "spelling": sp, "mode": "label", "as_array": rng.random() < 0.45,
             "_stratum": "tol_forms"}
        if sp != "nloc":
            c["tol"] = rng.choice(self.TOLS)
            if rng.random() < 0.15:
                c["keepdims"] = True

        def mk(d):
            ax = axes[d]
            if ax["kind"] in "if" and ax["labels"] and rng.random() < 0.75:
                return self.near_ix(rng, ax)
            return self.gen_ix_label(rng, ax)
        return self.fill_index(rng, c, form, mk)

    def gen_axis_tol(self, rng):
        """the tolerance is a property of the axis (Axis(values, name, tol=...)), the read is an ordinary one"""
        option = rng.choice(["label", "label", "label", "position"])
        rank = rng.choice([1, 1, 2, 2, 3, 4])
        kinds = [rng.choice(["i", "f", "O"]) for _ in range(rank)]
        kinds[rng.randrange(rank)] = rng.choice(["i", "f"])
        arr = gen.dtype_variants(rng, gen.rand_array(rng, rank=rank, maxn=4, kinds=kinds))
        axes = arr["axes"]
        T = rng.choice(self.TOLS[:6])
        some = False
        for ax in axes:
            if ax["kind"] in "if" and rng.random() < 0.8:
                ax["tol"] = T; some = True
        if not some:
            next(ax for ax in axes if ax["kind"] in "if")["tol"] = T
        if rng.random() < 0.15:
            rng.choice([ax for ax in axes if ax["kind"] in "if"])["tol"] = rng.choice(self.TOLS[:6])    # tolerances differ between axes
        posread = rng.random() < 0.1
        if posread:
            sp = rng.choice(["ix", "iloc", "isel", "take_position"] if option == "label" else ["getitem_position_option", "iloc", "take"])
        elif option == "label":
            sp = rng.choice(["getitem", "getitem", "loc", "sel", "take", "take_dict", "take_dict_pos", "take_axis_name", "take_axis_pos", "take_label"])
        else:
            sp = rng.choice(["loc", "sel", "take_label", "ix_from_position"])
        form = self.FORM_OF.get(sp, "tuple")
        if sp in ("loc", "take_label", "take_position", "iloc") and rng.random() < 0.3:
            form = "dict"
        c = {"op": "take", "array": arr, "option": option, "spelling": sp, "mode": "position" if posread else "label",
             "as_array": rng.random() < 0.4, "_stratum": "axis_tol"}

        def mk(d):
            ax = axes[d]
            if posread:
                return self.gen_ix_pos(rng, len(ax["labels"]))
            if ax["kind"] in "if" and ax["labels"] and rng.random() < 0.75:
                return self.near_ix(rng, ax)
            return self.gen_ix_label(rng, ax)
        return self.fill_index(rng, c, form, mk)

    def gen_boolnd(self, rng):
        """a[mask] with a boolean mask of the full shape (ndarray, or DimArray as in a[a > x])"""
        option = rng.choice(["label", "label", "position"])
        rank = rng.choice([2, 2, 3, 3, 4])
        arr = gen.dtype_variants(rng, gen.rand_array(rng, rank=rank, maxn=3, minn=0 if rng.random() < 0.15 else 1))
        n = 1
        for ax in arr["axes"]:
            n *= len(ax["labels"])
        p = rng.choice([0.0, 0.2, 0.5, 0.5, 0.8, 1.0])
        mask = [rng.random() < p for _ in range(n)]
        sp = rng.choice(["getitem", "getitem", "loc", "ix", "iloc", "take", "nloc", "take_label", "take_position", "compress"] if option == "label"
                        else ["getitem_position_option", "loc", "iloc", "ix_from_position", "take"])
        return {"op": "take", "array": arr, "option": option, "spelling": sp, "mode": "label", "as_array": True,
                "index": {"form": "boolnd", "mask": mask, "as": rng.choice(["ndarray", "dimarray"])},
                "_ixkinds": ["boolnd"], "_stratum": "boolnd"}

    def gen_axes_index(self, rng):
        """an Axes object as index: {axis name: axis values} for the axes it holds"""
        option = rng.choice(["label", "label", "position"])
        rank = rng.choice([1, 2, 2, 3, 3, 4])
        arr = gen.dtype_variants(rng, gen.rand_array(rng, rank=rank, maxn=4))
        axes = arr["axes"]
        posread = rng.random() < 0.25
        if posread:
            sp = rng.choice(["ix", "iloc", "take_position"] if option == "label" else ["getitem_position_option", "iloc", "take"])
        else:
            sp = rng.choice(["getitem", "getitem", "take", "loc", "take_label", "nloc"] if option == "label" else ["loc", "take_label", "ix_from_position"])
        items, kinds = [], []
        for d in rng.sample(range(rank), rng.randint(1, rank)):
            ax = axes[d]
            n = len(ax["labels"])
            if posread:
                vs = [["n", rng.randint(-n, n - 1), 1] for _ in range(rng.randint(0, 3))] if n else []
                if n and rng.random() < 0.08:
                    vs.append(["n", n, 1])
                kinds.append("list" if vs else "empty_list")
            else:
                vs = [rng.choice(ax["labels"]) for _ in range(rng.randint(0, 4))] if n else []
                k = "list" if vs else "empty_list"
                if rng.random() < 0.12:
                    vs.insert(rng.randint(0, len(vs)), gen.absent_label(rng, ax, frac=True)); k = "list_absent"
                kinds.append(k)
            items.append([["name", ax["name"]], ["li", vs]])
        return {"op": "take", "array": arr, "option": option, "spelling": sp, "mode": "position" if posread else "label",
                "as_array": True, "index": {"form": "axes", "items": items}, "_ixkinds": kinds, "_stratum": "axes_index"}

    def gen_keepdims(self, rng):
        """keepdims=True in every spelling that takes it, scalar indices in most dimensions"""
        option = rng.choice(["label", "label", "position"])
        rank = rng.choice([1, 1, 2, 2, 3, 4])
        arr = gen.dtype_variants(rng, gen.rand_array(rng, rank=rank, maxn=4))
        axes = arr["axes"]
        posread = rng.random() < 0.3
        if posread:
            sp = rng.choice(["take_position"] if option == "label" else ["take_position", "take", "take_dict", "take_axis_pos"])
        else:
            sp = rng.choice(["take", "take_label", "take_dict", "take_dict_pos", "take_axis_name", "take_axis_pos"] if option == "label"
                            else ["take_label"])
        form = self.FORM_OF.get(sp, "tuple")
        if sp in ("take_label", "take_position"):
            form = rng.choice(["tuple", "tuple", "dict", "axis", "axis_pos"])
        c = {"op": "take", "array": arr, "option": option, "spelling": sp, "mode": "position" if posread else "label",
             "as_array": rng.random() < 0.4, "keepdims": True, "_stratum": "keepdims"}

        def mk(d):
            ax = axes[d]
            n = len(ax["labels"])
            if n and rng.random() < 0.6:
                if posread:
                    return ["sc", ["n", rng.randint(-n, n - 1), 1]], "scalar"
                return ["sc", rng.choice(ax["labels"])], "scalar"
            return self.gen_ix_pos(rng, n) if posread else self.gen_ix_label(rng, ax)
        return self.fill_index(rng, c, form, mk)

    def gen_extra(self, rng, tier):
        r = rng.random()
        if r < 0.28:
            c = self.gen_tol_forms(rng)
        elif r < 0.48:
            c = self.gen_axis_tol(rng)
        elif r < 0.66:
            c = self.gen_boolnd(rng)
        elif r < 0.82:
            c = self.gen_axes_index(rng)
        else:
            c = self.gen_keepdims(rng)
        if rng.random() < 0.25:
            c["warm"] = True          # the axes have been asked for their ordering before (cached flag)
        return c

    def gen(self, rng, tier):
        n = 2400 if tier == "quick" else 64000
        for _ in range(n):
            if rng.random() < 0.6:
                c = self.gen_case(rng, tier)
                if rng.random() < 0.15:
                    c["warm"] = True
                yield c
            else:
                yield self.gen_extra(rng, tier)
        for c in self.pattern_sweep(tier):
            yield c
        if tier == "thorough":
            for c in self.exhaustive_small():
                yield c

    def pattern_sweep(self, tier):
        """every combination of index KINDS (full slice, scalar, list, mask, empty list) over the dimensions of a fixed 3-d
        array (all 125) and of a fixed 4-d array (all 625): orthogonal
        indexing must not depend on which kinds meet in one tuple or where they stand"""
        import itertools
        def arr(rank):
            sizes = [2, 3, 2, 3][:rank]
            names = ["x", "y", "z", "w"][:rank]
            kinds = ["i", "O", "f", "i"][:rank]
            pools = {"i": [5, 3, 8], "O": ["c", "a", "b"], "f": [Fraction(1, 2), Fraction(7, 2), Fraction(3, 2)]}
            return {"axes": [{"name": nm, "kind": k, "labels": [gen.enc(v) for v in pools[k][:n]]} for nm, k, n in zip(names, kinds, sizes)],
                    "vkind": "f"}
        from fractions import Fraction
        count = 0
        for rank in (3, 4):
            a = arr(rank)
            for pat in itertools.product(["full", "scalar", "list", "mask", "empty"], repeat=rank):
                count += 1
                ixs = []
                for d, kind in enumerate(pat):
                    L = a["axes"][d]["labels"]
                    if kind == "full":
                        ixs.append(["sl", None, None, None])
                    elif kind == "scalar":
                        ixs.append(["sc", L[-1]])
                    elif kind == "list":
                        ixs.append(["li", [L[-1], L[0]]])
                    elif kind == "mask":
                        ixs.append(["ma", [i != 0 for i in range(len(L))]])
                    else:
                        ixs.append(["li", []])
                yield {"op": "take", "array": a, "option": "label", "spelling": ["getitem", "loc", "take"][count % 3], "mode": "label",
                       "as_array": bool(count % 2), "index": {"form": "tuple", "ix": ixs}, "bare": True,
                       "_ixkinds": list(pat), "_src": "patterns"}

    def exhaustive_small(self):
        """rank <= 2, sizes <= 3, all label orders (as permutations of a fixed label set), all
        single-dimension index forms"""
        import itertools
        from fractions import Fraction
        pools = {"i": [1, 2, 3], "f": [Fraction(1, 2), Fraction(3, 2), Fraction(5, 2)], "O": ["a", "b", "c"]}
        for kind, pool in pools.items():
            for n in range(0, 4):
                for perm in itertools.permutations(pool[:n]):
                    labels = [gen.enc(v) for v in perm]
                    ax = {"name": "x", "kind": kind, "labels": labels}
                    other = {"name": "y", "kind": "i", "labels": [["n", 7, 1], ["n", 5, 1]]}
                    absent = gen.enc({"i": 9, "f": Fraction(9, 4), "O": "zz"}[kind])
                    forms = [["sc", l] for l in labels] + [["sc", absent], ["li", []], ["sl", None, None, None]]
                    for k in range(1, 3):
                        for combo in itertools.product(labels + [absent], repeat=k):
                            forms.append(["li", list(combo)])
                    for m in itertools.product([False, True], repeat=n):
                        forms.append(["ma", list(m)])
                    for f in forms:
                        for axes, ixs in (([ax], [f]), ([ax, other], [f, ["sl", None, None, None]]),
                                          ([other, ax], [["sc", ["n", 5, 1]], f])):
                            yield {"op": "take", "array": {"axes": axes, "vkind": "f"}, "option": "label",
                                   "spelling": "getitem", "mode": "label", "as_array": False,
                                   "index": {"form": "tuple", "ix": ixs}, "bare": False, "_ixkinds": ["exh"]}

    # ---------------------------------------------------------------- implementation side
    def impl(self, c):
        old = da.get_option("indexing.by")
        try:
            da.set_option("indexing.by", c["option"])
            a = build_case_array(c)
            self._last = a
            before = core.obs_array(a)
            c2 = copy.deepcopy(c)
            out = core.guarded(lambda: core.obs_array(call_take(a, c2)))
            after = core.obs_array(a)
            if before != after:
                out["operand_modified"] = True
            return out
        finally:
            da.set_option("indexing.by", old)

    DUMMY = {"op": "union", "a": {"name": "x", "kind": "i", "labels": []}, "b": {"name": "x", "kind": "i", "labels": []}, "join": "outer"}

    def lean_cfg(self, c):
        """configuration of the read for the Lean mirror, or None when the mirror has no such read: a full-shape
        mask under keepdims (the statement does not speak about it), tolerances that differ between the dimensions
        they matter for. A full-shape N-d mask goes to `Lib.compressNd` (driver op `compress_nd`): every accessor and
        every indexing mode reach `compress` before the mode is looked at (Lib.takeMaskNd, driver op `take_mask_nd`)."""
        if c["index"]["form"] == "boolnd":
            return None if c.get("keepdims") else cfg_of(c)
        cfg = cfg_of(c)
        axes = c["array"]["axes"]
        if any(ax.get("tol") is not None for ax in axes):
            if cfg["tol"] is not None:
                return None
            if effective_mode(c) == "label":
                try:
                    ixs = per_dim_indices(c)
                except Undecided:
                    return None
                tols = []
                for ax, x in zip(axes, ixs):
                    if x is not None and x[0] in ("sc", "li") and ax["kind"] in "if":
                        tols.append(ax.get("tol"))
                if any(t != tols[0] for t in tols):
                    return None
                if tols:
                    cfg["tol"] = tols[0]          # one tolerance for every dimension where it matters = tol= of the call
        if cfg["tol"] is not None and cfg["tol"][0] == "fin" and cfg["tol"][1] == 0:
            cfg["tol"] = None                     # a zero tolerance is an exact lookup
        return cfg

    def request(self, c):
        cfg = self.lean_cfg(c)
        if cfg is None:
            return dict(self.DUMMY)
        index = c["index"]
        if index["form"] == "boolnd":
            # a[mask] / .loc[mask] / take(mask) / compress(mask): Lib.takeMaskNd = Lib.compressNd (theorem take_mask_nd_spec)
            return {"op": "take_mask_nd", "arrays": [core.lean_array(gen.clean(c["array"]), None)], "mask": index["mask"],
                    "mshape": [len(ax["labels"]) for ax in c["array"]["axes"]], "cfg": cfg}
        if index["form"] == "axes":
            # an Axes object: Lib.takeAxesIndex (theorem take_axes_index_eq_labels: the tuple of its label lists)
            return {"op": "take_axes", "arrays": [core.lean_array(gen.clean(c["array"]), None)], "cfg": cfg,
                    "axes": [[k[1], x[1]] for k, x in index["items"]]}
        return {"op": "take", "arrays": [core.lean_array(gen.clean(c["array"]), None)], "index": index, "cfg": cfg}

    def verdict(self, c, io):
        """the oracle's verdict on the implementation's output (computed once per case)"""
        if "_oracle" not in io:
            r = oracle_take(c, {k: v for k, v in io.items() if k != "_oracle"})
            io["_oracle"] = {"decided": False} if r is None else {"decided": True, "bad": r[0], "expect": r[1]}
        return io["_oracle"]

    def judge(self, c, io, ans):
        short = lambda o: o if "err" in o else {k: o["ok"][k] for k in ("dims", "shape", "values")}
        v = self.verdict(c, io)
        if v["decided"] and v["bad"]:
            # a failing input of the property itself
            return {"kind": "P", "differs": list(v["bad"]), "pre": True, "by": "oracle", "expected": v["expect"],
                    "impl": short({k: x for k, x in io.items() if k != "_oracle"})}
        if io.get("operand_modified"):
            return {"kind": "P", "differs": ["operand_modified"], "pre": True}
        if self.lean_cfg(c) is None:
            return None
        lean = ans["lib"]
        if "ok" in lean and c["index"]["form"] == "boolnd":
            from props.c17 import compress_obs
            lean = {"ok": compress_obs(lean["ok"])}
        if "ok" in lean:
            a = core.build_array(c["array"], 0)
            env = core.CellEnv([a.values])
            lo = core.lean_obs_to_canon(lean["ok"], env)
            lo["scalar"] = len(lo["dims"]) == 0
            if lo["scalar"]:
                lo["attrs"] = None
            lean = {"ok": lo}
        bad = core.diff_obs(io, lean)
        if "ok" in io and "ok" in lean and io["ok"]["scalar"] != lean["ok"]["scalar"]:
            bad.append("scalar")
        pre = self.pre(c)
        mm = self.classify(bad, pre)
        if mm:
            mm["impl"] = short(io)
            mm["lean"] = short(lean)
        return mm

    P_OBS = Prop.P_OBS + ("scalar", "operand_modified")

    def pre(self, c):
        return True

    def nontrivial(self, c):
        ks = c.get("_ixkinds", [])
        return len(c["array"]["axes"]) >= 1 and any(k != "full" for k in ks)

    def features(self, c, io):
        f = {"outcome": "err:" + io["err"] if "err" in io else "ok", "rank": len(c["array"]["axes"]),
             "spelling": c["spelling"], "option": c["option"], "mode": c["mode"], "form": c["index"]["form"]}
        for k in c.get("_ixkinds", []):
            f["ix:" + k] = 1
        for ax in c["array"]["axes"]:
            f["order:" + ax.get("_order", "?")] = 1
            f["kind:" + ax["kind"]] = 1
        f["stratum"] = c.get("_stratum", "exhaustive" if c.get("_ixkinds") == ["exh"] else "base")
        f["tol"] = "nloc" if c["spelling"] == "nloc" else ("none" if c.get("tol") is None else ("inf" if c["tol"][0] == "inf" else
                                                                   ("zero" if c["tol"][1] == 0 else "finite")))
        ats = [ax["tol"] for ax in c["array"]["axes"] if ax.get("tol") is not None]
        f["axis_tol"] = "none" if not ats else ("uniform" if all(t == ats[0] for t in ats) else "mixed")
        f["keepdims"] = bool(c.get("keepdims"))
        f["requests_as"] = "ndarray" if c.get("as_array") else "list"
        f["warm"] = bool(c.get("warm"))
        if c["index"]["form"] == "boolnd":
            f["mask_as"] = c["index"].get("as")
            f["mask_selected"] = min(sum(1 for b in c["index"]["mask"] if b), 5)
        f["compared_with"] = "mirror+oracle" if self.lean_cfg(c) is not None else "oracle"
        v = self.verdict(c, io)
        f["oracle"] = "undecided" if not v["decided"] else ("error_demanded" if "err" in v["expect"] else "result_demanded")
        return f

    def size(self, c):
        return sum(len(ax["labels"]) for ax in c["array"]["axes"]) * 10 + len(str(c["index"])) + (5 if c.get("warm") else 0)

    def snippet(self, c):
        return ("import sys; sys.path.insert(0, '/verif/harness'); import json, core; from props.c01 import PROP; "
                "case = json.load(open(REPLAY))['case']; print(PROP.impl(case))")

    def reducers(self, c):
        # drop one dimension that is fully sliced, shorten lists
        out = []
        for k in ("warm", "keepdims"):
            if c.get(k):
                c2 = copy.deepcopy(c)
                del c2[k]
                out.append(c2)
        if c["index"]["form"] in ("dict", "axes") and len(c["index"]["items"]) > 1:
            for j in range(len(c["index"]["items"])):
                c2 = copy.deepcopy(c)
                del c2["index"]["items"][j]
                out.append(c2)
        if c["index"]["form"] in ("dict", "axes"):
            for j, (k, x) in enumerate(c["index"]["items"]):
                if x[0] == "li" and len(x[1]) > 1:
                    for i in range(len(x[1])):
                        c2 = copy.deepcopy(c)
                        del c2["index"]["items"][j][1][1][i]
                        out.append(c2)
        if c["index"]["form"] == "tuple":
            ixs = c["index"]["ix"]
            for d in range(len(c["array"]["axes"])):
                if d < len(ixs) and ixs[d] == ["sl", None, None, None] and not any(x[0] == "el" for x in ixs):
                    c2 = copy.deepcopy(c)
                    del c2["array"]["axes"][d]
                    del c2["index"]["ix"][d]
                    out.append(c2)
            for d, x in enumerate(ixs):
                if x[0] == "li" and len(x[1]) > 1:
                    for j in range(len(x[1])):
                        c2 = copy.deepcopy(c)
                        del c2["index"]["ix"][d][1][j]
                        out.append(c2)
        return out


PROP = C01()

"""C01 - label indexing returns exactly the data stored at those labels."""
import copy
import numpy as np
import core, gen
from core import da, DimArray
from .base import Prop

LABEL_SPELLINGS = ["getitem", "take", "loc", "sel", "take_dict", "take_dict_pos", "take_axis_name",
                   "take_axis_pos", "take_label", "ix_from_position"]
POS_SPELLINGS = ["ix", "iloc", "isel", "take_position", "getitem_position_option"]


def py_index(ixj, ax, as_array=False):
    """encoded per-dimension index -> python object"""
    t = ixj[0]
    kind = ax["kind"] if ax else "i"
    if t == "sc":
        return core.dec_label(ixj[1], kind)
    if t == "li":
        vals = [core.dec_label(v, kind) for v in ixj[1]]
        if as_array:
            if kind == "O":
                arr = np.empty(len(vals), dtype=object)
                for i, v in enumerate(vals):
                    arr[i] = v
                return arr
            if any(isinstance(v, str) for v in vals):
                arr = np.empty(len(vals), dtype=object)          # (an index beyond the last dimension has no axis kind)
                for i, v in enumerate(vals):
                    arr[i] = v
                return arr
            if kind == "i" and any(isinstance(v, float) for v in vals):
                return np.array(vals, dtype=np.float64)          # never truncate a non-integral request
            return np.array(vals, dtype={"i": np.int64, "f": np.float64}[kind])
        return vals
    if t == "ma":
        return np.array(ixj[1], dtype=bool)
    if t == "sl":
        s = None if ixj[1] is None else core.dec_label(ixj[1], kind)
        e = None if ixj[2] is None else core.dec_label(ixj[2], kind)
        return slice(s, e, ixj[3])
    if t == "el":
        return Ellipsis
    raise ValueError(ixj)


def make_key(c):
    """python index object(s) described by the case: ('tuple', key) | ('dict', d) | ('axis', ix, axis), kw"""
    sp = c["spelling"]
    axes = c["array"]["axes"]
    idx = c["index"]
    arr = c.get("as_array", False)
    posmode = c["mode"] == "position"
    fake = {"kind": "i"}

    def conv(ixj, d):
        return py_index(ixj, fake if posmode else (axes[d] if d is not None and d < len(axes) else fake), arr)

    tol = c.get("tol")
    tolv = None if tol is None else (np.inf if tol[0] == "inf" else float(tol[1]) / tol[2])
    kw = {}
    if tolv is not None and sp not in ("nloc",):
        kw["tol"] = tolv
    if c.get("keepdims"):
        kw["keepdims"] = True
    if idx["form"] == "tuple":
        nd = len(axes)
        ixs = idx["ix"]
        pos = []
        d = 0
        seen = False
        for x in ixs:
            if x[0] == "el":
                pos.append(None)
                if not seen:
                    d += max(nd + 1 - len(ixs), 0)
                    seen = True
                else:
                    d += 1
            else:
                pos.append(d)
                d += 1
        key = tuple(conv(x, p) for x, p in zip(ixs, pos))
        if len(key) == 1 and c.get("bare", False):
            key = key[0]
        return ("tuple", key), kw
    dims = [x["name"] for x in axes]
    if idx["form"] == "dict":
        d = {}
        for k, x in idx["items"]:
            if k[0] == "name":
                dpos = dims.index(k[1]) if k[1] in dims else None
                d[k[1]] = conv(x, dpos)
            else:
                dpos = k[1] if -len(dims) <= k[1] < len(dims) else None
                d[k[1]] = conv(x, dpos % len(dims) if dpos is not None and dims else None)
        return ("dict", d), kw
    if idx["form"] == "axis":
        k = idx["axis"]
        if k[0] == "name":
            dpos = dims.index(k[1]) if k[1] in dims else None
        else:
            dpos = k[1] % len(dims) if dims and -len(dims) <= k[1] < len(dims) else None
        return ("axis", conv(idx["ix"], dpos), k[1]), kw
    raise ValueError("bad case %r" % (c,))


def call_take(a, c):
    """perform the read described by the case on the real array"""
    sp = c["spelling"]
    k, kw = make_key(c)
    if k[0] == "tuple":
        key = k[1]
        if sp in ("getitem", "getitem_position_option"):
            return a[key]
        if sp == "take":
            return a.take(key, **kw)
        if sp == "loc":
            return a.loc[key]
        if sp == "nloc":
            return a.nloc[key]
        if sp in ("ix", "ix_from_position"):
            return a.ix[key]
        if sp == "iloc":
            return a.iloc[key]
        if sp == "take_label":
            return a.take(key, indexing="label", **kw)
        if sp == "take_position":
            return a.take(key, indexing="position", **kw)
    if k[0] == "dict":
        d = k[1]
        if sp == "sel":
            return a.sel(**d)
        if sp == "isel":
            return a.isel(**d)
        if sp == "take_position":
            return a.take(d, indexing="position", **kw)
        if sp == "loc":
            return a.loc[d]
        return a.take(d, **kw)
    if k[0] == "axis":
        if sp == "take_position":
            kw["indexing"] = "position"
        return a.take(k[1], axis=k[2], **kw)
    raise ValueError("bad case %r" % (c,))


def call_put(a, c, value):
    """perform the assignment described by the case; returns the modified array (a itself when in place)"""
    sp = c["spelling"]
    k, kw = make_key(c)
    kw.pop("keepdims", None)
    if c.get("cast"):
        kw["cast"] = True
    inplace = c.get("inplace", True)
    if k[0] == "tuple":
        key = k[1]
        if sp == "getitem" and inplace and not kw:
            a[key] = value
            return a
        if sp == "loc" and inplace and not kw:
            a.loc[key] = value
            return a
        if sp in ("ix", "ix_from_position") and inplace and not kw:
            a.ix[key] = value
            return a
        if sp == "iloc" and inplace and not kw:
            a.iloc[key] = value
            return a
        if sp in ("loc", "take_label"):
            kw["indexing"] = "label"
        if sp in ("ix", "iloc", "take_position", "ix_from_position", "getitem_position_option"):
            kw["indexing"] = "position" if c["mode"] == "position" else "label"
        r = a.put(key, value, inplace=inplace, **kw)
        return a if inplace else r
    if k[0] == "dict":
        if sp in ("isel", "take_position"):
            kw["indexing"] = "position"
        if sp in ("sel", "loc"):
            kw["indexing"] = "label"
        r = a.put(k[1], value, inplace=inplace, **kw)
        return a if inplace else r
    if k[0] == "axis":
        if sp == "take_position":
            kw["indexing"] = "position"
        r = a.put(k[1], value, axis=k[2], inplace=inplace, **kw)
        return a if inplace else r
    raise ValueError("bad case %r" % (c,))


def cfg_of(c):
    sp = c["spelling"]
    cfg = {"captured": c["option"], "indexing": None, "toggle": False, "tol": c.get("tol"),
           "keepdims": bool(c.get("keepdims", False))}
    if sp in ("loc", "sel", "take_label"):
        cfg["indexing"] = "label"
    elif sp == "nloc":
        cfg["indexing"] = "label"
        cfg["tol"] = ["inf"]
    elif sp in ("iloc", "isel", "take_position"):
        cfg["indexing"] = "position"
    elif sp in ("ix", "ix_from_position"):
        cfg["toggle"] = True
    return cfg


class C01(Prop):
    id = "C01"
    theorems = ["locateOne_spec", "locateOne_absent", "locateMany_found", "loc_list_spec", "loc_list_absent",
                "perDim_spec", "stages_spec", "take_spec", "take_get", "take_list_labels",
                "locateOne_tol_ok", "locateOne_tol_error", "locateOne_tol_inf", "locateOne_tol_exact", "loc_list_tol"]
    rule = ("arrays of rank 0-4, sizes 0-4, int/float/str labels stored increasing/decreasing/shuffled; per-dimension "
            "index from {present scalar, absent scalar, list with repeats/empty/absent members, ndarray, mask, full "
            "slice, Ellipsis}; spellings a[...], take, take(axis=name|pos), dict by name/position, .loc, .sel, .nloc, "
            "tol=, .ix/.iloc/.isel/indexing='position'; both values of option indexing.by. Non-trivial = rank >= 1 "
            "and at least one non-full index; distinct = canonical JSON of the case")
    assumptions = ["labels unique, NaN-free, homogeneous kind per axis",
                   "values[orthogonal_indexer(key)] is outer (np.ix_) selection (conformance-tested in thorough tier)"]
    all_branches = []

    def mirrors(self):
        from dimarray.core import indexing, bases, axes
        return {"locate_one": indexing.locate_one, "locate_many": indexing.locate_many,
                "loc": bases.AbstractAxis.loc, "_get_indices": bases.AbstractHasAxes._get_indices,
                "_getaxes_ortho": bases.AbstractHasAxes._getaxes_ortho, "_getitem": bases.AbstractDimArray._getitem,
                "expanded_indexer": indexing.expanded_indexer, "orthogonal_indexer": indexing.orthogonal_indexer,
                "Axis.__getitem__": axes.Axis.__getitem__}

    # ---------------------------------------------------------------- generation
    def gen_ix_label(self, rng, ax, allow_slice=False):
        n = len(ax["labels"])
        r = rng.random()
        if r < 0.22 and n > 0:
            return ["sc", rng.choice(ax["labels"])], "scalar"
        if r < 0.30:
            return ["sc", gen.absent_label(rng, ax, frac=True)], "absent_scalar"
        if r < 0.55:
            k = rng.randint(0, 4)
            vs = [rng.choice(ax["labels"]) for _ in range(k)] if n > 0 else []
            return ["li", vs], "list" if vs else "empty_list"
        if r < 0.63:
            k = rng.randint(1, 3)
            vs = [rng.choice(ax["labels"]) for _ in range(k)] if n > 0 else []
            vs.insert(rng.randint(0, len(vs)), gen.absent_label(rng, ax, frac=True))
            return ["li", vs], "list_absent"
        if r < 0.78:
            return ["ma", [rng.random() < 0.5 for _ in range(n)]], "mask"
        return ["sl", None, None, None], "full"

    def gen_ix_pos(self, rng, n):
        r = rng.random()
        if r < 0.25:
            return ["sc", ["n", rng.randint(-n - 1, n), 1]], "scalar"
        if r < 0.5:
            k = rng.randint(0, 4)
            return ["li", [["n", rng.randint(-n, n - 1) if n else 0, 1] for _ in range(k)] if n or rng.random() < 0.3 else []], "list"
        if r < 0.62:
            return ["ma", [rng.random() < 0.5 for _ in range(n)]], "mask"
        if r < 0.85:
            b = lambda: rng.choice([None, None] + list(range(-n - 2, n + 3)))
            s, e = b(), b()
            return ["sl", None if s is None else ["n", s, 1], None if e is None else ["n", e, 1],
                    rng.choice([None, 1, 2, 3, -1, -2])], "slice"
        return ["sl", None, None, None], "full"

    def gen_case(self, rng, tier):
        option = rng.choice(["label", "label", "position"])
        rank = rng.choice([0, 1, 1, 2, 2, 3, 3, 4])
        arr = gen.dtype_variants(rng, gen.rand_array(rng, rank=rank, maxn=4))
        axes = arr["axes"]
        want_pos = rng.random() < 0.3
        if want_pos:
            sp = rng.choice(["ix", "iloc", "isel", "take_position"] if option == "label"
                            else ["getitem_position_option", "iloc", "isel", "take_position", "take"])
            if option == "position" and sp == "ix":
                sp = "iloc"
        else:
            sp = rng.choice(["getitem", "take", "loc", "sel", "take_dict", "take_dict_pos", "take_axis_name",
                             "take_axis_pos", "take_label", "nloc", "tol"] if option == "label"
                            else ["loc", "sel", "take_label", "ix_from_position", "nloc"])
        mode = "position" if want_pos else "label"
        c = {"op": "take", "array": arr, "option": option, "spelling": sp, "mode": mode,
             "as_array": rng.random() < 0.4}
        kinds = []
        mk = (lambda d: self.gen_ix_pos(rng, len(axes[d]["labels"]))) if want_pos else (lambda d: self.gen_ix_label(rng, axes[d]))
        if sp in ("nloc", "tol"):
            # tolerance: numeric axes get near-miss labels
            c["spelling"] = "nloc" if sp == "nloc" else "take"
            if sp == "tol":
                c["tol"] = ["fin", rng.choice([1, 1, 3, 1]), rng.choice([8, 4, 8, 2])]
            ixs = []
            for d in range(rank):
                ax = axes[d]
                if ax["kind"] in "if" and ax["labels"] and rng.random() < 0.8:
                    def near():
                        b = rng.choice(ax["labels"])
                        from fractions import Fraction
                        v = Fraction(b[1], b[2]) + Fraction(rng.choice([-3, -1, 0, 0, 1, 2, 5]), 8)
                        return ["n", v.numerator, v.denominator]
                    if rng.random() < 0.5:
                        ixs.append(["sc", near()]); kinds.append("tol_scalar")
                    else:
                        ixs.append(["li", [near() for _ in range(rng.randint(0, 3))]]); kinds.append("tol_list")
                else:
                    ix, k = self.gen_ix_label(rng, ax)
                    ixs.append(ix); kinds.append(k)
            c["index"] = {"form": "tuple", "ix": ixs}
            c["as_array"] = False
            c["_ixkinds"] = kinds
            return c
        if sp in ("sel", "isel", "take_dict", "take_dict_pos"):
            ds = rng.sample(range(rank), rng.randint(0, rank)) if rank else []
            items = []
            for d in ds:
                ix, k = mk(d)
                kinds.append(k)
                key = ["name", axes[d]["name"]] if sp != "take_dict_pos" else ["pos", d if rng.random() < 0.7 else d - rank]
                items.append([key, ix])
            if sp != "take_dict_pos" and rng.random() < 0.05:
                items.append([["name", "nodim"], ["sl", None, None, None]])
            c["index"] = {"form": "dict", "items": items}
        elif sp in ("take_axis_name", "take_axis_pos"):
            if rank == 0:
                c["spelling"] = "take"
                c["index"] = {"form": "tuple", "ix": []}
            else:
                d = rng.randrange(rank)
                ix, k = mk(d)
                kinds.append(k)
                # (a negative position counts from the end, as everywhere else)
                key = ["name", axes[d]["name"]] if sp == "take_axis_name" else ["pos", d if rng.random() < 0.6 else d - rank]
                c["index"] = {"form": "axis", "ix": ix, "axis": key}
        else:
            if want_pos and sp in ("take_position",) and rng.random() < 0.3 and rank:
                ds = rng.sample(range(rank), rng.randint(1, rank))
                items = []
                for d in ds:
                    ix, k = mk(d); kinds.append(k)
                    items.append([["name", axes[d]["name"]], ix])
                c["index"] = {"form": "dict", "items": items}
            else:
                nix = rng.randint(0, rank) if rng.random() < 0.4 else rank
                if rng.random() < 0.04:
                    nix = rank + 1
                ixs = []
                for d in range(nix):
                    ix, k = mk(min(d, rank - 1)) if rank else (["sc", ["n", 0, 1]], "scalar")
                    ixs.append(ix); kinds.append(k)
                if rank >= 1 and rng.random() < 0.15:
                    # replace a run of leading/trailing/inner entries by an Ellipsis
                    p = rng.randint(0, len(ixs))
                    q = rng.randint(p, len(ixs))
                    tail = ixs[q:]
                    # indices after the ellipsis address the *last* dims: regenerate them for those dims
                    newtail = []
                    for j in range(len(tail)):
                        d = rank - len(tail) + j
                        ix, k = mk(d); newtail.append(ix); kinds.append(k)
                    ixs = ixs[:p] + [["el"]] + newtail
                    kinds.append("ellipsis")
                c["index"] = {"form": "tuple", "ix": ixs}
                c["bare"] = rng.random() < 0.5
        if rng.random() < 0.08 and sp in ("take", "take_label", "take_position"):
            c["keepdims"] = True
        c["_ixkinds"] = kinds
        return c

    def gen(self, rng, tier):
        n = 1500 if tier == "quick" else 40000
        for _ in range(n):
            yield self.gen_case(rng, tier)
        if tier == "thorough":
            for c in self.exhaustive_small():
                yield c

    def exhaustive_small(self):
        """rank <= 2, sizes <= 3, all label orders (as permutations of a fixed label set), all
        single-dimension index forms"""
        import itertools
        from fractions import Fraction
        pools = {"i": [1, 2, 3], "f": [Fraction(1, 2), Fraction(3, 2), Fraction(5, 2)], "O": ["a", "b", "c"]}
        for kind, pool in pools.items():
            for n in range(0, 4):
                for perm in itertools.permutations(pool[:n]):
                    labels = [gen.enc(v) for v in perm]
                    ax = {"name": "x", "kind": kind, "labels": labels}
                    other = {"name": "y", "kind": "i", "labels": [["n", 7, 1], ["n", 5, 1]]}
                    absent = gen.enc({"i": 9, "f": Fraction(9, 4), "O": "zz"}[kind])
                    forms = [["sc", l] for l in labels] + [["sc", absent], ["li", []], ["sl", None, None, None]]
                    for k in range(1, 3):
                        for combo in itertools.product(labels + [absent], repeat=k):
                            forms.append(["li", list(combo)])
                    for m in itertools.product([False, True], repeat=n):
                        forms.append(["ma", list(m)])
                    for f in forms:
                        for axes, ixs in (([ax], [f]), ([ax, other], [f, ["sl", None, None, None]]),
                                          ([other, ax], [["sc", ["n", 5, 1]], f])):
                            yield {"op": "take", "array": {"axes": axes, "vkind": "f"}, "option": "label",
                                   "spelling": "getitem", "mode": "label", "as_array": False,
                                   "index": {"form": "tuple", "ix": ixs}, "bare": False, "_ixkinds": ["exh"]}

    # ---------------------------------------------------------------- implementation side
    def impl(self, c):
        old = da.get_option("indexing.by")
        try:
            da.set_option("indexing.by", c["option"])
            a = core.build_array(c["array"], 0)
            self._last = a
            before = core.obs_array(a)
            c2 = copy.deepcopy(c)
            out = core.guarded(lambda: core.obs_array(call_take(a, c2)))
            after = core.obs_array(a)
            if before != after:
                out["operand_modified"] = True
            return out
        finally:
            da.set_option("indexing.by", old)

    def request(self, c):
        return {"op": "take", "arrays": [core.lean_array(gen.clean(c["array"]), None)], "index": c["index"],
                "cfg": cfg_of(c)}

    def judge(self, c, io, ans):
        lean = ans["lib"]
        if "ok" in lean:
            a = core.build_array(c["array"], 0)
            env = core.CellEnv([a.values])
            lo = core.lean_obs_to_canon(lean["ok"], env)
            lo["scalar"] = len(lo["dims"]) == 0
            if lo["scalar"]:
                lo["attrs"] = None
            lean = {"ok": lo}
        bad = core.diff_obs(io, lean)
        if "ok" in io and "ok" in lean and io["ok"]["scalar"] != lean["ok"]["scalar"]:
            bad.append("scalar")
        if io.get("operand_modified"):
            bad.append("operand_modified")
        pre = self.pre(c)
        mm = self.classify(bad, pre)
        if mm:
            mm["impl"] = io if "err" in io else {k: io["ok"][k] for k in ("dims", "shape", "values")}
            mm["lean"] = lean if "err" in lean else {k: lean["ok"][k] for k in ("dims", "shape", "values")}
        return mm

    P_OBS = Prop.P_OBS + ("scalar", "operand_modified")

    def pre(self, c):
        return True

    def nontrivial(self, c):
        ks = c.get("_ixkinds", [])
        return len(c["array"]["axes"]) >= 1 and any(k != "full" for k in ks)

    def features(self, c, io):
        f = {"outcome": "err:" + io["err"] if "err" in io else "ok", "rank": len(c["array"]["axes"]),
             "spelling": c["spelling"], "option": c["option"], "mode": c["mode"], "form": c["index"]["form"]}
        for k in c.get("_ixkinds", []):
            f["ix:" + k] = 1
        for ax in c["array"]["axes"]:
            f["order:" + ax.get("_order", "?")] = 1
            f["kind:" + ax["kind"]] = 1
        return f

    def size(self, c):
        return sum(len(ax["labels"]) for ax in c["array"]["axes"]) * 10 + len(str(c["index"]))

    def snippet(self, c):
        return ("import sys; sys.path.insert(0, '/verif/harness'); import json, core; from props.c01 import PROP; "
                "case = json.load(open(REPLAY))['case']; print(PROP.impl(case))")

    def reducers(self, c):
        # drop one dimension that is fully sliced, shorten lists
        out = []
        if c["index"]["form"] == "tuple":
            ixs = c["index"]["ix"]
            for d in range(len(c["array"]["axes"])):
                if d < len(ixs) and ixs[d] == ["sl", None, None, None] and not any(x[0] == "el" for x in ixs):
                    c2 = copy.deepcopy(c)
                    del c2["array"]["axes"][d]
                    del c2["index"]["ix"][d]
                    out.append(c2)
            for d, x in enumerate(ixs):
                if x[0] == "li" and len(x[1]) > 1:
                    for j in range(len(x[1])):
                        c2 = copy.deepcopy(c)
                        del c2["index"]["ix"][d][1][j]
                        out.append(c2)
        return out


PROP = C01()

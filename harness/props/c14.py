"""C14 - Dataset-wide operations equal the per-variable operations."""
import copy, itertools, math, warnings
from fractions import Fraction
import numpy as np
import core, gen
from core import da, Axis, DimArray, Dataset
from .base import Prop
from .c06 import lab_key
from . import c01


def gen_dataset(rng, nvars=None, numeric=False, minn=1):
    """description of a dataset: shared axes + variables over subsets of the dimensions (some 0-d)"""
    ndims = rng.randint(1, 3)
    dims = rng.sample(gen.DIMS, ndims)
    axes = {}
    for d in dims:
        kind = rng.choice(["i", "f"]) if numeric else rng.choice(["i", "f", "O"])
        axes[d] = gen.clean(gen.rand_axis(rng, d, kind=kind, n=rng.randint(minn, 3)))
    nvars = nvars or rng.randint(1, 4)
    vars_ = {}
    for k in range(nvars):
        key = "v%d" % k
        sub = [d for d in dims if rng.random() < 0.65]
        rng.shuffle(sub)
        if k == 0 and not sub:
            sub = [dims[0]]
        vars_[key] = {"dims": sub, "vkind": rng.choice(["f", "f", "i"])}
    used = [d for d in dims if any(d in v["dims"] for v in vars_.values())]
    return {"axes": {d: axes[d] for d in used}, "dims": used, "vars": vars_, "attrs": {"title": "T", "n": 1}}


def build_dataset(dd, base=0):
    ds = Dataset()
    arrs = {}
    for i, (key, v) in enumerate(dd["vars"].items()):
        axes = [core.build_axis(dd["axes"][d]) for d in v["dims"]]
        shape = tuple(len(dd["axes"][d]["labels"]) for d in v["dims"])
        vals = core.make_values(shape, v["vkind"], base + i)
        a = DimArray(vals, axes=axes)
        a.attrs["long_name"] = key
        arrs[key] = a
    # insert in an order that makes the dataset axes follow dd["dims"] where possible
    for key in dd["vars"]:
        ds[key] = arrs[key]
    for k, v in dd["attrs"].items():
        ds.attrs[k] = v
    return ds


def obs_ds(ds, toks=None):
    out = {"keys": list(ds.keys()), "dims": list(ds.dims), "vars": {}, "attrs": dict(ds.attrs), "shared": True}
    for k in ds.keys():
        v = dict.__getitem__(ds, k)
        out["vars"][k] = core.obs_array(v)
        for ax in v.axes:
            if not any(ax is dax for dax in ds.axes):
                out["shared"] = False
    used = set(d for k in ds.keys() for d in dict.__getitem__(ds, k).dims)
    out["dims_used"] = sorted(used) == sorted(ds.dims)
    return out


def rv(v):
    if v[0] == "n":
        return ["r", float("%.10e" % (v[1] / v[2]))]
    return v


def same_obs(x, y, keys=("dims", "shape", "values")):
    for k in keys:
        if k == "values":
            if [rv(v) for v in x[k]] != [rv(v) for v in y[k]]:
                return False
        elif x[k] != y[k]:
            return False
    return [(a["name"], [lab_key(l) for l in a["labels"]]) for a in x["axes"]] == [(a["name"], [lab_key(l) for l in a["labels"]]) for a in y["axes"]]


class C14(Prop):
    id = "C14"
    theorems = ["labelToInt_intCast", "ixToRaw_rawToIx", "dsTake_perdim_commutes", "fullslice_both_modes", "DSV.setItem_shared", "DSV.takeAxisPosDs_spec", "DSV.takeAxisPosDs_ok", "DSV.sortAxisDs_spec", "DSV.reindexAxisDs_spec", "DSV.takeDs_spec", "DSV.takeDs_sameData", "DSV.firstDraft_counterexample"]
    rule = ("Datasets of 1-4 variables whose dimension sets overlap partially (some variables lack the operated dimension, "
            "some are 0-d), int/float/str labels in any order; take / .ix / .loc / .sel / .isel with scalar, list, mask and slice "
            "indices, reductions (mean sum var std median), take_axis, sort_axis, reindex_axis (with missing labels), "
            "interp_axis, arithmetic (dataset op dataset, dataset op scalar, unary minus), stack_ds and concatenate_ds of 2-3 "
            "datasets; every result is compared variable by variable with the corresponding DimArray operation on that "
            "variable, and checked for the shared-axes rule and the dataset-level metadata. Non-trivial = at least two "
            "variables with different dimension sets; distinct = canonical JSON")
    assumptions = ["the per-variable DimArray operations are the subject of C01 C02 C04 C07 C08 C12 C17 C18"]

    def mirrors(self):
        import sys as _s
        d = _s.modules["dimarray.dataset"]
        return {"Dataset.take": d.Dataset.take, "_apply_dimarray_axis": d.Dataset._apply_dimarray_axis, "reduce_axis": d.Dataset.reduce_axis,
                "take_axis": d.Dataset.take_axis, "sort_axis": d.Dataset.sort_axis, "reindex_axis": d.Dataset.reindex_axis,
                "interp_axis": d.Dataset.interp_axis, "_binary_op": d.Dataset._binary_op, "_unary_op": d.Dataset._unary_op,
                "stack_ds": d.stack_ds, "concatenate_ds": d.concatenate_ds}

    # ------------------------------------------------------------ generation
    def gen(self, rng, tier):
        n = 600 if tier == "quick" else 15000
        for _ in range(n):
            r = rng.random()
            if r < 0.3:
                dd = gen_dataset(rng)
                d = rng.choice(dd["dims"])
                ax = dd["axes"][d]
                sp = rng.choice(["take_dict", "loc", "sel", "ix", "isel", "take_axisarg"])
                posmode = sp in ("ix", "isel")
                if posmode:
                    ix, k = c01.PROP.gen_ix_pos(rng, len(ax["labels"]))
                else:
                    ix, k = c01.PROP.gen_ix_label(rng, dict(ax, _order="?"))
                    if rng.random() < 0.2 and ax["labels"]:
                        ix = ["sl", rng.choice(ax["labels"]), None, None] if ax["kind"] == "O" else ["sl", None, rng.choice(ax["labels"]), None]
                second = None
                if len(dd["dims"]) > 1 and rng.random() < 0.4 and sp in ("take_dict", "loc", "sel", "isel"):
                    d2 = rng.choice([x for x in dd["dims"] if x != d])
                    ix2, _ = (c01.PROP.gen_ix_pos(rng, len(dd["axes"][d2]["labels"])) if posmode else c01.PROP.gen_ix_label(rng, dict(dd["axes"][d2], _order="?")))
                    second = [d2, ix2]
                yield {"op": "take", "ds": dd, "dim": d, "ix": ix, "spelling": sp, "second": second, "keepdims": rng.random() < 0.1}
            elif r < 0.45:
                dd = gen_dataset(rng)
                d = rng.choice(dd["dims"])
                yield {"op": "reduce", "ds": dd, "dim": d, "fn": rng.choice(["mean", "sum", "var", "std", "median"]),
                       "by": rng.choice(["name", "pos"])}
            elif r < 0.62:
                dd = gen_dataset(rng)
                d = rng.choice(dd["dims"])
                ax = dd["axes"][d]
                which = rng.choice(["take_axis", "sort_axis", "reindex_axis"])
                c = {"op": which, "ds": dd, "dim": d, "by": rng.choice(["name", "pos"])}
                if which == "sort_axis" and len(ax["labels"]) >= 2 and rng.random() < 0.4:
                    # repeated labels: the Dataset and the per-variable sort must move the same slices
                    k = rng.randrange(1, len(ax["labels"]))
                    ax["labels"][k] = ax["labels"][0]
                    c["_duplicates"] = True
                if which == "sort_axis" and rng.random() < 0.35:
                    # a long axis with repeated labels and an explicit sorting algorithm: above 16 entries NumPy's
                    # quicksort and heapsort reorder equal keys, kind='stable'/'mergesort' must not - for the Dataset as
                    # for each variable
                    base = ax["labels"] or [gen.absent_label(rng, ax)]
                    ax["labels"] = [rng.choice(base) for _ in range(rng.randint(17, 24))]
                    c["_duplicates"] = True
                    c["sort_kind"] = rng.choice(["stable", "mergesort", "stable", "quicksort", "heapsort", None])
                if which == "take_axis":
                    c["indices"] = [rng.choice(ax["labels"]) for _ in range(rng.randint(1, 3))]
                if which == "reindex_axis":
                    from .c07 import new_labels
                    c["labels"], _ = new_labels(rng, ax)
                    c["fill"] = rng.choice([None, None, 0.5, -1.5, 7])      # explicit fills that an integer variable cannot hold
                yield c
            elif r < 0.72:
                dd = gen_dataset(rng, numeric=True, minn=2)
                d = rng.choice(dd["dims"])
                xs = sorted(Fraction(l[1], l[2]) for l in dd["axes"][d]["labels"])
                pts = [xs[0] - 1, (xs[0] + xs[-1]) / 2, xs[-1], xs[-1] + 2][:rng.randint(1, 4)]
                yield {"op": "interp_axis", "ds": dd, "dim": d, "labels": [gen.enc(p) for p in pts], "by": "name"}
            elif r < 0.85:
                dd = gen_dataset(rng)
                how = rng.choice(["ds_ds", "ds_ds_other", "ds_ds_other", "scalar", "neg", "rscalar"])
                c = {"op": "arith", "ds": dd, "how": how, "operator": rng.choice(["add", "sub", "mul"])}
                if how == "ds_ds_other":
                    # the right operand carries labels the left one lacks (and lacks some the left one has)
                    d = rng.choice(dd["dims"])
                    ax = dd["axes"][d]
                    other = copy.deepcopy(dd)
                    labs = list(ax["labels"])
                    new = gen.absent_label(rng, ax)
                    mode = rng.choice(["append", "replace_first", "prepend"])
                    if mode == "append" or not labs:
                        labs = labs + [new]
                    elif mode == "prepend":
                        labs = [new] + labs
                    else:
                        labs = labs[1:] + [new]
                    other["axes"][d] = dict(ax, labels=labs)
                    c["other"] = other
                yield c
            else:
                # stack_ds / concatenate_ds: several datasets with the same variables and dims
                dd = gen_dataset(rng, nvars=rng.randint(1, 3))
                for v in dd["vars"].values():
                    if not v["dims"]:
                        v["dims"] = [dd["dims"][0]]
                    # concatenate_ds needs the axis in every variable
                    if dd["dims"][0] not in v["dims"]:
                        v["dims"] = [dd["dims"][0]] + v["dims"]
                k = rng.choice([2, 3])
                yield {"op": rng.choice(["stack_ds", "concatenate_ds"]), "ds": dd, "n": k, "keys": rng.choice([None, "str"]),
                       "dim": dd["dims"][0]}

    # ------------------------------------------------------------ implementation side
    def key_of(self, c, ds):
        d = c["dim"]
        return d if c.get("by", "name") == "name" else list(ds.dims).index(d)

    def impl(self, c):
        ds = build_dataset(c["ds"])
        before = obs_ds(ds)
        op = c["op"]

        def per_var(fn):
            """expected: the DimArray operation on every variable that has the dimension"""
            out = {}
            for k in ds.keys():
                v = ds[k]
                if c.get("dim") is None or c["dim"] in v.dims:
                    out[k] = core.guarded(lambda: core.obs_array(fn(v)))
                else:
                    out[k] = {"ok": core.obs_array(v)}
            return out

        def run():
            with warnings.catch_warnings():
                warnings.simplefilter("ignore")
                if op == "take":
                    d = c["dim"]
                    ax = c["ds"]["axes"][d]
                    posmode = c["spelling"] in ("ix", "isel")
                    fake = {"kind": "i"}
                    idx = {d: c01.py_index(c["ix"], fake if posmode else ax)}
                    if c["second"]:
                        d2, ix2 = c["second"]
                        idx[d2] = c01.py_index(ix2, fake if posmode else c["ds"]["axes"][d2])
                    kw = {"keepdims": True} if c["keepdims"] else {}
                    sp = c["spelling"]
                    if sp == "take_dict":
                        r = ds.take(indices=dict(idx), **kw)
                    elif sp == "loc":
                        r = ds.loc[dict(idx)]
                    elif sp == "sel":
                        r = ds.sel(**idx)
                    elif sp == "isel":
                        r = ds.isel(**idx)
                    elif sp == "ix":
                        r = ds.ix[{k: v for k, v in idx.items()}]
                    else:
                        r = ds.take(indices=idx[d], axis=d, **kw)
                    mode = "position" if posmode else "label"
                    kw2 = dict(kw) if sp in ("take_dict", "take_axisarg") else {}
                    exp = {}
                    for k in ds.keys():
                        v = ds[k]
                        sub = {dd_: i for dd_, i in idx.items() if dd_ in v.dims}
                        if sp == "take_axisarg":
                            sub = {d: idx[d]} if d in v.dims else {}
                        exp[k] = core.guarded(lambda: core.obs_array(v.take(dict(sub), indexing=mode, **kw2)))
                    return r, exp, True
                if op == "reduce":
                    r = getattr(ds, c["fn"])(axis=self.key_of(c, ds))
                    return r, per_var(lambda v: getattr(v, c["fn"])(axis=c["dim"])), False
                if op == "take_axis":
                    kind = c["ds"]["axes"][c["dim"]]["kind"]
                    ix = core.label_array(c["indices"], kind)
                    r = ds.take_axis(ix, axis=self.key_of(c, ds))
                    return r, per_var(lambda v: v.take_axis(ix, axis=c["dim"])), True
                if op == "sort_axis":
                    kws = {"kind": c["sort_kind"]} if c.get("sort_kind") else {}
                    r = ds.sort_axis(axis=self.key_of(c, ds), **kws)
                    return r, per_var(lambda v: v.sort_axis(axis=c["dim"], **kws)), True
                if op == "reindex_axis":
                    kind = c["ds"]["axes"][c["dim"]]["kind"]
                    lab = core.label_array(c["labels"], kind)
                    kw = {} if c.get("fill") is None else {"fill_value": c["fill"]}
                    r = ds.reindex_axis(lab, axis=self.key_of(c, ds), **kw)
                    return r, per_var(lambda v: v.reindex_axis(lab, axis=c["dim"], **kw)), True
                if op == "interp_axis":
                    lab = core.label_array(c["labels"], "f")
                    r = ds.interp_axis(lab, axis=c["dim"])
                    return r, per_var(lambda v: v.interp_axis(lab, axis=c["dim"])), True
                if op == "arith":
                    import operator
                    f = {"add": operator.add, "sub": operator.sub, "mul": operator.mul}[c["operator"]]
                    if c["how"] in ("ds_ds", "ds_ds_other"):
                        other = build_dataset(c.get("other") or c["ds"], base=7)
                        r = f(ds, other)
                        exp = {k: core.guarded(lambda: core.obs_array(f(ds[k], other[k]))) for k in ds.keys()}
                    elif c["how"] == "scalar":
                        r = f(ds, 3)
                        exp = {k: core.guarded(lambda: core.obs_array(f(ds[k], 3))) for k in ds.keys()}
                    elif c["how"] == "rscalar":
                        r = f(3, ds)
                        exp = {k: core.guarded(lambda: core.obs_array(f(3, ds[k]))) for k in ds.keys()}
                    else:
                        r = -ds
                        exp = {k: core.guarded(lambda: core.obs_array(-ds[k])) for k in ds.keys()}
                    return r, exp, False
                if op in ("stack_ds", "concatenate_ds"):
                    dss = [build_dataset(c["ds"], base=10 * i) for i in range(c["n"])]
                    if op == "stack_ds":
                        keys = None if c["keys"] is None else ["k%d" % i for i in range(c["n"])]
                        r = da.stack_ds(dss, axis="stk", keys=keys)
                        exp = {k: core.guarded(lambda: core.obs_array(da.stack([d_[k] for d_ in dss], axis="stk", keys=keys))) for k in ds.keys()}
                    else:
                        r = da.concatenate_ds(dss, axis=c["dim"])
                        exp = {k: core.guarded(lambda: core.obs_array(da.concatenate([d_[k] for d_ in dss], axis=c["dim"]))) for k in ds.keys()}
                    return r, exp, False
                raise ValueError(op)
        try:
            r, exp, keep_attrs = run()
            out = {"ok": {"result": obs_ds(r), "expected": exp, "keep_attrs": keep_attrs}}
        except RecursionError:
            out = {"err": "recursion", "msg": "RecursionError"}
        except Exception as e:  # noqa
            out = {"err": core.exc_class(e), "msg": "%s: %s" % (type(e).__name__, str(e)[:200])}
            # what the per-variable operations do on the same input
            try:
                out["expected_errors"] = True
            except Exception:
                pass
        out["input"] = before
        if obs_ds(ds) != before:
            out["operand_modified"] = True
        return out

    LEAN_OPS = ("take", "reduce", "take_axis", "sort_axis", "reindex_axis")

    @staticmethod
    def unstable_sort(c):
        """a long axis with repeated labels sorted by an algorithm that is not stable: the order among equal labels is
        NumPy's business (the model's argsort is the stable one); the commuting square is still checked on the implementation"""
        return c["op"] == "sort_axis" and "sort_kind" in c and c["sort_kind"] not in ("stable", "mergesort")

    def lean_vars(self, c):
        """the Dataset's variables as arrays for the Lean side (cells of variable k are `src k i`)"""
        dd = c["ds"]
        toks = core.AttrTokens()
        arrs = []
        for key, v in dd["vars"].items():
            arrs.append(core.lean_array({"axes": [gen.clean(dd["axes"][d]) for d in v["dims"]], "vkind": v["vkind"],
                                         "attrs_py": {"long_name": key}}, toks))
        return list(dd["vars"]), arrs, toks

    def request(self, c):
        op = c["op"]
        if op not in self.LEAN_OPS or (op == "take" and c["second"]) or self.unstable_sort(c):
            # interp / arithmetic / stack_ds / concatenate_ds and two-dimensional takes: decided by the commuting
            # square on the implementation only
            return {"op": "union", "a": {"name": "x", "kind": "i", "labels": []}, "b": {"name": "x", "kind": "i", "labels": []}, "join": "outer"}
        keys, arrs, toks = self.lean_vars(c)
        r = {"op": "ds_op", "keys": keys, "arrays": arrs, "dim": c["dim"], "fn": op, "attrs": toks.enc(c["ds"]["attrs"])}
        if op == "take":
            posmode = c["spelling"] in ("ix", "isel")
            r["ix"] = c["ix"]
            r["cfg"] = {"captured": "label", "indexing": "position" if posmode else "label", "toggle": False, "tol": None,
                        "keepdims": bool(c["keepdims"]) and c["spelling"] in ("take_dict", "take_axisarg")}
        elif op == "take_axis":
            r["labels"] = c["indices"]
        elif op == "reindex_axis":
            r["labels"] = c["labels"]
            r["newkind"] = c["ds"]["axes"][c["dim"]]["kind"]
            if any(l[0] == "n" and l[2] != 1 for l in c["labels"]) and r["newkind"] == "i":
                r["newkind"] = "f"
            r["fillkind"] = "f" if c.get("fill") is None or isinstance(c["fill"], float) else "i"
        return r

    def lean_vs_impl(self, c, io, ans):
        """correspondence: the Lean Dataset model against the Dataset implementation"""
        lean = ans.get("lib")
        if c["op"] not in self.LEAN_OPS or (c["op"] == "take" and c["second"]) or self.unstable_sort(c) or not isinstance(lean, dict) or ("ok" not in lean and "err" not in lean):
            return []
        if "err" in io or "err" in lean:
            if ("err" in io) != ("err" in lean):
                return ["lean.outcome"]
            return []          # (the class of the error is not part of C14)
        res = io["ok"]["result"]
        lo = lean["ok"]
        bad = []
        if sorted(res["keys"]) != sorted(lo["keys"]):
            return ["lean.keys"]
        if res["dims"] != lo["dims"]:
            bad.append("lean.dims")
        ds = build_dataset(c["ds"])
        fill = np.nan if c.get("fill") is None else c["fill"]
        red = None
        if c["op"] == "reduce":
            from .c08 import expected_red
            red = expected_red(c["fn"], True)
        env = core.CellEnv([ds[k].values for k in c["ds"]["vars"]], fill=fill, red=red)
        for k in res["keys"]:
            got = res["vars"][k]
            lv = core.lean_obs_to_canon(lo["vars"][k], env)
            if got["dims"] != lv["dims"] or got["shape"] != lv["shape"]:
                bad.append("lean.var:%s:dims" % k)
            elif [(a["name"], [lab_key(l) for l in a["labels"]]) for a in got["axes"]] != [(a["name"], [lab_key(l) for l in a["labels"]]) for a in lv["axes"]]:
                bad.append("lean.var:%s:labels" % k)
            elif [rv(v) for v in got["values"]] != [rv(v) for v in lv["values"]]:
                bad.append("lean.var:%s:values" % k)
        return bad

    def judge(self, c, io, ans):
        prop_bad = []
        if "err" in io:
            # the dataset operation may only fail if the per-variable operation fails too
            if not self.per_var_fails(c):
                prop_bad.append("outcome:" + io["err"])
        else:
            res, exp = io["ok"]["result"], io["ok"]["expected"]
            if sorted(res["keys"]) != sorted(exp.keys()):
                prop_bad.append("keys")
            else:
                for k, e in exp.items():
                    if "err" in e:
                        prop_bad.append("per_variable_fails:" + k)
                        continue
                    got = res["vars"][k]
                    if e["ok"]["scalar"]:
                        # a 0-d result is stored as a 0-d variable
                        if got["dims"] != [] or [rv(v) for v in got["values"]] != [rv(v) for v in e["ok"]["values"]]:
                            prop_bad.append("var:" + k)
                    elif not same_obs(got, e["ok"]):
                        prop_bad.append("var:" + k)
            if not res["shared"]:
                prop_bad.append("not_shared")
            if not res["dims_used"]:
                prop_bad.append("dims_not_used")
            if io["ok"]["keep_attrs"] and res["attrs"] != io["input"]["attrs"]:
                prop_bad.append("dataset_attrs")
        if io.get("operand_modified"):
            prop_bad.append("operand_modified")
        bad = [] if prop_bad else self.lean_vs_impl(c, io, ans)
        if not prop_bad and not bad:
            return None
        return {"kind": "P" if prop_bad else "M", "differs": sorted(set(prop_bad + bad)), "msg": io.get("msg")}

    def per_var_fails(self, c):
        """does the corresponding DimArray operation fail on some variable that has the dimension?"""
        ds = build_dataset(c["ds"])
        op = c["op"]
        try:
            with warnings.catch_warnings():
                warnings.simplefilter("ignore")
                for k in ds.keys():
                    v = ds[k]
                    if op == "take":
                        d = c["dim"]
                        posmode = c["spelling"] in ("ix", "isel")
                        idx = {d: c01.py_index(c["ix"], {"kind": "i"} if posmode else c["ds"]["axes"][d])}
                        if c["second"]:
                            idx[c["second"][0]] = c01.py_index(c["second"][1], {"kind": "i"} if posmode else c["ds"]["axes"][c["second"][0]])
                        # the index is resolved on the dataset's axes: it fails iff it fails on an axis itself
                        for dd_, i in idx.items():
                            ax = ds.axes[dd_]
                            if posmode:
                                ax.values[i]
                            else:
                                ax.loc(i)
                    elif c["dim"] in v.dims:
                        if op == "reduce":
                            getattr(v, c["fn"])(axis=c["dim"])
                        elif op == "take_axis":
                            v.take_axis(core.label_array(c["indices"], c["ds"]["axes"][c["dim"]]["kind"]), axis=c["dim"])
                        elif op == "reindex_axis":
                            v.reindex_axis(core.label_array(c["labels"], c["ds"]["axes"][c["dim"]]["kind"]), axis=c["dim"])
                        elif op == "sort_axis":
                            v.sort_axis(axis=c["dim"])
                        elif op == "interp_axis":
                            v.interp_axis(core.label_array(c["labels"], "f"), axis=c["dim"])
            return False
        except Exception:
            return True

    def known(self, c, io, ans, mm, open_findings):
        return None

    def nontrivial(self, c):
        sets = set(tuple(sorted(v["dims"])) for v in c["ds"]["vars"].values())
        return len(sets) >= 2

    def features(self, c, io):
        f = {"outcome": "err:" + io["err"] if "err" in io else "ok", "op": c["op"], "nvars": len(c["ds"]["vars"]),
             "has_0d": any(not v["dims"] for v in c["ds"]["vars"].values()),
             "lacking": any(c.get("dim") not in v["dims"] for v in c["ds"]["vars"].values()) if c.get("dim") else None}
        for k in ("spelling", "fn", "how"):
            if k in c:
                f[k] = c[k]
        return f

    def size(self, c):
        return 50 * len(c["ds"]["vars"]) + sum(len(a["labels"]) for a in c["ds"]["axes"].values())

    def snippet(self, c):
        return ("import sys; sys.path.insert(0, '/verif/harness'); import json, core; from props.c14 import PROP; "
                "case = json.load(open(REPLAY))['case']; print(PROP.impl(case))")


PROP = C14()

"""C14 - Dataset-wide operations equal the per-variable operations."""
import copy, itertools, math, warnings, operator
from fractions import Fraction
import numpy as np
import core, gen
from core import da, Axis, DimArray, Dataset
from core import Axes
from .base import Prop
from .c06 import lab_key
from . import c01


def gen_dataset(rng, nvars=None, numeric=False, minn=1, nans=False):
    """description of a dataset: shared axes + variables over subsets of the dimensions (some 0-d)"""
    ndims = rng.randint(1, 3)
    dims = rng.sample(gen.DIMS, ndims)
    axes = {}
    for d in dims:
        kind = rng.choice(["i", "f"]) if numeric else rng.choice(["i", "f", "O"])
        axes[d] = gen.clean(gen.rand_axis(rng, d, kind=kind, n=rng.randint(minn, 3)))
        axes[d]["attrs_py"] = {"units": "u_" + d}          # axis metadata: compared with what the DimArray operation keeps
    nvars = nvars or rng.randint(1, 4)
    vars_ = {}
    for k in range(nvars):
        key = "v%d" % k
        sub = [d for d in dims if rng.random() < 0.65]
        rng.shuffle(sub)
        if k == 0 and not sub:
            sub = [dims[0]]
        vars_[key] = {"dims": sub, "vkind": rng.choice(["f", "f", "i"])}
        if nans and vars_[key]["vkind"] == "f" and rng.random() < 0.7:
            n = 1
            for d in sub:
                n *= len(axes[d]["labels"])
            vars_[key]["nan_at"] = sorted(i for i in range(n) if rng.random() < 0.4)
    used = [d for d in dims if any(d in v["dims"] for v in vars_.values())]
    return {"axes": {d: axes[d] for d in used}, "dims": used, "vars": vars_, "attrs": {"title": "T", "n": 1}}


def ds_dims(dd):
    """the dimensions of the built dataset in its own order: the order in which the variables bring them"""
    out = []
    for v in dd["vars"].values():
        for d in v["dims"]:
            if d not in out:
                out.append(d)
    return out


def build_dataset(dd, base=0):
    ds = Dataset()
    arrs = {}
    for i, (key, v) in enumerate(dd["vars"].items()):
        axes = [core.build_axis(dd["axes"][d]) for d in v["dims"]]
        shape = tuple(len(dd["axes"][d]["labels"]) for d in v["dims"])
        vals = core.make_values(shape, v["vkind"], base + i, v.get("nan_at", ()))
        a = DimArray(vals, axes=axes)
        a.attrs["long_name"] = key
        arrs[key] = a
    # insert in an order that makes the dataset axes follow dd["dims"] where possible
    for key in dd["vars"]:
        ds[key] = arrs[key]
    for k, v in dd["attrs"].items():
        ds.attrs[k] = v
    return ds


TOKS = core.AttrTokens()


def obs_ds(ds, toks=None):
    out = {"keys": list(ds.keys()), "dims": list(ds.dims), "vars": {}, "attrs": dict(ds.attrs), "shared": True}
    for k in ds.keys():
        v = dict.__getitem__(ds, k)
        out["vars"][k] = core.obs_array(v, TOKS)
        for ax in v.axes:
            if not any(ax is dax for dax in ds.axes):
                out["shared"] = False
    used = set(d for k in ds.keys() for d in dict.__getitem__(ds, k).dims)
    out["dims_used"] = sorted(used) == sorted(ds.dims)
    out["dims_cover"] = used <= set(ds.dims) and len(set(ds.dims)) == len(ds.dims)
    return out


def obs_ref(x):
    """observation of a per-variable reference result"""
    return core.obs_array(x, TOKS)


def rv(v):
    if v[0] == "n":
        return ["r", float("%.10e" % (v[1] / v[2]))]
    return v


def same_obs(x, y, keys=("dims", "shape", "values")):
    for k in keys:
        if k == "values":
            if [rv(v) for v in x[k]] != [rv(v) for v in y[k]]:
                return False
        elif x[k] != y[k]:
            return False
    return [(a["name"], [lab_key(l) for l in a["labels"]]) for a in x["axes"]] == [(a["name"], [lab_key(l) for l in a["labels"]]) for a in y["axes"]]


def aligned_onto(got, e):
    """`got` is the array `e` reindexed onto longer axes: same dimensions, every label of `e` present (once), the cells at
    e's labels are e's cells, all other cells NaN"""
    if got["dims"] != e["dims"]:
        return False
    pos = []
    for ga, ea in zip(got["axes"], e["axes"]):
        gk = [lab_key(l) for l in ga["labels"]]
        ek = [lab_key(l) for l in ea["labels"]]
        if len(set(gk)) != len(gk) or any(k not in gk for k in ek):
            return False
        pos.append([gk.index(k) for k in ek])
    gshape, eshape = got["shape"], e["shape"]
    seen = set()
    for n, idx in enumerate(itertools.product(*[range(m) for m in eshape])):
        flat = 0
        for ax, i in enumerate(idx):
            flat = flat * gshape[ax] + pos[ax][i]
        seen.add(flat)
        if rv(got["values"][flat]) != rv(e["values"][n]):
            return False
    return all(got["values"][i] == ["nan"] for i in range(len(got["values"])) if i not in seen)


def meta_diff(got, e, skip_axes=()):
    """what else the result of a DimArray operation consists of: the variable's metadata, the metadata of its axes, the
    dtype kinds of values and labels (of non-empty arrays)"""
    out = []
    if sorted(map(tuple, got["attrs"] or [])) != sorted(map(tuple, e["attrs"] or [])):
        out.append("attrs")
    if [sorted(map(tuple, a["attrs"])) for a in got["axes"] if a["name"] not in skip_axes] != \
            [sorted(map(tuple, a["attrs"])) for a in e["axes"] if a["name"] not in skip_axes]:
        out.append("axis_attrs")
    if got["values"] and got["vkind"] != e["vkind"]:
        out.append("kind")
    if [a["kind"] for a in got["axes"] if a["labels"]] != [a["kind"] for a in e["axes"] if a["labels"]]:
        out.append("label_kind")
    return out


def vary_dataset(rng, dd, concat_dim=None, taken=None):
    """another dataset with the same variables and dimensions whose axes differ from dd's: secondary axes with some
    labels dropped / added / reordered, the concatenation axis with labels of its own"""
    out = copy.deepcopy(dd)
    for d in dd["dims"]:
        ax = out["axes"][d]
        L = list(ax["labels"])
        if d == concat_dim:
            how = rng.choice(["fresh", "fresh", "same", "longer"])
            if how != "same":
                n = len(L) + (1 if how == "longer" else 0)
                new = []
                for _ in range(n):
                    l = gen.absent_label(rng, dict(ax, labels=taken + new))
                    new.append(l)
                taken.extend(new)
                ax["labels"] = new
            continue
        how = rng.choice(["same", "same", "same", "drop", "add", "permute", "replace"])
        if how == "drop" and len(L) > 1:
            del L[rng.randrange(len(L))]
        elif how == "add":
            L.insert(rng.randint(0, len(L)), gen.absent_label(rng, ax))
        elif how == "permute" and len(L) > 1:
            L = L[1:] + L[:1]
        elif how == "replace":
            L[rng.randrange(len(L))] = gen.absent_label(rng, ax)
        ax["labels"] = L
    return out


OPERATORS = {"add": operator.add, "sub": operator.sub, "mul": operator.mul, "truediv": operator.truediv,
             "floordiv": operator.floordiv, "pow": operator.pow,
             "iadd": operator.iadd, "isub": operator.isub, "imul": operator.imul}
DUMMY = {"op": "union", "a": {"name": "x", "kind": "i", "labels": []}, "b": {"name": "x", "kind": "i", "labels": []}, "join": "outer"}


class C14(Prop):
    id = "C14"
    theorems = ["labelToInt_intCast", "ixToRaw_rawToIx", "dsTake_perdim_commutes", "fullslice_both_modes", "DSV.setItem_shared", "DSV.takeAxisPosDs_spec", "DSV.takeAxisPosDs_ok", "DSV.sortAxisDs_spec", "DSV.reindexAxisDs_spec", "DSV.takeDs_spec", "DSV.takeDs_sameData", "DSV.firstDraft_counterexample",
                "DSV.mapVarsDs_spec", "DSV.unaryOpDs_spec", "DSV.rbinaryOpDs_scalar_spec", "DSV.rbinaryOpDs_other", "DSV.rbinaryOpDs_not_binaryOpDs",
                "DSV.stackDsA_noalign", "DSV.concatenateDsA_noalign", "DSV.stackDsA_spec",
                "DSV.takeDsMulti_attrs", "DSV.takeDsMulti_spec_raw", "DSV.takeDsMulti_spec_take", "DSV.takeRaw_eq_take", "DSV.getIndices_mask", "DSV.takeDsMulti_dup_counterexample", "DSV.takeRaw_axes_sub", "DSV.takeDsMulti_closed", "DSV.foldlM_takeStep", "DSV.takeAxisIntsDs_spec", "DSV.takeAxisIntsDs_ok", "DSV.takePos_modes", "DSV.reindexAxisDsM_spec",
                "DSV.reindexAxisDsM_default", "DSV.reindexAxisDsM_raise", "DSV.reindexAxisDsM_ok", "DSV.reduceAllDs_spec",
                "DSV.concatenateDsA_spec", "DSV.rbinaryOpDs_ok", "DSV.rbinaryOpDs_ok_iff"]
    rule = ("Datasets of 1-4 variables whose dimension sets overlap partially (some variables lack the operated dimension, "
            "some are 0-d), int/float/str labels in any order, variables and axes carrying metadata; take / .ix / .loc / .sel / "
            ".isel / .nloc with scalar, list, mask and slice indices given as dict, keyword, axis= or tuple, names=, tol=, "
            "keepdims; reductions (mean sum var std median; axis by name, position, negative position or default; skipna= on "
            "data with NaNs); take_axis (labels, or positions with mode raise/clip/wrap), sort_axis, reindex_axis (missing "
            "labels, fill values, raise_error, method, values as array / list / Axis), interp_axis (axis by name or position), "
            "reindex_like / interp_like (template Dataset / DimArray / Axes), copy, interp_axis with left / right fills, arithmetic (+ - * / // ** and augmented "
            "assignment; dataset op dataset with equal, differing or partly common variables, dataset op scalar, unary minus), "
            "stack_ds and concatenate_ds of 2-3 datasets whose secondary axes differ, with and without align / sort / join, "
            "keys, list / tuple / dict containers; every result is compared variable by variable with the corresponding "
            "DimArray operation on that variable (values, dims, labels, variable and axis metadata, dtype kinds), and checked "
            "for the shared-axes rule and the dataset-level metadata; the Dataset operation fails exactly when one of the "
            "per-variable operations does. Non-trivial = at least two variables with different dimension sets; distinct = "
            "canonical JSON. Lean tie (model compared): besides the round-5 forms, the unary minus (`DSV.unaryOpDs`), the "
            "reflected non-commutative operators with a scalar on the left (`DSV.rbinaryOpDs`: the scalar is the LEFT argument), "
            "stack_ds / concatenate_ds with align=True and join= / sort= (`DSV.stackDsA` / `DSV.concatenateDsA`: the Datasets are "
            "aligned with `DSV.alignDs` = Dataset.reindex_axis onto the common axes; the value kind of the joined variables is "
            "NumPy's promotion and is not compared); take_axis with indexing='position', raw (negative, out-of-range) positions and "
            "mode raise / clip / wrap, the axis by name or Dataset position (`DSV.takeAxisIntsDs`: positions resolved once on the "
            "Dataset's axis as np.take does); reindex_axis with method='left'/'right' (no fill, labels patched) and raise_error=True "
            "(`DSV.reindexAxisDsM`); reductions with axis=None (`DSV.reduceAllDs`: every variable, the 0-d ones too, reduced over "
            "all its cells and stored 0-d; no axes left)")
    assumptions = ["the per-variable DimArray operations are the subject of C01 C02 C04 C07 C08 C12 C17 C18"]

    def mirrors(self):
        import sys as _s
        d = _s.modules["dimarray.dataset"]
        return {"Dataset.take": d.Dataset.take, "_apply_dimarray_axis": d.Dataset._apply_dimarray_axis, "reduce_axis": d.Dataset.reduce_axis,
                "take_axis": d.Dataset.take_axis, "sort_axis": d.Dataset.sort_axis, "reindex_axis": d.Dataset.reindex_axis,
                "interp_axis": d.Dataset.interp_axis, "_binary_op": d.Dataset._binary_op, "_unary_op": d.Dataset._unary_op,
                "stack_ds": d.stack_ds, "concatenate_ds": d.concatenate_ds, "reindex_like": d.Dataset.reindex_like,
                "interp_like": d.Dataset.interp_like, "copy": d.Dataset.copy}

    # ------------------------------------------------------------ generation
    def gen(self, rng, tier):
        n = 900 if tier == "quick" else 20000
        for _ in range(n):
            r = rng.random()
            if r < 0.25:
                yield self.gen_take(rng)
            elif r < 0.38:
                dd = gen_dataset(rng, nans=rng.random() < 0.5)
                by = rng.choice(["name", "pos", "name", "pos", "neg", "default", "none"])
                order = ds_dims(dd)
                d = order[0] if by == "default" else rng.choice(dd["dims"])
                c = {"op": "reduce", "ds": dd, "dim": d, "fn": rng.choice(["mean", "sum", "var", "std", "median"]), "by": by}
                if by == "none":
                    # axis=None: every variable - the 0-d ones too - is reduced over all its cells
                    c["dim"] = None
                if rng.random() < 0.5:
                    c["skipna"] = rng.random() < 0.6
                yield c
            elif r < 0.55:
                yield self.gen_axis_op(rng)
            elif r < 0.62:
                dd = gen_dataset(rng, numeric=True, minn=2)
                d = rng.choice(dd["dims"])
                xs = sorted(Fraction(l[1], l[2]) for l in dd["axes"][d]["labels"])
                pts = [xs[0] - 1, (xs[0] + xs[-1]) / 2, xs[-1], xs[-1] + 2][:rng.randint(1, 4)]
                yield {"op": "interp_axis", "ds": dd, "dim": d, "labels": [gen.enc(p) for p in pts], "by": rng.choice(["name", "name", "pos", "neg"])}
            elif r < 0.70:
                yield self.gen_like(rng)
            elif r < 0.83:
                yield self.gen_arith(rng)
            else:
                yield self.gen_join(rng)
        # appended after the main stream (which is left as it was): the two forms that only the comparison with the
        # model needs - a plain copy (mirror `DSV.copyDs`) and interp_axis with explicit left / right fills
        for _ in range(n // 15):
            if rng.random() < 0.5:
                yield {"op": "copy", "ds": gen_dataset(rng, nans=rng.random() < 0.3)}
            else:
                dd = gen_dataset(rng, numeric=True, minn=2)
                d = rng.choice(dd["dims"])
                xs = sorted(Fraction(l[1], l[2]) for l in dd["axes"][d]["labels"])
                pts = [xs[0] - 1, xs[-1] + 2, (xs[0] + xs[-1]) / 2, xs[0], xs[-1] + Fraction(1, 2), xs[0] - Fraction(1, 4)]
                rng.shuffle(pts)
                c = {"op": "interp_axis", "ds": dd, "dim": d, "labels": [gen.enc(p) for p in pts[:rng.randint(1, 6)]],
                     "by": rng.choice(["name", "name", "pos", "neg"])}
                c["left"], c["right"] = rng.choice([(-5.5, 7.25), (-5.5, None), (None, 7.25), (0.0, 0.0)])
                yield c

    def gen_take(self, rng):
        dd = gen_dataset(rng)
        d = rng.choice(dd["dims"])
        ax = dd["axes"][d]
        q = rng.random()
        if q < 0.12:
            # the index as a tuple over the dataset's dimensions (in the dataset's order)
            order = ds_dims(dd)
            k = rng.randint(1, len(order))
            tup = []
            for dn in order[:k]:
                ix, _ = c01.PROP.gen_ix_label(rng, dict(dd["axes"][dn], _order="?"))
                tup.append(ix)
            return {"op": "take", "ds": dd, "dim": order[0], "ix": tup[0], "spelling": "take_tuple", "second": None, "keepdims": rng.random() < 0.1,
                    "tuple": tup}
        numeric_dims = [x for x in dd["dims"] if dd["axes"][x]["kind"] in "if" and dd["axes"][x]["labels"]]
        if q < 0.24 and numeric_dims:
            # nearest-label lookup: tol= / .nloc with requests a little off the labels
            d = rng.choice(numeric_dims)
            ax = dd["axes"][d]

            def near():
                b = rng.choice(ax["labels"])
                return gen.enc(Fraction(b[1], b[2]) + rng.choice([Fraction(1, 8), Fraction(-1, 8), 0, Fraction(1, 2)]))
            ix = ["sc", near()] if rng.random() < 0.5 else ["li", [near() for _ in range(rng.randint(0, 3))]]
            sp = rng.choice(["take_tol", "nloc"])
            c = {"op": "take", "ds": dd, "dim": d, "ix": ix, "spelling": sp, "second": None, "keepdims": False}
            if sp == "take_tol":
                c["tol"] = rng.choice([["n", 1, 4], ["n", 1, 4], ["n", 1, 16], ["n", 1, 1]])
            return c
        sp = rng.choice(["take_dict", "loc", "sel", "ix", "isel", "take_axisarg"])
        posmode = sp in ("ix", "isel")
        if posmode:
            ix, k = c01.PROP.gen_ix_pos(rng, len(ax["labels"]))
        else:
            ix, k = c01.PROP.gen_ix_label(rng, dict(ax, _order="?"))
            if rng.random() < 0.2 and ax["labels"]:
                ix = ["sl", rng.choice(ax["labels"]), None, None] if ax["kind"] == "O" else ["sl", None, rng.choice(ax["labels"]), None]
        second = None
        if len(dd["dims"]) > 1 and rng.random() < 0.4 and sp in ("take_dict", "loc", "sel", "isel"):
            d2 = rng.choice([x for x in dd["dims"] if x != d])
            ix2, _ = (c01.PROP.gen_ix_pos(rng, len(dd["axes"][d2]["labels"])) if posmode else c01.PROP.gen_ix_label(rng, dict(dd["axes"][d2], _order="?")))
            second = [d2, ix2]
        c = {"op": "take", "ds": dd, "dim": d, "ix": ix, "spelling": sp, "second": second, "keepdims": rng.random() < 0.1}
        if sp in ("take_dict", "take_axisarg") and len(dd["vars"]) > 1 and rng.random() < 0.3:
            # names=: only these variables are read (one holder of every indexed dimension among them)
            keys = list(dd["vars"])
            need = [d] + ([second[0]] if second else [])
            names = [k_ for k_ in keys if rng.random() < 0.5]
            for dn in need:
                holders = [k_ for k_ in keys if dn in dd["vars"][k_]["dims"]]
                if not any(h in names for h in holders):
                    names.append(rng.choice(holders))
            rng.shuffle(names)
            c["names"] = names
        return c

    def gen_axis_op(self, rng):
        dd = gen_dataset(rng)
        d = rng.choice(dd["dims"])
        ax = dd["axes"][d]
        which = rng.choice(["take_axis", "sort_axis", "reindex_axis", "reindex_axis"])
        c = {"op": which, "ds": dd, "dim": d, "by": rng.choice(["name", "pos", "name", "pos", "neg"])}
        if which == "sort_axis" and len(ax["labels"]) >= 2 and rng.random() < 0.4:
            # repeated labels: the Dataset and the per-variable sort must move the same slices
            k = rng.randrange(1, len(ax["labels"]))
            ax["labels"][k] = ax["labels"][0]
            c["_duplicates"] = True
        if which == "sort_axis" and rng.random() < 0.35:
            # a long axis with repeated labels and an explicit sorting algorithm: above 16 entries NumPy's
            # quicksort and heapsort reorder equal keys, kind='stable'/'mergesort' must not - for the Dataset as
            # for each variable
            base = ax["labels"] or [gen.absent_label(rng, ax)]
            ax["labels"] = [rng.choice(base) for _ in range(rng.randint(17, 24))]
            c["_duplicates"] = True
            c["sort_kind"] = rng.choice(["stable", "mergesort", "stable", "quicksort", "heapsort", None])
        if which == "take_axis":
            if rng.random() < 0.4:
                # positions, with NumPy's out-of-range policies
                n = len(ax["labels"])
                c["indexing"] = "position"
                c["mode"] = rng.choice([None, "raise", "clip", "wrap"])
                c["positions"] = [rng.randint(-n - 2, n + 2) if rng.random() < 0.35 else rng.randint(-n, n - 1) for _ in range(rng.randint(0, 4))]
            else:
                c["indices"] = [rng.choice(ax["labels"]) for _ in range(rng.randint(1, 3))]
                if rng.random() < 0.25:
                    c["indexing"] = "label"          # (spelled out)
        if which == "reindex_axis":
            from .c07 import new_labels
            c["labels"], _ = new_labels(rng, ax)
            c["fill"] = rng.choice([None, None, 0.5, -1.5, 7])      # explicit fills that an integer variable cannot hold
            q = rng.random()
            if q < 0.2:
                c["raise_error"] = True
            elif q < 0.35:
                # (method='right' takes searchsorted's right side: it differs from 'left' on every label that is present)
                c["method"] = rng.choice(["left", "right"])
            c["vform"] = rng.choice(["array", "array", "list", "axis"])
        return c

    def gen_like(self, rng):
        fn = rng.choice(["reindex_like", "reindex_like", "interp_like"])
        dd = gen_dataset(rng, numeric=(fn == "interp_like"), minn=2 if fn == "interp_like" else 1)
        from .c07 import new_labels
        tdims = [d for d in dd["dims"] if rng.random() < 0.7]
        taxes = []
        for d in tdims:
            ax = dd["axes"][d]
            if fn == "interp_like":
                xs = sorted(Fraction(l[1], l[2]) for l in ax["labels"])
                pts = [xs[0], (xs[0] + xs[-1]) / 2, xs[-1], xs[-1] + 2, xs[0] - 1][:rng.randint(1, 5)]
                labels = [gen.enc(p) for p in sorted(pts)]
                kind = "f"
            else:
                labels, _ = new_labels(rng, ax, how=rng.choice(["subset", "superset", "permuted", "same", "mixed", "disjoint"]))
                kind = ax["kind"]
            taxes.append({"name": d, "kind": kind, "labels": labels})
        if rng.random() < 0.4:
            # a dimension of the template that the dataset does not have
            free = [x for x in gen.DIMS + ["t"] if x not in dd["dims"]]
            labels, _ = gen.labels_of_kind(rng, "i", rng.randint(1, 3))
            taxes.insert(rng.randint(0, len(taxes)), {"name": rng.choice(free), "kind": "i", "labels": labels})
        c = {"op": "like", "fn": fn, "ds": dd, "template": taxes, "other": rng.choice(["dataset", "dimarray", "axes"])}
        if fn == "reindex_like" and rng.random() < 0.3:
            c["fill"] = rng.choice([0.5, 7])
        return c

    def gen_arith(self, rng):
        dd = gen_dataset(rng)
        how = rng.choice(["ds_ds", "ds_ds_other", "ds_ds_other", "ds_ds_keys", "ds_ds_keys", "scalar", "scalar", "neg", "rscalar", "iscalar", "ids",
                          "ds_ds_dims", "ds_ds_dims"])
        c = {"op": "arith", "ds": dd, "how": how, "operator": rng.choice(["add", "sub", "mul", "truediv", "floordiv"])}
        if how == "scalar" and rng.random() < 0.25:
            c["operator"] = "pow"
        if how == "rscalar":
            # (the reflected operators that do not commute go through Dataset._rbinary_op)
            c["operator"] = rng.choice(["add", "mul", "sub", "truediv", "floordiv", "pow"])
        if how in ("iscalar", "ids"):
            c["operator"] = rng.choice(["iadd", "isub", "imul"])
        if how == "ds_ds_other":
            # the right operand carries labels the left one lacks (and lacks some the left one has)
            d = rng.choice(dd["dims"])
            ax = dd["axes"][d]
            other = copy.deepcopy(dd)
            labs = list(ax["labels"])
            new = gen.absent_label(rng, ax)
            mode = rng.choice(["append", "replace_first", "prepend"])
            if mode == "append" or not labs:
                labs = labs + [new]
            elif mode == "prepend":
                labs = [new] + labs
            else:
                labs = labs[1:] + [new]
            other["axes"][d] = dict(ax, labels=labs)
            c["other"] = other
        if how == "ds_ds_dims":
            # the right operand's variables lie over other dimension sets (a variable has a dimension in one operand only)
            # and its axis along one dimension has other labels: the per-variable results do not all have the same labels
            # along that dimension, the Dataset holds them on their outer join (see aligned_onto)
            d = rng.choice(dd["dims"])
            ax = dd["axes"][d]
            other = copy.deepcopy(dd)
            new = gen.absent_label(rng, ax)
            other["axes"][d] = dict(ax, labels=rng.choice([list(ax["labels"]) + [new], [new] + list(ax["labels"])[1:], list(ax["labels"])]))
            for v in other["vars"].values():
                if rng.random() < 0.5:
                    v["dims"] = [x for x in v["dims"] if x != d] if d in v["dims"] else v["dims"] + [d]
            if rng.random() < 0.3:
                # a variable of the right operand only, over a dimension whose labels are of another kind there (no variable
                # operation meets that axis)
                free = [x for x in other["dims"] if not any(x in v["dims"] for v in other["vars"].values())]
                if free:
                    labels, _ = gen.labels_of_kind(rng, "O" if other["axes"][free[0]]["kind"] != "O" else "i", 2)
                    other["axes"][free[0]] = dict(other["axes"][free[0]], kind="O" if other["axes"][free[0]]["kind"] != "O" else "i", labels=labels)
                    other["vars"]["w9"] = {"dims": [free[0]], "vkind": "f"}
            other["dims"] = [x for x in other["dims"] if any(x in v["dims"] for v in other["vars"].values())]
            other["axes"] = {x: other["axes"][x] for x in other["dims"]}
            c["other"] = other
        if how == "ds_ds_keys":
            # the operands have different sets of variables: the result has the common ones
            other = copy.deepcopy(dd)
            keys = list(other["vars"])
            drop = [k for k in keys if rng.random() < 0.4]
            for k in drop:
                del other["vars"][k]
            if rng.random() < 0.6 or not other["vars"]:
                sub = [d for d in dd["dims"] if rng.random() < 0.5]
                other["vars"]["w9"] = {"dims": sub, "vkind": "f"}
            if rng.random() < 0.5:
                other["vars"] = dict(reversed(list(other["vars"].items())))
            other["dims"] = [d for d in other["dims"] if any(d in v["dims"] for v in other["vars"].values())]
            other["axes"] = {d: other["axes"][d] for d in other["dims"]}
            c["other"] = other
        return c

    def gen_join(self, rng):
        # stack_ds / concatenate_ds: several datasets with the same variables and dims
        dd = gen_dataset(rng, nvars=rng.randint(1, 3))
        for v in dd["vars"].values():
            if not v["dims"]:
                v["dims"] = [dd["dims"][0]]
            # concatenate_ds needs the axis in every variable
            if dd["dims"][0] not in v["dims"]:
                v["dims"] = [dd["dims"][0]] + v["dims"]
        k = rng.choice([2, 3])
        op = rng.choice(["stack_ds", "concatenate_ds"])
        c = {"op": op, "ds": dd, "n": k, "keys": rng.choice([None, "str"]), "dim": dd["dims"][0]}
        if rng.random() < 0.75:
            # inputs whose axes differ, and the options that deal with it
            taken = list(dd["axes"][c["dim"]]["labels"])
            c["list"] = [dd] + [vary_dataset(rng, dd, c["dim"] if op == "concatenate_ds" else None, taken) for _ in range(k - 1)]
            if rng.random() < 0.2:
                c["list"][1] = copy.deepcopy(dd) if op == "stack_ds" else c["list"][1]
            if rng.random() < 0.7:
                c["align"] = True
                if rng.random() < 0.4:
                    c["sort"] = True
                if rng.random() < 0.5:
                    c["join"] = rng.choice(["outer", "inner", "inner"])
            c["container"] = rng.choice(["list", "list", "tuple"] + (["dict"] if op == "stack_ds" else []))
            if op == "concatenate_ds":
                c["by"] = rng.choice(["name", "pos", "default"])
                if c["by"] == "default" and ds_dims(dd)[0] != c["dim"]:
                    c["by"] = "name"
                # (an integer axis, also the default 0, is a position in the DATASET: the variables may hold the dimension
                # at another position)
        return c

    # ------------------------------------------------------------ implementation side
    def key_of(self, c, ds):
        d = c["dim"]
        by = c.get("by", "name")
        if by in ("name", "default"):
            return d
        i = list(ds.dims).index(d)
        return i if by == "pos" else i - len(ds.dims)

    def impl(self, c):
        ds = build_dataset(c["ds"])
        before = obs_ds(ds)
        op = c["op"]
        out = {}

        def per_var(fn, keys=None):
            """expected: the DimArray operation on every variable that has the dimension"""
            exp = {}
            for k in (keys if keys is not None else ds.keys()):
                v = ds[k]
                if c.get("dim") is None or c["dim"] in v.dims:
                    exp[k] = core.guarded(lambda: obs_ref(fn(v)))
                else:
                    exp[k] = {"ok": obs_ref(v)}
            return exp

        def plan():
            """(the Dataset call, the per-variable references, is the dataset-level metadata stated to be kept)"""
            if op == "take":
                return self.plan_take(c, ds)
            if op == "reduce":
                kw = {} if c.get("skipna") is None else {"skipna": c["skipna"]}
                akw = {} if c.get("by") == "default" else {"axis": None} if c.get("by") == "none" else {"axis": self.key_of(c, ds)}
                return (lambda: getattr(ds, c["fn"])(**akw, **kw)), per_var(lambda v: getattr(v, c["fn"])(axis=c["dim"], **kw)), False
            if op == "take_axis":
                kind = c["ds"]["axes"][c["dim"]]["kind"]
                kw = {}
                if c.get("indexing"):
                    kw["indexing"] = c["indexing"]
                if c.get("mode"):
                    kw["mode"] = c["mode"]
                ix = np.array(c["positions"], dtype=np.int64) if c.get("indexing") == "position" else core.label_array(c["indices"], kind)
                return (lambda: ds.take_axis(ix, axis=self.key_of(c, ds), **kw)), per_var(lambda v: v.take_axis(ix, axis=c["dim"], **kw)), True
            if op == "sort_axis":
                kws = {"kind": c["sort_kind"]} if c.get("sort_kind") else {}
                return (lambda: ds.sort_axis(axis=self.key_of(c, ds), **kws)), per_var(lambda v: v.sort_axis(axis=c["dim"], **kws)), True
            if op == "reindex_axis":
                kind = c["ds"]["axes"][c["dim"]]["kind"]
                lab = core.label_array(c["labels"], kind)
                kw = {} if c.get("fill") is None else {"fill_value": c["fill"]}
                if c.get("raise_error"):
                    kw["raise_error"] = True
                if c.get("method"):
                    kw["method"] = c["method"]
                vf = c.get("vform", "array")
                if vf == "axis":
                    return (lambda: ds.reindex_axis(Axis(lab, c["dim"]), **kw)), per_var(lambda v: v.reindex_axis(Axis(lab, c["dim"]), **kw)), True
                val = (lambda: lab.tolist()) if vf == "list" else (lambda: lab)
                return (lambda: ds.reindex_axis(val(), axis=self.key_of(c, ds), **kw)), per_var(lambda v: v.reindex_axis(val(), axis=c["dim"], **kw)), True
            if op == "interp_axis":
                lab = core.label_array(c["labels"], "f")
                fkw = {k: c[k] for k in ("left", "right") if c.get(k) is not None}
                return (lambda: ds.interp_axis(lab, axis=self.key_of(c, ds), **fkw)), per_var(lambda v: v.interp_axis(lab, axis=c["dim"], **fkw)), True
            if op == "copy":
                return (lambda: ds.copy()), per_var(lambda v: v.copy()), True
            if op == "like":
                other = self.build_template(c)
                kw = {} if c.get("fill") is None else {"fill_value": c["fill"]}
                f = c["fn"]
                return (lambda: getattr(ds, f)(other, **kw)), {k: core.guarded(lambda: obs_ref(getattr(ds[k], f)(other, **kw))) for k in ds.keys()}, False
            if op == "arith":
                f = OPERATORS[c["operator"]]
                if c["how"] in ("ds_ds", "ds_ds_other", "ds_ds_keys", "ds_ds_dims", "ids"):
                    other = build_dataset(c.get("other") or c["ds"], base=7)
                    g = {"iadd": operator.add, "isub": operator.sub, "imul": operator.mul}.get(c["operator"], f)
                    exp = {k: core.guarded(lambda: obs_ref(g(ds[k], other[k]))) for k in ds.keys() if k in other.keys()}
                    return (lambda: f(ds, other)), exp, False
                if c["how"] in ("scalar", "iscalar"):
                    s = 2 if c["operator"] == "pow" else 3
                    g = {"iadd": operator.add, "isub": operator.sub, "imul": operator.mul}.get(c["operator"], f)
                    return (lambda: f(ds, s)), {k: core.guarded(lambda: obs_ref(g(ds[k], s))) for k in ds.keys()}, False
                if c["how"] == "rscalar":
                    return (lambda: f(3, ds)), {k: core.guarded(lambda: obs_ref(f(3, ds[k]))) for k in ds.keys()}, False
                return (lambda: -ds), {k: core.guarded(lambda: obs_ref(-ds[k])) for k in ds.keys()}, False
            if op in ("stack_ds", "concatenate_ds"):
                descs = c.get("list") or [c["ds"]] * c["n"]
                dss = [build_dataset(d_, base=10 * i) for i, d_ in enumerate(descs)]
                kw = {}
                if c.get("align"):
                    kw["align"] = True
                    if c.get("sort"):
                        kw["sort"] = True
                    if c.get("join"):
                        kw["join"] = c["join"]
                cont = c.get("container", "list")
                if op == "stack_ds":
                    keys = None if c["keys"] is None else ["k%d" % i for i in range(c["n"])]
                    if cont == "dict":
                        names = keys or ["k%d" % i for i in range(c["n"])]
                        call = lambda: da.stack_ds(dict(zip(names, dss)), axis="stk", **kw)
                        exp = {k: core.guarded(lambda: obs_ref(da.stack(dict(zip(names, [d_[k] for d_ in dss])), axis="stk", **kw))) for k in ds.keys()}
                    else:
                        arg = tuple(dss) if cont == "tuple" else dss
                        call = lambda: da.stack_ds(arg, axis="stk", keys=keys, **kw)
                        exp = {k: core.guarded(lambda: obs_ref(da.stack([d_[k] for d_ in dss], axis="stk", keys=keys, **kw))) for k in ds.keys()}
                else:
                    by = c.get("by", "name")
                    akw = {} if by == "default" else {"axis": c["dim"] if by == "name" else list(dss[0].dims).index(c["dim"])}
                    arg = tuple(dss) if cont == "tuple" else dss
                    call = lambda: da.concatenate_ds(arg, **akw, **kw)
                    exp = {k: core.guarded(lambda: obs_ref(da.concatenate([d_[k] for d_ in dss], axis=c["dim"], **kw))) for k in ds.keys()}
                return call, exp, False
            raise ValueError(op)

        with warnings.catch_warnings():
            warnings.simplefilter("ignore")
            call, exp, keep_attrs = plan()
            try:
                r = call()
                out = {"ok": {"result": obs_ds(r), "keep_attrs": keep_attrs}}
                if op == "arith" and c["operator"].startswith("i"):
                    out["ok"]["rebound"] = r is not ds
            except RecursionError:
                out = {"err": "recursion", "msg": "RecursionError"}
            except Exception as e:  # noqa
                out = {"err": core.exc_class(e), "msg": "%s: %s" % (type(e).__name__, str(e)[:200])}
        out["expected"] = exp
        out["input"] = before
        if obs_ds(ds) != before:
            out["operand_modified"] = True
        return out

    def plan_take(self, c, ds):
        d = c["dim"]
        ax = c["ds"]["axes"][d]
        sp = c["spelling"]
        posmode = sp in ("ix", "isel")
        fake = {"kind": "i"}
        kw = {"keepdims": True} if c["keepdims"] else {}
        if sp == "take_tuple":
            order = list(ds.dims)
            idx = {dn: c01.py_index(ix, c["ds"]["axes"][dn]) for dn, ix in zip(order, c["tuple"])}
            tup = tuple(idx[dn] for dn in order[:len(c["tuple"])])
            call = lambda: ds.take(indices=tup, **kw)
            kw2 = dict(kw)
        elif sp in ("take_tol", "nloc"):
            idx = {d: c01.py_index(c["ix"], dict(ax, kind="f"))}
            if sp == "take_tol":
                tol = c["tol"][1] / c["tol"][2]
                call = lambda: ds.take(indices=dict(idx), tol=tol)
                kw2 = {"tol": tol}
            else:
                call = lambda: ds.nloc[dict(idx)]
                kw2 = {"tol": np.inf}
        else:
            idx = {d: c01.py_index(c["ix"], fake if posmode else ax)}
            if c["second"]:
                d2, ix2 = c["second"]
                idx[d2] = c01.py_index(ix2, fake if posmode else c["ds"]["axes"][d2])
            nkw = {"names": list(c["names"])} if c.get("names") is not None else {}
            if sp == "take_dict":
                call = lambda: ds.take(indices=dict(idx), **nkw, **kw)
            elif sp == "loc":
                call = lambda: ds.loc[dict(idx)]
            elif sp == "sel":
                call = lambda: ds.sel(**idx)
            elif sp == "isel":
                call = lambda: ds.isel(**idx)
            elif sp == "ix":
                call = lambda: ds.ix[{k: v for k, v in idx.items()}]
            else:
                call = lambda: ds.take(indices=idx[d], axis=d, **nkw, **kw)
            kw2 = dict(kw) if sp in ("take_dict", "take_axisarg") else {}
        mode = "position" if posmode else "label"
        exp = {}
        for k in (c["names"] if c.get("names") is not None else ds.keys()):
            v = ds[k]
            sub = {dd_: i for dd_, i in idx.items() if dd_ in v.dims}
            if sp == "take_axisarg":
                sub = {d: idx[d]} if d in v.dims else {}
            exp[k] = core.guarded(lambda: obs_ref(v.take(dict(sub), indexing=mode, **kw2)))
        return call, exp, True

    def build_template(self, c):
        axes = [core.build_axis(a) for a in c["template"]]
        if c["other"] == "axes":
            t = Axes()
            for a in axes:
                t.append(a)
            return t
        shape = tuple(len(a["labels"]) for a in c["template"])
        arr = DimArray(core.make_values(shape, "f", 3), axes=axes)
        if c["other"] == "dimarray":
            return arr
        t = Dataset()
        t["tpl"] = arr
        return t

    LEAN_OPS = ("take", "reduce", "take_axis", "sort_axis", "reindex_axis",
                "interp_axis", "arith", "stack_ds", "concatenate_ds", "copy", "like")
    # binary operators by the NumPy function `Dataset._binary_op` is called with (the operators the C04 plugin sends;
    # `ds += x` is `ds = ds + x`: neither Dataset nor OpMixin defines the in-place methods)
    UFUNCS = {"add": np.add, "sub": np.subtract, "mul": np.multiply, "truediv": np.true_divide,
              "floordiv": np.floor_divide, "pow": np.power, "iadd": np.add, "isub": np.subtract, "imul": np.multiply}

    @staticmethod
    def unstable_sort(c):
        """a long axis with repeated labels sorted by an algorithm that is not stable: the order among equal labels is
        NumPy's business (the model's argsort is the stable one); the commuting square is still checked on the implementation"""
        return c["op"] == "sort_axis" and "sort_kind" in c and c["sort_kind"] not in ("stable", "mergesort")

    def unmodelled(self, c):
        """forms the model has no word for: decided by the commuting square on the implementation only"""
        op = c["op"]
        if op not in self.LEAN_OPS or self.unstable_sort(c):
            return True
        # (`DSV.reduceDs` mirrors the reduction along a named dimension, `DSV.reduceAllDs` the one with axis=None)
        # (`Dataset.take` with a tuple over several dimensions / a second dimension in the dict / tol= / .nloc / names= is
        # mirrored by `DSV.takeDsMulti`: driver extension ExtC14Ops4, see `take_multi_request`)
        # (take_axis with raw positions and mode= is mirrored by `DSV.takeAxisIntsDs`, reindex_axis with method= /
        # raise_error=True by `DSV.reindexAxisDsM`: driver extension ExtC14Ops3)
        if op == "arith":
            # `DSV.binaryOpDs` mirrors Dataset._binary_op: Dataset op Dataset, Dataset op scalar (also spelled `ds op= x`,
            # and `3 + ds` / `3 * ds`, which OpMixin turns into `ds + 3` / `ds * 3`); the reflected operators that do
            # not commute (`3 - ds`: Dataset._rbinary_op) are mirrored by `DSV.rbinaryOpDs`, the unary minus (_unary_op) by
            # `DSV.unaryOpDs` (driver extension ExtC14Ops)
            pass
        if op == "like" and (c["fn"] != "reindex_like" or not (c.get("fill") is None or isinstance(c["fill"], float))):
            # `DSV.reindexLikeDs` mirrors reindex_like with a float fill (NaN by default); interp_like is compared with its mirror in C18 (where labels and values are dyadic so that every float operation is exact)
            return True
        # (`DSV.stackDs` / `DSV.concatenateDs` mirror align=False, `DSV.stackDsA` / `DSV.concatenateDsA` align=True with
        # join= / sort=: the Datasets are aligned with `DSV.alignDs`, i.e. `Dataset.reindex_axis` onto the common axes)
        return False

    @staticmethod
    def take_multi(c):
        """the forms of Dataset.take that go to `DSV.takeDsMulti` (the others to the older single-dimension `DSV.takeDs`)"""
        return bool(c["second"]) or c["spelling"] in ("take_tuple", "take_tol", "nloc") or c.get("names") is not None

    @staticmethod
    def take_multi_request(c):
        """the call of `plan_take` as `DSV.takeDsMulti` reads it: the index in the form the call gives it (tuple / dict /
        (indices, axis=)), indexing mode, tolerance, keepdims as the call passes them, names= or null"""
        sp, d = c["spelling"], c["dim"]
        posmode = sp in ("ix", "isel")
        keep = bool(c["keepdims"])
        tolv = None
        if sp == "take_tuple":
            index = {"form": "tuple", "ix": list(c["tuple"])}
        elif sp in ("take_tol", "nloc"):
            index = {"form": "dict", "items": [[["name", d], c["ix"]]]}
            tolv = list(c["tol"]) if sp == "take_tol" else ["inf"]
            keep = False
        elif sp == "take_axisarg":
            index = {"form": "axis", "ix": c["ix"], "axis": ["name", d]}
        else:
            items = [[["name", d], c["ix"]]]
            if c["second"]:
                items.append([["name", c["second"][0]], c["second"][1]])
            index = {"form": "dict", "items": items}
            keep = keep and sp == "take_dict"
        return {"fn": "take_multi", "index": index, "names": list(c["names"]) if c.get("names") is not None else None,
                "cfg": {"captured": "label", "indexing": "position" if posmode else "label", "toggle": False, "tol": tolv,
                        "keepdims": keep}}

    def lean_ds(self, dd, toks):
        """a Dataset description as the driver reads it: keys, variables (cells of variable k are `src (off + k) i`),
        metadata of the Dataset, of the variables and of the axes as opaque tokens"""
        arrs = []
        for key, v in dd["vars"].items():
            arrs.append(core.lean_array({"axes": [dd["axes"][d] for d in v["dims"]], "vkind": v["vkind"],
                                         "attrs_py": {"long_name": key}, "nan_at": v.get("nan_at", ())}, toks))
        return {"keys": list(dd["vars"]), "arrays": arrs, "attrs": toks.enc(dd["attrs"])}

    def operands(self, c):
        """descriptions (and the `base` of their values) of all Datasets of the case, the operated one first"""
        if c["op"] == "arith" and c["how"] in ("ds_ds", "ds_ds_other", "ds_ds_keys", "ds_ds_dims", "ids"):
            return [(c["ds"], 0), (c.get("other") or c["ds"], 7)]
        if c["op"] in ("stack_ds", "concatenate_ds"):
            return [(d_, 10 * i) for i, d_ in enumerate(c.get("list") or [c["ds"]] * c["n"])]
        return [(c["ds"], 0)]

    def request(self, c):
        op = c["op"]
        if self.unmodelled(c):
            # forms without a mirror (see `unmodelled`): decided by the commuting square on the implementation only
            return dict(DUMMY)
        toks = core.AttrTokens()
        dss = [self.lean_ds(d_, toks) for d_, _ in self.operands(c)]
        r = dict(dss[0], op="ds_op", dim=c.get("dim") or "", fn=op, others=dss[1:])
        if op == "like":
            # (a template Dataset / DimArray / Axes is read through its axes)
            r["fn"] = c["fn"]
            r["template"] = [core.lean_axis(a, None) for a in c["template"]]
        if op == "take" and self.take_multi(c):
            r.update(self.take_multi_request(c))
        elif op == "take":
            posmode = c["spelling"] in ("ix", "isel")
            r["ix"] = c["ix"]
            r["cfg"] = {"captured": "label", "indexing": "position" if posmode else "label", "toggle": False, "tol": None,
                        "keepdims": bool(c["keepdims"]) and c["spelling"] in ("take_dict", "take_axisarg")}
        elif op == "reduce" and c.get("by") == "none":
            r["fn"] = "reduce_all"              # `DSV.reduceAllDs`: axis=None
        elif op == "take_axis" and c.get("indexing") == "position":
            # raw integers, NumPy's mode, the axis as the call gives it (a position counts in the Dataset's dimensions)
            r["fn"] = "take_axis_pos"
            r["positions"] = list(c["positions"])
            r["mode"] = c.get("mode") or "raise"
            by, order = c.get("by", "name"), ds_dims(c["ds"])
            r["axis"] = ["name", c["dim"]] if by in ("name", "default") else \
                ["pos", order.index(c["dim"]) - (len(order) if by == "neg" else 0)]
        elif op == "take_axis":
            r["labels"] = c["indices"]
        elif op == "reindex_axis":
            r["labels"] = c["labels"]
            r["newkind"] = c["ds"]["axes"][c["dim"]]["kind"]
            if any(l[0] == "n" and l[2] != 1 for l in c["labels"]) and r["newkind"] == "i":
                r["newkind"] = "f"
            r["fillkind"] = "f" if c.get("fill") is None or isinstance(c["fill"], float) else "i"
            if c.get("raise_error") or c.get("method"):
                r["fn"] = "reindex_axis_m"          # `DSV.reindexAxisDsM`
                r["raise_error"], r["method"] = bool(c.get("raise_error")), c.get("method")
        elif op == "interp_axis":
            r["labels"] = c["labels"]
            r["newkind"] = "f"
        elif op == "arith":
            r["operand"] = "ds" if len(dss) == 2 else "scalar"
            if c["how"] == "neg":
                r["fn"] = "neg"            # `DSV.unaryOpDs`
            elif c["how"] == "rscalar" and c["operator"] not in ("add", "mul"):
                r["fn"] = "rarith"         # `DSV.rbinaryOpDs`: the scalar is the left argument of the function
        elif op == "stack_ds":
            r["stackaxis"] = "stk"
            if c["keys"] is None and c.get("container") != "dict":
                r["labels"], r["keykind"] = [["n", i, 1] for i in range(c["n"])], "i"
            else:
                r["labels"], r["keykind"] = [["s", "k%d" % i] for i in range(c["n"])], "O"
        if op in ("stack_ds", "concatenate_ds") and c.get("align"):
            r["fn"] = op + "_a"
            r["align"], r["sort"], r["join"] = True, bool(c.get("sort")), c.get("join") or "outer"
        if op == "concatenate_ds":
            by = c.get("by", "name")
            # (the position is taken in the first Dataset, as the implementation side of the case does)
            r["axis"] = None if by == "default" else (["name", c["dim"]] if by == "name" else ["pos", ds_dims(c["ds"]).index(c["dim"])])
        return r

    def cell_env(self, c):
        """what the symbolic cells of the answer stand for"""
        inputs = []
        for d_, base in self.operands(c):
            ds = build_dataset(d_, base=base)
            inputs += [ds[k].values for k in d_["vars"]]
        kw = {}
        if c["op"] in ("reindex_axis", "like"):
            kw["fill"] = np.nan if c.get("fill") is None else c["fill"]
        elif c["op"] == "reduce":
            from .c08 import expected_red
            kw["red"] = expected_red(c["fn"], bool(c.get("skipna")))
        elif c["op"] == "interp_axis":
            kw["fill"] = np.nan if c.get("left") is None else c["left"]
            kw["fill2"] = np.nan if c.get("right") is None else c["right"]
        elif c["op"] == "arith":
            ufunc = self.UFUNCS[c["operator"]]

            def apply(x, y):
                with np.errstate(all="ignore"):
                    return ufunc(x, y)
            kw["op"] = apply
            if c["how"] in ("scalar", "iscalar"):
                kw["rhs"] = np.asarray(2 if c["operator"] == "pow" else 3)
            elif c["how"] == "rscalar":
                kw["rhs"] = np.asarray(3)       # (`3 op ds`, also for pow)
            elif c["how"] == "neg":
                # the driver writes the unary function of a cell `c` as op(c, c)
                kw["op"] = lambda x, _y: np.negative(x)
        return core.CellEnv(inputs, **kw)

    def lean_vs_impl(self, c, io, ans):
        """correspondence: the Lean Dataset model against the Dataset implementation"""
        lean = ans.get("lib")
        if self.unmodelled(c) or not isinstance(lean, dict) or ("ok" not in lean and "err" not in lean):
            return []
        if "err" in io or "err" in lean:
            if ("err" in io) != ("err" in lean):
                return ["lean.outcome"]
            return []          # (the class of the error is not part of C14)
        res = io["ok"]["result"]
        lo = lean["ok"]
        bad = []
        if sorted(res["keys"]) != sorted(lo["keys"]):
            return ["lean.keys"]
        if res["dims"] != lo["dims"]:
            bad.append("lean.dims")
        if sorted(map(tuple, TOKS.enc(res["attrs"]))) != sorted(map(tuple, lo["attrs"])):
            bad.append("lean.attrs")           # the Dataset's metadata
        env = self.cell_env(c)
        for k in res["keys"]:
            got = res["vars"][k]
            lv = core.lean_obs_to_canon(lo["vars"][k], env)
            if got["dims"] != lv["dims"] or got["shape"] != lv["shape"]:
                bad.append("lean.var:%s:dims" % k)
            elif [(a["name"], [lab_key(l) for l in a["labels"]]) for a in got["axes"]] != [(a["name"], [lab_key(l) for l in a["labels"]]) for a in lv["axes"]]:
                bad.append("lean.var:%s:labels" % k)
            elif [rv(v) for v in got["values"]] != [rv(v) for v in lv["values"]]:
                bad.append("lean.var:%s:values" % k)
            else:
                # the variable's metadata, the metadata of its axes (the mirrors model both)
                if sorted(map(tuple, got["attrs"] or [])) != sorted(map(tuple, lv["attrs"])):
                    bad.append("lean.var:%s:attrs" % k)
                if [sorted(map(tuple, a["attrs"])) for a in got["axes"]] != [sorted(map(tuple, a["attrs"])) for a in lv["axes"]]:
                    bad.append("lean.var:%s:axis_attrs" % k)
                # dtype kinds: of the labels (non-empty axes), and of the values where the operation does not compute
                # new ones (the result type of a NumPy reduction / ufunc is NumPy's business, not modelled)
                if [a["kind"] for a in got["axes"] if a["labels"]] != [a["kind"] for a in lv["axes"] if a["labels"]]:
                    bad.append("lean.var:%s:label_kind" % k)
                # (nor that of `np.array` / `np.concatenate` of variables that the alignment filled with NaN or not)
                joined_aligned = c["op"] in ("stack_ds", "concatenate_ds") and c.get("align")
                if c["op"] not in ("reduce", "arith") and not joined_aligned and got["values"] and got["vkind"] != lv["vkind"]:
                    bad.append("lean.var:%s:kind" % k)
        return bad

    @staticmethod
    def results_disagree_on_axes(exp):
        seen = {}
        for e in exp.values():
            if "ok" not in e or e["ok"].get("scalar"):
                continue
            for a in e["ok"]["axes"]:
                labs = [lab_key(l) for l in a["labels"]]
                if seen.setdefault(a["name"], labs) != labs:
                    return True
        return False

    def judge(self, c, io, ans):
        prop_bad = []
        exp = io.get("expected", {})
        if "err" in io:
            # the dataset operation may only fail if the per-variable operation fails too - or if the per-variable results
            # cannot be the variables of one Dataset: two of them carry different labels along the same dimension (a
            # variable has the dimension in one operand only), so "exactly the per-variable result" and "shared axes"
            # cannot both hold and the statement does not decide the case
            if not any("err" in e for e in exp.values()) and not self.results_disagree_on_axes(exp):
                prop_bad.append("outcome:" + io["err"])
        else:
            res = io["ok"]["result"]
            if sorted(res["keys"]) != sorted(exp.keys()):
                prop_bad.append("keys")
            else:
                for k, e in exp.items():
                    if "err" in e:
                        prop_bad.append("per_variable_fails:" + k)
                        continue
                    got = res["vars"][k]
                    if e["ok"]["scalar"]:
                        # a 0-d result is stored as a 0-d variable
                        if got["dims"] != [] or [rv(v) for v in got["values"]] != [rv(v) for v in e["ok"]["values"]]:
                            prop_bad.append("var:" + k)
                        elif c["op"] == "take" and sorted(map(tuple, got["attrs"] or [])) != sorted(map(tuple, io["input"]["vars"][k]["attrs"] or [])):
                            # the bare scalar of the DimArray operation has no metadata to compare with: the 0-d
                            # variable of the indexed Dataset keeps the variable's metadata (a variable without the
                            # dimension is left unchanged; indexing keeps an array's metadata, as the on-disk read does)
                            prop_bad.append("var_attrs:" + k)
                    elif c["op"] == "arith" and c["how"] == "ds_ds_dims" and not same_obs(got, e["ok"]):
                        # the variables of a Dataset share their axes: per-variable results whose labels differ are held on
                        # the outer join of their labels (what Dataset(dict) does), NaN where a variable has no label
                        if not aligned_onto(got, e["ok"]):
                            prop_bad.append("var:" + k)
                        else:
                            for a in got["axes"]:
                                want = set(lab_key(l) for e2 in exp.values() if "ok" in e2 for a2 in e2["ok"]["axes"] if a2["name"] == a["name"] for l in a2["labels"])
                                if set(lab_key(l) for l in a["labels"]) != want:
                                    prop_bad.append("var_outer_join:" + k)
                    elif not same_obs(got, e["ok"]):
                        prop_bad.append("var:" + k)
                    else:
                        prop_bad += ["var_%s:%s" % (m, k) for m in meta_diff(got, e["ok"], self.defect_axis_attrs(c))]
            if not res["shared"]:
                prop_bad.append("not_shared")
            if c["op"] == "take" and c.get("names") is not None:
                # take(names=...) lays out the axes of the whole dataset first (the shared-axes rule allows axes put into a
                # dataset directly that no variable uses): the variables' dimensions must be among them, and no new ones
                if not res["dims_cover"] or not set(res["dims"]) <= set(io["input"]["dims"]):
                    prop_bad.append("dims_not_used")
            elif not res["dims_used"]:
                prop_bad.append("dims_not_used")
            if io["ok"]["keep_attrs"] and res["attrs"] != io["input"]["attrs"]:
                prop_bad.append("dataset_attrs")
        if io.get("operand_modified"):
            prop_bad.append("operand_modified")
        bad = [] if prop_bad else self.lean_vs_impl(c, io, ans)
        if not prop_bad and not bad:
            return None
        return {"kind": "P" if prop_bad else "M", "differs": sorted(set(prop_bad + bad)), "msg": io.get("msg")}

    @staticmethod
    def defect_axis_attrs(c):
        """axes whose metadata is not compared: none (Dataset.take_axis / sort_axis / reindex_axis / reindex_like keep the
        metadata of the operated axis, as the DimArray methods do)"""
        return ()

    def known(self, c, io, ans, mm, open_findings):
        return None

    def nontrivial(self, c):
        sets = set(tuple(sorted(v["dims"])) for v in c["ds"]["vars"].values())
        return len(sets) >= 2

    def features(self, c, io):
        f = {"outcome": "err:" + io["err"] if "err" in io else "ok", "op": c["op"], "nvars": len(c["ds"]["vars"]),
             "has_0d": any(not v["dims"] for v in c["ds"]["vars"].values()),
             "lacking": any(c.get("dim") not in v["dims"] for v in c["ds"]["vars"].values()) if c.get("dim") else None,
             "model_compared": not self.unmodelled(c)}
        for k in ("spelling", "fn", "how", "by", "operator", "vform", "method", "raise_error", "indexing", "mode", "other", "container", "join", "skipna"):
            if c.get(k) is not None:
                f[k] = c[k]
        if c["op"] == "take":
            f["take.names"] = c.get("names") is not None
        if c["op"] == "reduce":
            f["reduce.has_nan"] = any(v.get("nan_at") for v in c["ds"]["vars"].values())
        if c["op"] in ("stack_ds", "concatenate_ds"):
            f["join.inputs"] = "differing" if c.get("list") and any(d_["axes"] != c["ds"]["axes"] for d_ in c["list"]) else "identical"
            f["join.options"] = "+".join(k for k in ("align", "sort") if c.get(k)) or "none"
            f["join.outcome"] = "%s:%s" % (f["join.inputs"], "err" if "err" in io else "ok")
        f["lean_compared:" + c["op"]] = not self.unmodelled(c)
        if c["op"] == "arith" and c["how"] == "ds_ds_keys":
            f["arith.common_keys"] = len([k for k in c["ds"]["vars"] if k in c["other"]["vars"]])
        return f

    def size(self, c):
        return 50 * len(c["ds"]["vars"]) + sum(len(a["labels"]) for a in c["ds"]["axes"].values())

    def snippet(self, c):
        return ("import sys; sys.path.insert(0, '/verif/harness'); import json, core; from props.c14 import PROP; "
                "case = json.load(open(REPLAY))['case']; print(PROP.impl(case))")


PROP = C14()

"""C11 - flatten, unflatten and reshape group dimensions losslessly."""
import copy, itertools
import numpy as np
import core, gen, ops
from core import da, Axis, DimArray
from .base import Prop
from .c06 import lab_key
from .c10 import distinct_array


def expand_axes(obs):
    """per output position: list of (dimension name, label key) pairs, expanding grouped axes
    into their members (row-major over the members)"""
    per_axis = []
    for ax in obs["axes"]:
        if ax.get("members"):
            ms = ax["members"]
            combos = list(itertools.product(*[[(m["name"], lab_key(l)) for l in m["labels"]] for m in ms]))
            per_axis.append([list(c) for c in combos])
        else:
            per_axis.append([[(ax["name"], lab_key(l))] for l in ax["labels"]])
    return per_axis


def coord_cells(obs):
    """list of (coordinate dict, value) for every cell, row-major"""
    per_axis = expand_axes(obs)
    out = []
    for flat, combo in enumerate(itertools.product(*per_axis)):
        cd = {}
        for part in combo:
            for d, k in part:
                cd[d] = k
        out.append((cd, obs["values"][flat]))
    return out


def dim_sizes(obs):
    out = {}
    for ax in obs["axes"]:
        if ax.get("members"):
            for m in ax["members"]:
                out[m["name"]] = len(m["labels"])
        else:
            out[ax["name"]] = len(ax["labels"])
    return out


def check_grouping(inp, out):
    """every element keeps its label coordinates; dimensions present on one side only must be
    singletons (dropped / added singleton dimensions)"""
    bad = []
    si, so = dim_sizes(inp), dim_sizes(out)
    common = [d for d in si if d in so]
    for d in si:
        if d not in so and si[d] != 1:
            bad.append("dims:lost")
    for d in so:
        if d not in si and so[d] != 1:
            bad.append("dims:invented")
    if bad:
        return bad
    src = {}
    for cd, v in coord_cells(inp):
        src[tuple((d, cd[d]) for d in common)] = v
    cells = coord_cells(out)
    if len(cells) != len(src):
        bad.append("shape:size")
        return bad
    for cd, v in cells:
        key = tuple((d, cd[d]) for d in common)
        if key not in src:
            bad.append("axes.labels:coordinate_lost")
            break
        if src[key] != v:
            bad.append("values:moved")
            break
    return bad


def canon_component(x):
    try:
        from fractions import Fraction
        return ("n", Fraction(float(x)))
    except (TypeError, ValueError):
        return ("s", str(x))


def check_flatten_axis(inp, out, dims_listed, insert):
    """grouped axis: name, member order, position, tuple labels in row-major order"""
    bad = []
    name = ",".join(dims_listed)
    if name not in out["dims"]:
        return ["dims:group_name"]
    g = out["axes"][out["dims"].index(name)]
    in_axes = {ax["name"]: ax for ax in inp["axes"]}
    if [m["name"] for m in g.get("members", [])] != list(dims_listed):
        bad.append("axes.members:order")
    else:
        for m in g["members"]:
            if m["labels"] != in_axes[m["name"]]["labels"]:
                bad.append("axes.members:labels")
        want = [[canon_component(core.dec_label(l, in_axes[d]["kind"])) for d, l in zip(dims_listed, combo)]
                for combo in itertools.product(*[in_axes[d]["labels"] for d in dims_listed])]
        got = None if g.get("tuples") is None else [[canon_component(x) for x in t] for t in g["tuples"]]
        if len(dims_listed) > 1 and got is not None and got != want:
            bad.append("axes.labels:tuples")
    rest = [d for d in inp["dims"] if d not in dims_listed]
    if insert is not None:
        want_dims = rest[:insert] + [name] + rest[insert:]
        if out["dims"] != want_dims:
            bad.append("dims:insert")
    elif [d for d in out["dims"] if d != name] != rest:
        bad.append("dims:rest_order")
    return bad


class C11(Prop):
    id = "C11"
    theorems = ["ravel_lt", "unravel_ravel", "ravel_unravel", "unravel_inRange", "ravel_append", "group_get",
                "reshape_roundtrip_get", "ungroup_group_get", "tupleLabels_get", "tupleLabels_length", "multiAxis_name_size", "flatten_spec", "flatten_member_coords", "flatten_grouped_labels", "flatten_index_cover", "unflatten_flatten", "unflattenAll_flatten",
                "reshape_transpose", "reshape_group", "reshape_group_eq_flatten", "reshape_flatten_ungroup", "reshape_add_singleton", "reshape_drop_singleton"]
    rule = ("arrays of rank 1-4 with axes of different kinds and lengths; flatten of every non-empty subset of "
            "dimensions in every order (tuple / list / set / varargs), default and every insert position; flatten "
            "followed by unflatten; reshape to target dimension lists that regroup (comma names), reorder, add or "
            "drop singleton dimensions; chains flatten -> reshape. Non-trivial = at least two dimensions grouped or "
            "moved; distinct = canonical JSON")
    assumptions = ["comma-free dimension names; grouped tuple labels compared component-wise modulo str() (NumPy "
                   "coerces mixed-kind tuples to strings when building the label array)"]

    def mirrors(self):
        import sys as _s
        r = _s.modules["dimarray.core.reshape"]
        from dimarray.core import axes
        return {"flatten": r.flatten, "unflatten": r.unflatten, "reshape": r.reshape, "MultiAxis": axes.MultiAxis,
                "_flatten": axes._flatten, "transpose": r.transpose, "newaxis": r.newaxis, "squeeze": r.squeeze}

    # ------------------------------------------------------------ generation
    def gen_flatten(self, rng, arr=None, then=None):
        rank = rng.choice([1, 2, 2, 3, 3, 4])
        arr = arr or distinct_array(rng, rank)
        rank = len(arr["axes"])
        names = [a["name"] for a in arr["axes"]]
        k = rng.randint(1, rank)
        ds = rng.sample(names, k)
        how = rng.choice(["tuple", "list", "set", "varargs"])
        if how == "set":
            ds = [d for d in names if d in ds]       # a set is taken in array order
        if how == "varargs" and k == rank and False:
            pass
        ins = None if rng.random() < 0.5 else rng.randint(0, rank - k)
        steps = [{"fn": "flatten", "dims": ds, "how": how, "insert": ins}]
        if then == "unflatten" or (then is None and rng.random() < 0.4):
            steps.append({"fn": "unflatten"})
        return {"op": "chain", "array": arr, "steps": steps}

    def gen_reshape(self, rng):
        rank = rng.choice([1, 2, 2, 3, 3, 4])
        arr = distinct_array(rng, rank)
        names = [a["name"] for a in arr["axes"]]
        sizes = {a["name"]: len(a["labels"]) for a in arr["axes"]}
        # target: keep non-singleton dims (in any order), maybe drop singleton ones, maybe add new ones, maybe group
        keep = [d for d in names if sizes[d] != 1 or rng.random() < 0.6]
        rng.shuffle(keep)
        free = [d for d in gen.DIMS + ["t", "u"] if d not in names]
        for d in rng.sample(free, min(len(free), rng.choice([0, 0, 1, 2]))):
            keep.insert(rng.randint(0, len(keep)), d)
        target = []
        i = 0
        while i < len(keep):
            if rng.random() < 0.35 and i + 1 < len(keep):
                n = rng.randint(2, min(3, len(keep) - i))
                target.append(",".join(keep[i:i + n]))
                i += n
            else:
                target.append(keep[i]); i += 1
        steps = [{"fn": "reshape", "newdims": target, "how": rng.choice(["list", "varargs"])}]
        if not target:
            steps[0]["how"] = "list"
        if rng.random() < 0.3:
            steps.append({"fn": "unflatten"})
        return {"op": "chain", "array": arr, "steps": steps}

    def gen_flatten_reshape(self, rng):
        c = self.gen_flatten(rng, then="none")
        names = [a["name"] for a in c["array"]["axes"]]
        tgt = names[:]
        rng.shuffle(tgt)
        c["steps"] = c["steps"][:1] + [{"fn": "reshape", "newdims": tgt, "how": "list"}]
        return c

    def exhaustive(self):
        """every ordered subset and insert position for a fixed array of rank 1-4"""
        for rank in (1, 2, 3, 4):
            arr = {"axes": [{"name": gen.DIMS[i], "kind": ["i", "O", "f", "i"][i],
                             "labels": [gen.enc(v) for v in ([10, 20], ["a", "b", "c"], [0.5], [7, 5, 3, 1])[i]]} for i in range(rank)],
                   "vkind": "f"}
            names = [a["name"] for a in arr["axes"]]
            for k in range(1, rank + 1):
                for ds in itertools.permutations(names, k):
                    for ins in [None] + list(range(0, rank - k + 1)):
                        yield {"op": "chain", "array": arr, "steps": [{"fn": "flatten", "dims": list(ds), "how": "tuple", "insert": ins},
                                                                      {"fn": "unflatten"}]}
                        yield {"op": "chain", "array": arr, "steps": [{"fn": "flatten", "dims": list(ds), "how": "tuple", "insert": ins}]}

    def gen(self, rng, tier):
        n = 700 if tier == "quick" else 15000
        for _ in range(n):
            r = rng.random()
            if r < 0.5:
                yield self.gen_flatten(rng)
            elif r < 0.85:
                yield self.gen_reshape(rng)
            else:
                yield self.gen_flatten_reshape(rng)
        for c in self.exhaustive():
            yield c

    exhaustive_tiers = {"quick": True, "thorough": True}

    # ------------------------------------------------------------ implementation side
    def impl(self, c):
        toks = core.AttrTokens()
        a = core.build_array(c["array"], 0)
        before = core.obs_array(a, toks)
        inter = []

        def run():
            cur = a
            for st in c["steps"]:
                cur = ops.apply_step(cur, st)
                inter.append(core.obs_array(cur, toks))
            return inter[-1]
        out = core.guarded(run)
        out["input"] = before
        out["inter"] = inter
        if core.obs_array(a, toks) != before:
            out["operand_modified"] = True
        return out

    def request(self, c):
        toks = core.AttrTokens()
        return {"op": "chain", "arrays": [core.lean_array(gen.clean(c["array"]), toks)],
                "steps": [ops.lean_step(st) for st in c["steps"]]}

    def judge(self, c, io, ans):
        lean = ans["lib"]
        bad, prop_bad = [], []
        if "ok" in lean:
            a = core.build_array(c["array"], 0)
            lo = core.lean_obs_to_canon(lean["ok"], core.CellEnv([a.values])); lo["scalar"] = False
            lean = {"ok": lo}
        d = core.diff_obs(io, lean)
        bad += [("M." + x if x == "errclass" else x) for x in d]
        if "ok" in io:
            prop_bad += check_grouping(io["input"], io["ok"])
            if io["ok"]["attrs"] != io["input"]["attrs"]:
                prop_bad.append("attrs")
            st0 = c["steps"][0]
            if st0["fn"] == "flatten" and io["inter"]:
                prop_bad += check_flatten_axis(io["input"], io["inter"][0], st0["dims"], st0.get("insert"))
            if c["steps"][-1]["fn"] == "reshape":
                if io["ok"]["dims"] != c["steps"][-1]["newdims"]:
                    prop_bad.append("dims:reshape_target")
            if c["steps"][-1]["fn"] == "unflatten" and any(ax.get("members") for ax in io["ok"]["axes"]):
                prop_bad.append("axes:still_grouped")
            if c["steps"][-1]["fn"] == "unflatten" and c["steps"][0]["fn"] == "flatten":
                # unflatten restores the member axes exactly
                ia = {ax["name"]: ax["labels"] for ax in io["input"]["axes"]}
                oa = {ax["name"]: ax["labels"] for ax in io["ok"]["axes"]}
                if ia != oa:
                    prop_bad.append("axes.labels:restored")
        elif "ok" in lean:
            prop_bad.append("outcome:" + io["err"])
        elif io["err"] == "recursion":
            prop_bad.append("outcome:recursion")
        if io.get("operand_modified"):
            prop_bad.append("operand_modified")
        if not bad and not prop_bad:
            return None
        return {"kind": "P" if prop_bad else "M", "differs": sorted(set(bad + prop_bad)), "msg": io.get("msg"),
                "trace": ans.get("trace")}

    def nontrivial(self, c):
        st = c["steps"][0]
        return (st["fn"] == "flatten" and len(st["dims"]) >= 2) or (st["fn"] == "reshape" and len(c["array"]["axes"]) >= 2)

    def features(self, c, io):
        f = {"outcome": "err:" + io["err"] if "err" in io else "ok", "rank": len(c["array"]["axes"]), "len": len(c["steps"])}
        for s in c["steps"]:
            f["fn:" + s["fn"]] = 1
        st = c["steps"][0]
        if st["fn"] == "flatten":
            f["how"] = st["how"]; f["insert"] = st["insert"]; f["k"] = len(st["dims"])
        return f

    def size(self, c):
        return 10 * len(c["steps"]) + sum(len(a["labels"]) for a in c["array"]["axes"]) + 5 * len(c["array"]["axes"])

    def snippet(self, c):
        return ("import sys; sys.path.insert(0, '/verif/harness'); import json, core; from props.c11 import PROP; "
                "case = json.load(open(REPLAY))['case']; print(PROP.impl(case))")


PROP = C11()

"""C11 - flatten, unflatten and reshape group dimensions losslessly."""
import copy, itertools, warnings
import numpy as np
import core, gen, ops
from core import da, Axis, DimArray, MultiAxis
from .base import Prop
from .c06 import lab_key
from .c10 import distinct_array

DUMMY = {"op": "union", "a": {"name": "x", "kind": "i", "labels": []}, "b": {"name": "x", "kind": "i", "labels": []}, "join": "outer"}


# ------------------------------------------------------------------------------------------------
# observation (a grouped axis may itself have grouped members: the shared observer is one level deep
# and needs the tuple labels, which cannot always be built)
# ------------------------------------------------------------------------------------------------
def obs_axis11(ax, toks=None):
    if isinstance(ax, MultiAxis):
        err = None
        try:
            # (a component that is itself a tuple - the label of a grouped member - is observed component-wise too)
            comp = lambda x: [comp(y) for y in x] if isinstance(x, tuple) else str(x)
            tuples = [comp(t) if isinstance(t, tuple) else [str(t)] for t in ax.values.tolist()]
        except Exception as e:  # noqa
            tuples, err = None, "%s: %s" % (type(e).__name__, str(e)[:80])
        out = {"name": ax.name, "kind": "O", "labels": [],
               "members": [obs_axis11(m, toks) for m in ax.axes],
               "attrs": toks.enc(ax.attrs) if toks else [], "tuples": tuples}
        if err:
            out["tuples_err"] = err
        return out
    return core.obs_axis(ax, toks)


def obs11(r, toks=None):
    if not isinstance(r, DimArray):
        return core.obs_array(r, toks)
    vals = np.asarray(r.values)
    return {"dims": list(r.dims), "axes": [obs_axis11(ax, toks) for ax in r.axes],
            "shape": list(vals.shape), "vkind": core.ckind(vals.dtype.kind),
            "attrs": toks.enc(r.attrs) if toks else [],
            "values": [core.canon_value(v) for v in (vals.reshape(-1).tolist() if vals.dtype.kind != "O" else vals.reshape(-1))],
            "scalar": False}


# ------------------------------------------------------------------------------------------------
# execution of one step (the forms that the shared ops.apply_step does not know are spelled here)
# ------------------------------------------------------------------------------------------------
def apply_step11(a, st):
    fn = st["fn"]
    if fn == "flatten":
        how = st.get("how", "tuple")
        kw = {}
        if st.get("insert") is not None:
            kw["insert"] = st["insert"]
        if st.get("reverse"):
            kw["reverse"] = True
        if how == "noarg":
            return a.flatten(**kw)
        items = [k[1] for k in st["keys"]] if st.get("keys") is not None else list(st["dims"])
        if how == "varargs":
            return a.flatten(*items, **kw)
        arg = tuple(items) if how == "tuple" else (list(items) if how == "list" else set(items))
        return a.flatten(arg, **kw)
    if fn == "unflatten":
        if st.get("axis") is None:
            return a.unflatten()
        if st.get("kw", True):
            return a.unflatten(axis=st["axis"][1])
        return a.unflatten(st["axis"][1])
    if fn == "reshape":
        nd = st["newdims"]
        kw = {}
        if st.get("transpose") is not None:
            kw["transpose"] = st["transpose"]
        how = st.get("how", "list")
        if how == "varargs":
            return a.reshape(*nd, **kw)
        return a.reshape(tuple(nd) if how == "tuple" else list(nd), **kw)
    return ops.apply_step(a, st)


def lean_step11(st):
    """the spelling-free content of a step, as the Lean mirror knows it"""
    if st["fn"] == "flatten":
        return {"fn": "flatten", "dims": list(st["dims"]), "insert": st.get("insert")}
    if st["fn"] == "unflatten":
        return {"fn": "unflatten"}
    if st["fn"] == "reshape":
        return {"fn": "reshape", "newdims": list(st["newdims"])}
    return ops.lean_step(st)


# ------------------------------------------------------------------------------------------------
# generator-side simulation of the dimensions (names, sizes, grouping tree)
# ------------------------------------------------------------------------------------------------
class Sim11:
    def __init__(self, arr):
        self.nodes = [{"name": a["name"], "size": len(a["labels"]), "members": None} for a in arr["axes"]]

    @property
    def dims(self):
        return [n["name"] for n in self.nodes]

    def leaves(self, nodes=None):
        out = []
        for n in (self.nodes if nodes is None else nodes):
            if n["members"] is None:
                out.append(n)
            else:
                out += self.leaves(n["members"])
        return out

    def groups(self):
        return [i for i, n in enumerate(self.nodes) if n["members"] is not None]

    def nested(self):
        return any(m["members"] is not None for n in self.nodes if n["members"] for m in n["members"])

    def flatten(self, dims, insert):
        """documented default: the position of the first dimension involved, never further than the remaining dims"""
        ms = [self.nodes[self.dims.index(d)] for d in dims]
        first = self.dims.index(dims[0])
        rest = [n for n in self.nodes if n["name"] not in dims]
        ins = min(first if insert is None else insert, len(rest))
        size = 1
        for m in ms:
            size *= m["size"]
        g = {"name": ",".join(dims), "size": size, "members": ms}
        self.nodes = rest[:ins] + [g] + rest[ins:]

    def unflatten(self, pos=None):
        out = []
        for i, n in enumerate(self.nodes):
            if n["members"] is not None and (pos is None or pos == i):
                out += n["members"]
            else:
                out.append(n)
        self.nodes = out

    def reshape(self, target):
        lv = {n["name"]: n for n in self.leaves()}
        out = []
        for t in target:
            if "," in t:
                ms = [lv.get(d, {"name": d, "size": 1, "members": None}) for d in t.split(",")]
                size = 1
                for m in ms:
                    size *= m["size"]
                out.append({"name": t, "size": size, "members": ms})
            else:
                out.append(lv.get(t, {"name": t, "size": 1, "members": None}))
        self.nodes = out

    def key(self, rng, i, style=None):
        style = style or rng.choice(["name", "name", "pos", "neg"])
        if style == "name":
            return ["name", self.nodes[i]["name"]]
        return ["pos", i if style == "pos" else i - len(self.nodes)]


def needs_transpose(cur_leaves, target):
    """does reshaping to `target` change the relative order of the dimensions that stay?"""
    tgt = [d for t in target for d in t.split(",")]
    a = [d for d in cur_leaves if d in tgt]
    b = [d for d in tgt if d in cur_leaves]
    return a != b


# ------------------------------------------------------------------------------------------------
# oracles (written from the statement of C11, on observations only)
# ------------------------------------------------------------------------------------------------
def leaf_axes(axes):
    out = []
    for ax in axes:
        if ax.get("members"):
            out += leaf_axes(ax["members"])
        else:
            out.append(ax)
    return out


def axis_sig(ax, attrs=True):
    """an axis 'exactly': name, labels in order, metadata, member axes"""
    return (ax["name"], tuple(lab_key(l) for l in ax["labels"]), repr(ax.get("attrs")) if attrs else None,
            tuple(axis_sig(m, attrs) for m in ax.get("members") or []))


def axis_combos(ax):
    """per position along the axis: list of (leaf dimension name, label key) pairs (row-major over members)"""
    if ax.get("members"):
        return [sum(c, []) for c in itertools.product(*[axis_combos(m) for m in ax["members"]])]
    return [[(ax["name"], lab_key(l))] for l in ax["labels"]]


def expand_axes(obs):
    return [axis_combos(ax) for ax in obs["axes"]]


def coord_cells(obs):
    """list of (coordinate dict, value) for every cell, row-major"""
    per_axis = expand_axes(obs)
    out = []
    for flat, combo in enumerate(itertools.product(*per_axis)):
        cd = {}
        for part in combo:
            for d, k in part:
                cd[d] = k
        out.append((cd, obs["values"][flat]))
    return out


def dim_sizes(obs):
    return {ax["name"]: len(ax["labels"]) for ax in leaf_axes(obs["axes"])}


def check_grouping(inp, out):
    """every element keeps its label coordinates; dimensions present on one side only must be
    singletons (dropped / added singleton dimensions)"""
    bad = []
    si, so = dim_sizes(inp), dim_sizes(out)
    common = [d for d in si if d in so]
    for d in si:
        if d not in so and si[d] != 1:
            bad.append("dims:lost")
    for d in so:
        if d not in si and so[d] != 1:
            bad.append("dims:invented")
    if bad:
        return bad
    src = {}
    for cd, v in coord_cells(inp):
        src[tuple((d, cd[d]) for d in common)] = v
    cells = coord_cells(out)
    if len(cells) != len(src) or len(cells) != len(out["values"]):
        bad.append("shape:size")
        return bad
    for cd, v in cells:
        key = tuple((d, cd[d]) for d in common)
        if key not in src:
            bad.append("axes.labels:coordinate_lost")
            break
        if src[key] != v:
            bad.append("values:moved")
            break
    return bad


def check_leaf_axes(inp, out, attrs):
    """member / plain axes travel unchanged: same labels in the same order (and same metadata)"""
    bad = []
    ia = {ax["name"]: ax for ax in leaf_axes(inp["axes"])}
    for ax in leaf_axes(out["axes"]):
        if ax["name"] in ia:
            if axis_sig(ax, False) != axis_sig(ia[ax["name"]], False):
                bad.append("axes.labels:order")
            elif attrs and ax.get("attrs") != ia[ax["name"]].get("attrs"):
                bad.append("axes.attrs:member")
    return bad


def canon_component(x):
    if isinstance(x, list):
        return ("t", tuple(canon_component(y) for y in x))       # the tuple label of a grouped member
    try:
        from fractions import Fraction
        return ("n", Fraction(float(x)))
    except (TypeError, ValueError):
        return ("s", str(x))


def check_flatten_axis(inp, out, dims_listed, insert):
    """grouped axis: name, member order, position, member axes, tuple labels in row-major order"""
    bad = []
    name = ",".join(dims_listed)
    if name not in out["dims"]:
        return ["dims:group_name"]
    g = out["axes"][out["dims"].index(name)]
    in_axes = {ax["name"]: ax for ax in inp["axes"]}
    if any(d not in in_axes for d in dims_listed):
        return ["dims:unknown"]
    if [m["name"] for m in g.get("members", [])] != list(dims_listed):
        bad.append("axes.members:order")
    else:
        for m in g["members"]:
            if axis_sig(m, False) != axis_sig(in_axes[m["name"]], False):
                bad.append("axes.members:labels")
            elif axis_sig(m) != axis_sig(in_axes[m["name"]]):
                bad.append("axes.attrs:member")
        # the labels of a member: its plain labels, or - for a member that is itself grouped - its own tuple labels
        # (a group of a single axis has that axis's labels)
        def member_labels(ax):
            if not ax.get("members"):
                return [core.dec_label(l, ax["kind"]) for l in ax["labels"]]
            return member_labels(ax["members"][0]) if len(ax["members"]) == 1 else ax.get("tuples")
        mlabs = [member_labels(in_axes[d]) for d in dims_listed]
        if len(dims_listed) > 1 and all(l is not None for l in mlabs):
            want = [[canon_component(x) for x in combo] for combo in itertools.product(*mlabs)]
            got = None if g.get("tuples") is None else [[canon_component(x) for x in t] for t in g["tuples"]]
            if got is not None and got != want:
                bad.append("axes.labels:tuples")
            if got is None:
                bad.append("axes.labels:tuples_unavailable")
    rest = [d for d in inp["dims"] if d not in dims_listed]
    if insert is not None:
        ins = min(insert, len(rest))
        want_dims = rest[:ins] + [name] + rest[ins:]
        if out["dims"] != want_dims:
            bad.append("dims:insert")
    elif [d for d in out["dims"] if d != name] != rest:
        bad.append("dims:rest_order")
    # the other axes are untouched
    oa = {ax["name"]: ax for ax in out["axes"]}
    for d in rest:
        if d in oa and axis_sig(oa[d]) != axis_sig(in_axes[d]):
            bad.append("axes:rest_changed")
    return bad


def resolve_key(key, dims):
    if key[0] == "name":
        return dims.index(key[1]) if key[1] in dims else None
    p = key[1] + len(dims) if key[1] < 0 else key[1]
    return p if 0 <= p < len(dims) else None


def check_unflatten(prev, out, key):
    """unflatten restores the member axes exactly, in place of the grouped axis (all grouped axes by default)"""
    if key is None:
        targets = [i for i, ax in enumerate(prev["axes"]) if ax.get("members")]
    else:
        p = resolve_key(key, prev["dims"])
        if p is None or not prev["axes"][p].get("members"):
            return []       # not a grouped axis: nothing is stated
        targets = [p]
    one = []
    for i, ax in enumerate(prev["axes"]):
        one += ax["members"] if i in targets else [ax]
    accept = [[axis_sig(ax) for ax in one]]
    if key is None:
        # a member that is itself grouped: 'its member axes' are restored by one more level at most
        full = []
        for i, ax in enumerate(prev["axes"]):
            full += leaf_axes([ax]) if i in targets else [ax]
        accept.append([axis_sig(ax) for ax in full])
    got = [axis_sig(ax) for ax in out["axes"]]
    if got in accept:
        return []
    if [g[0] for g in got] not in [[a[0] for a in acc] for acc in accept]:
        return ["dims:unflatten"]
    strip = lambda sigs: [(s[0], s[1], None, tuple((m[0], m[1]) for m in s[3])) for s in sigs]
    if strip(got) in [strip(acc) for acc in accept]:
        return ["axes.attrs:restored"]
    return ["axes.labels:restored"]


def check_reshape(prev, out, newdims):
    bad = []
    if out["dims"] != list(newdims):
        return ["dims:reshape_target"]
    for t, ax in zip(newdims, out["axes"]):
        parts = t.split(",")
        if len(parts) > 1:
            if [m["name"] for m in ax.get("members") or []] != parts:
                bad.append("axes.members:order")
            elif any(m.get("members") for m in ax["members"]):
                bad.append("axes.members:nested")
        elif ax.get("members") and [m["name"] for m in ax["members"]] != parts:
            bad.append("axes.members:order")
    have = set(d["name"] for d in leaf_axes(prev["axes"]))
    for ax in leaf_axes(out["axes"]):
        if ax["name"] not in have and len(ax["labels"]) != 1:
            bad.append("dims:invented")
    return bad


class C11(Prop):
    id = "C11"
    theorems = ["ravel_lt", "unravel_ravel", "ravel_unravel", "unravel_inRange", "ravel_append", "group_get",
                "reshape_roundtrip_get", "ungroup_group_get", "tupleLabels_get", "tupleLabels_length", "multiAxis_name_size", "flatten_spec", "flatten_member_coords", "flatten_grouped_labels", "flatten_index_cover", "unflatten_flatten", "unflattenAll_flatten",
                "reshape_transpose", "reshape_group", "reshape_group_eq_flatten", "reshape_flatten_ungroup", "reshape_add_singleton", "reshape_drop_singleton"]
    rule = ("arrays of rank 1-4 with axes of different kinds and lengths, array- and axis-level metadata; flatten of every "
            "non-empty subset of dimensions in every order (tuple / list / set / varargs / no argument = all), dimensions "
            "given by name, position or negative position, reverse=True (the listed dimensions are kept), default and "
            "every insert position; flatten followed by unflatten (all, or one axis by name / position); flatten of an "
            "array that already has a grouped axis (group of a group) and its unflatten; reshape (list / tuple / varargs) "
            "to target dimension lists that regroup (comma names), reorder, add or drop singleton dimensions, with "
            "transpose=True/False (False: accepted iff no reordering is needed); chains flatten -> reshape that keep, "
            "re-split or regroup the grouped axis; reshape to several groups -> unflatten of one of them. Non-trivial = "
            "at least two dimensions grouped or moved; distinct = canonical JSON")
    assumptions = ["comma-free dimension names; grouped tuple labels compared component-wise modulo str() (NumPy "
                   "coerces mixed-kind tuples to strings when building the label array)",
                   "forms the Lean mirror does not model (group of a group, unflatten of one among several grouped axes, "
                   "reshape(transpose=False) that needs a transposition) are decided by the oracle alone"]

    def mirrors(self):
        import sys as _s
        r = _s.modules["dimarray.core.reshape"]
        from dimarray.core import axes
        return {"flatten": r.flatten, "unflatten": r.unflatten, "reshape": r.reshape, "MultiAxis": axes.MultiAxis,
                "_flatten": axes._flatten, "transpose": r.transpose, "newaxis": r.newaxis, "squeeze": r.squeeze}

    # ------------------------------------------------------------ generation
    def flatten_step(self, rng, sim, k=None, explicit_insert=False, plain=False, among=None):
        """a flatten step on the current dimensions of `sim` (all spellings); updates sim"""
        names = sim.dims
        rank = len(names)
        if among is not None:
            plain = True
        how = rng.choice(["tuple", "list", "set", "varargs"])
        r = rng.random()
        reverse = False
        if not plain and k is None and r < 0.12:
            how, ds = "noarg", list(names)
            listed = []
        elif not plain and k is None and r < 0.30 and rank >= 2:
            # reverse=True: the listed dimensions are the ones to KEEP; the others are grouped (in array order)
            reverse = True
            listed = rng.sample(names, rng.randint(1, rank - 1))
            ds = [d for d in names if d not in listed]
        else:
            ds = rng.sample(among or names, k or rng.randint(1, len(among or names)))
            if how == "set":
                ds = [d for d in names if d in ds]       # a set is taken in array order
            listed = ds
        ins = None if (rng.random() < 0.5 and not explicit_insert) else rng.randint(0, rank - len(ds))
        st = {"fn": "flatten", "dims": ds, "how": how, "insert": ins}
        if reverse:
            st["reverse"] = True
        if how != "noarg":
            style = "name" if (plain and among is None) else rng.choice(["name", "name", "name", "pos", "neg", "mixed"])
            keys = []
            for d in listed:
                s = style if style != "mixed" else rng.choice(["name", "pos", "neg"])
                keys.append(sim.key(rng, names.index(d), s))
            if style != "name" or reverse:
                st["keys"] = keys
                st["spell"] = style
        sim.flatten(ds, ins)
        return st

    def gen_flatten(self, rng, arr=None, then=None):
        rank = rng.choice([1, 2, 2, 3, 3, 4])
        arr = arr or distinct_array(rng, rank)
        sim = Sim11(arr)
        steps = [self.flatten_step(rng, sim)]
        if then == "unflatten" or (then is None and rng.random() < 0.4):
            steps.append({"fn": "unflatten"})
        return {"op": "chain", "array": arr, "steps": steps}

    def reshape_target(self, rng, leaves, sizes, groups=0.35, extra=True, keep_order=False):
        keep = [d for d in leaves if sizes[d] != 1 or rng.random() < 0.6]
        if not keep_order:
            rng.shuffle(keep)
        if extra:
            free = [d for d in gen.DIMS + ["t", "u"] if d not in leaves]
            for d in rng.sample(free, min(len(free), rng.choice([0, 0, 1, 2]))):
                keep.insert(rng.randint(0, len(keep)), d)
        target = []
        i = 0
        while i < len(keep):
            if rng.random() < groups and i + 1 < len(keep):
                n = rng.randint(2, min(3, len(keep) - i))
                target.append(",".join(keep[i:i + n]))
                i += n
            else:
                target.append(keep[i]); i += 1
        return target

    def reshape_step(self, rng, sim, target, transpose_false=None):
        st = {"fn": "reshape", "newdims": target, "how": rng.choice(["list", "varargs", "tuple"])}
        if not target:
            st["how"] = rng.choice(["list", "tuple"])
        if transpose_false if transpose_false is not None else rng.random() < 0.25:
            st["transpose"] = False
        elif rng.random() < 0.1:
            st["transpose"] = True
        refused = st.get("transpose") is False and needs_transpose([n["name"] for n in sim.leaves()], target) \
            and list(target) != sim.dims
        if not refused:
            sim.reshape(target)
        return st, refused

    def gen_reshape(self, rng):
        rank = rng.choice([1, 2, 2, 3, 3, 4])
        arr = distinct_array(rng, rank)
        sim = Sim11(arr)
        sizes = {a["name"]: len(a["labels"]) for a in arr["axes"]}
        tf = rng.random() < 0.25
        # (transpose=False: half of the targets keep the order of the dimensions so that the call is accepted)
        target = self.reshape_target(rng, sim.dims, sizes, keep_order=tf and rng.random() < 0.6)
        st, refused = self.reshape_step(rng, sim, target, transpose_false=tf)
        steps = [st]
        c = {"op": "chain", "array": arr, "steps": steps}
        if refused:
            c["nolean"] = True
            return c
        if rng.random() < 0.3:
            steps.append({"fn": "unflatten"})
        return c

    def gen_flatten_reshape(self, rng):
        """flatten, then reshape to a target that re-splits, keeps or regroups the grouped axis"""
        rank = rng.choice([2, 3, 3, 4])
        arr = distinct_array(rng, rank)
        sim = Sim11(arr)
        sizes = {a["name"]: len(a["labels"]) for a in arr["axes"]}
        steps = [self.flatten_step(rng, sim, plain=rng.random() < 0.5)]
        names = [a["name"] for a in arr["axes"]]
        r = rng.random()
        if r < 0.35:
            tgt = names[:]
            rng.shuffle(tgt)
        elif r < 0.6:
            # the existing grouped axis is kept as it is, the others move around it (maybe a new singleton)
            tgt = list(sim.dims)
            rng.shuffle(tgt)
            if rng.random() < 0.3:
                tgt.insert(rng.randint(0, len(tgt)), "u")
        else:
            tgt = self.reshape_target(rng, names, sizes, groups=0.6, extra=rng.random() < 0.3)
        st, refused = self.reshape_step(rng, sim, tgt, transpose_false=rng.random() < 0.2)
        steps.append(st)
        c = {"op": "chain", "array": arr, "steps": steps}
        if refused:
            c["nolean"] = True
        elif rng.random() < 0.25:
            steps.append({"fn": "unflatten"})
        return c

    def gen_unflatten_axis(self, rng):
        """unflatten(axis=name | position): one grouped axis (same as unflatten()), or one among several"""
        rank = rng.choice([2, 3, 3, 4, 4])
        arr = distinct_array(rng, rank)
        sim = Sim11(arr)
        sizes = {a["name"]: len(a["labels"]) for a in arr["axes"]}
        mode = rng.random()
        if mode < 0.35:
            steps = [self.flatten_step(rng, sim, explicit_insert=True, plain=rng.random() < 0.6)]
        elif mode < 0.7 or rank < 4:
            # two grouped axes through two flattens of disjoint dimensions
            steps = [self.flatten_step(rng, sim, k=rng.randint(1, rank - 1), explicit_insert=True, plain=True)]
            left = [n["name"] for n in sim.nodes if n["members"] is None]
            steps.append(self.flatten_step(rng, sim, explicit_insert=True, among=left))
        else:
            # two grouped axes through reshape
            names = sim.dims[:]
            rng.shuffle(names)
            cut = rng.choice([1, 2, 2, 3])
            parts = [names[:cut], names[cut:]]
            target = []
            for p in parts:
                if len(p) >= 2 and rng.random() < 0.85:
                    n = rng.randint(2, len(p))
                    target.append(",".join(p[:n])); target += p[n:]
                else:
                    target += p
            st, _ = self.reshape_step(rng, sim, target, transpose_false=False)
            steps = [st]
        gs = sim.groups()
        c = {"op": "chain", "array": arr, "steps": steps}
        if not gs or (len(gs) > 1 and rng.random() < 0.2):
            steps.append({"fn": "unflatten"})
            return c
        g = rng.choice(gs)
        st = {"fn": "unflatten", "axis": sim.key(rng, g), "kw": rng.random() < 0.7}
        if len(gs) > 1:
            c["nolean"] = True          # the mirror's driver only knows unflatten() of every grouped axis
        sim.unflatten(g)
        steps.append(st)
        if len(gs) > 1 and rng.random() < 0.4:
            steps.append({"fn": "unflatten"})
        return c

    def gen_nested(self, rng):
        """flatten of an array that already has a grouped axis, and back"""
        rank = rng.choice([2, 3, 3, 4, 4])
        arr = distinct_array(rng, rank)
        sim = Sim11(arr)
        steps = [self.flatten_step(rng, sim, k=rng.randint(1, rank), plain=True)]
        # second flatten: includes the grouped axis
        names = sim.dims
        g = sim.groups()[0]
        others = [d for i, d in enumerate(names) if i != g]
        ds = [names[g]] + rng.sample(others, rng.randint(min(1, len(others)), len(others)) if rng.random() < 0.9 else 0)
        rng.shuffle(ds)
        how = rng.choice(["tuple", "list", "set", "varargs"])
        if how == "set":
            ds = [d for d in names if d in ds]
        ins = None if rng.random() < 0.5 else rng.randint(0, len(names) - len(ds))
        st = {"fn": "flatten", "dims": ds, "how": how, "insert": ins}
        if rng.random() < 0.3:
            st["keys"] = [sim.key(rng, names.index(d), rng.choice(["name", "pos", "neg"])) for d in ds]
            st["spell"] = "mixed"
        sim.flatten(ds, ins)
        steps.append(st)
        c = {"op": "chain", "array": arr, "steps": steps, "nolean": True}
        r = rng.random()
        if r < 0.35:
            steps.append({"fn": "unflatten"})
        elif r < 0.6:
            steps.append({"fn": "unflatten"}); steps.append({"fn": "unflatten"})
        return c

    def exhaustive(self):
        """every ordered subset and insert position for a fixed array of rank 1-4"""
        for rank in (1, 2, 3, 4):
            arr = {"axes": [{"name": gen.DIMS[i], "kind": ["i", "O", "f", "i"][i],
                             "labels": [gen.enc(v) for v in ([10, 20], ["a", "b", "c"], [0.5], [7, 5, 3, 1])[i]]} for i in range(rank)],
                   "vkind": "f"}
            names = [a["name"] for a in arr["axes"]]
            for k in range(1, rank + 1):
                for ds in itertools.permutations(names, k):
                    for ins in [None] + list(range(0, rank - k + 1)):
                        yield {"op": "chain", "array": arr, "steps": [{"fn": "flatten", "dims": list(ds), "how": "tuple", "insert": ins},
                                                                      {"fn": "unflatten"}]}
                        yield {"op": "chain", "array": arr, "steps": [{"fn": "flatten", "dims": list(ds), "how": "tuple", "insert": ins}]}
                        # the same subset by position (alternating positive / negative positions)
                        keys = [["pos", names.index(d) - (rank if j % 2 else 0)] for j, d in enumerate(ds)]
                        yield {"op": "chain", "array": arr, "steps": [{"fn": "flatten", "dims": list(ds), "how": "list", "insert": ins,
                                                                       "keys": keys, "spell": "pos"}]}
                # reverse=True: every non-empty proper subset is kept, the others are grouped in array order
                for kept in itertools.combinations(names, k):
                    ds = [d for d in names if d not in kept]
                    if not ds:
                        continue
                    for ins in [None] + list(range(0, rank - len(ds) + 1)):
                        yield {"op": "chain", "array": arr, "steps": [{"fn": "flatten", "dims": ds, "how": "tuple", "insert": ins, "reverse": True,
                                                                       "keys": [["name", d] for d in reversed(kept)], "spell": "name"},
                                                                      {"fn": "unflatten"}]}
            # no argument: all dimensions
            yield {"op": "chain", "array": arr, "steps": [{"fn": "flatten", "dims": names, "how": "noarg", "insert": None}]}

    def gen(self, rng, tier):
        n = 900 if tier == "quick" else 20000
        for _ in range(n):
            r = rng.random()
            if r < 0.36:
                yield self.gen_flatten(rng)
            elif r < 0.62:
                yield self.gen_reshape(rng)
            elif r < 0.76:
                yield self.gen_flatten_reshape(rng)
            elif r < 0.88:
                yield self.gen_unflatten_axis(rng)
            else:
                yield self.gen_nested(rng)
        for c in self.exhaustive():
            yield c
        for c in self.tuple_reductions(rng, 150 if tier == "quick" else 3000):
            yield c

    TRED_FUNCS = ["sum", "max", "mean", "cumsum", "cumprod", "argmax", "argmin", "diff"]

    def tuple_reductions(self, rng, n):
        """last clause of the statement: reducing (or scanning, or locating the extremum) over a tuple / list of dimensions
        equals doing so over the flattened group - in the LISTED order, which matters for the order-sensitive functions.
        Systematic part: every ordered subset of >= 2 dimensions (all of them included) of fixed rank-2 and rank-3 arrays x
        every function; then random arrays."""
        def fixed(rank):
            return {"axes": [{"name": gen.DIMS[i], "kind": ["i", "O", "f"][i],
                              "labels": [gen.enc(v) for v in ([10, 20], ["a", "b", "c"], [0.5, 1.5, 2.5, 3.5])[i]]}
                             for i in range(rank)], "vkind": "f"}
        for rank in (2, 3):
            arr = fixed(rank)
            names = [a["name"] for a in arr["axes"]]
            for k in range(2, rank + 1):
                for ds in itertools.permutations(names, k):
                    for fn in self.TRED_FUNCS:
                        yield {"op": "tred", "array": arr, "dims": list(ds), "fn": fn, "how": "tuple" if (len(fn) + k) % 2 else "list",
                               "nolean": True, "steps": []}
        for _ in range(n):
            rank = rng.choice([2, 3, 3, 4])
            arr = gen.rand_array(rng, rank=rank, maxn=3, minn=1, vkind="f")
            names = [a["name"] for a in arr["axes"]]
            k = rng.randint(2, rank)
            ds = rng.sample(names, k)
            spell = [d if rng.random() < 0.7 else names.index(d) for d in ds]
            yield {"op": "tred", "array": arr, "dims": ds, "spell": spell, "fn": rng.choice(self.TRED_FUNCS),
                   "how": rng.choice(["tuple", "list"]), "skipna": rng.random() < 0.3, "nolean": True, "steps": []}

    def impl_tred(self, c):
        toks = core.AttrTokens()
        a = core.build_array(c["array"], 0)
        before = obs11(a, toks)
        keys = c.get("spell", c["dims"])
        axis = tuple(keys) if c["how"] == "tuple" else list(keys)
        kw = {"skipna": True} if c.get("skipna") and c["fn"] != "diff" else {}

        def canon(r):
            if isinstance(r, DimArray):
                return {"arr": core.obs_array(r, toks)}
            if isinstance(r, tuple):
                return {"tuple": [core.enc_label(x) for x in r]}
            return {"scalar": core.canon_value(r)}

        def run():
            with warnings.catch_warnings():
                warnings.simplefilter("ignore")
                direct = getattr(a, c["fn"])(axis=axis, **kw)
                g = a.flatten(tuple(c["dims"]), insert=0)
                via = getattr(g, c["fn"])(axis=0, **kw)
                # NumPy on the plain values: the listed dimensions first, in the listed order, collapsed row-major
                names = [x["name"] for x in c["array"]["axes"]]
                perm = [names.index(d) for d in c["dims"]] + [i for i, d in enumerate(names) if d not in c["dims"]]
                v = a.values.transpose(perm)
                v = v.reshape((-1,) + v.shape[len(c["dims"]):])
                npf = {"sum": np.sum, "max": np.max, "mean": np.mean, "cumsum": np.cumsum, "cumprod": np.cumprod,
                       "argmax": np.argmax, "argmin": np.argmin, "diff": np.diff}[c["fn"]]
                ref = npf(v, axis=0)
                out = {"direct": canon(direct), "via": canon(via)}
                if c["fn"] in ("argmax", "argmin"):
                    sizes = [len(c["array"]["axes"][names.index(d)]["labels"]) for d in c["dims"]]
                    labs = [a.axes[d].values for d in c["dims"]]
                    def lab(p):
                        return core.enc_label(tuple(labs[i][q] for i, q in enumerate(np.unravel_index(int(p), sizes))))
                    out["ref"] = [lab(p) for p in np.asarray(ref).reshape(-1)]
                    got = direct.values.reshape(-1).tolist() if isinstance(direct, DimArray) else [direct]
                    out["got"] = [core.enc_label(tuple(x)) for x in got]
                else:
                    out["ref"] = [core.canon_value(x) for x in np.asarray(ref, dtype=float).reshape(-1)]
                    got = direct.values if isinstance(direct, DimArray) else direct
                    out["got"] = [core.canon_value(x) for x in np.asarray(got, dtype=float).reshape(-1)]
                return out
        out = core.guarded(run)
        out["input"] = before
        out["inter"] = []
        if obs11(a, toks) != before:
            out["operand_modified"] = True
        return out

    def judge_tred(self, c, io):
        bad = []
        if "err" in io:
            bad.append("outcome")
        else:
            o = io["ok"]
            if o["direct"] != o["via"]:
                bad.append("tuple_reduction_vs_flattened_group")
            if o["got"] != o["ref"]:
                bad.append("tuple_reduction_vs_numpy")
        if io.get("operand_modified"):
            bad.append("operand_modified")
        if not bad:
            return None
        return {"kind": "P", "differs": bad, "impl": io.get("ok", io)}

    exhaustive_tiers = {"quick": True, "thorough": True}

    # ------------------------------------------------------------ implementation side
    def impl(self, c):
        if c["op"] == "tred":
            return self.impl_tred(c)
        toks = core.AttrTokens()
        a = core.build_array(c["array"], 0)
        before = obs11(a, toks)
        inter = []

        def run():
            cur = a
            for st in c["steps"]:
                cur = apply_step11(cur, st)
                inter.append(obs11(cur, toks))
            return inter[-1]
        out = core.guarded(run)
        out["input"] = before
        out["inter"] = inter
        if obs11(a, toks) != before:
            out["operand_modified"] = True
        return out

    def request(self, c):
        if c.get("nolean"):
            return dict(DUMMY)
        toks = core.AttrTokens()
        return {"op": "chain", "arrays": [core.lean_array(gen.clean(c["array"]), toks)],
                "steps": [lean_step11(st) for st in c["steps"]]}

    def judge(self, c, io, ans):
        if c["op"] == "tred":
            return self.judge_tred(c, io)
        bad, prop_bad = [], []
        lean = None
        if not c.get("nolean"):
            lean = ans["lib"]
            if "ok" in lean:
                a = core.build_array(c["array"], 0)
                lo = core.lean_obs_to_canon(lean["ok"], core.CellEnv([a.values])); lo["scalar"] = False
                lean = {"ok": lo}
            d = core.diff_obs(io, lean)
            bad += [("M." + x if x == "errclass" else x) for x in d]
        steps = c["steps"]
        # step by step, on what the implementation returned
        prev = io["input"]
        for i, (st, cur) in enumerate(zip(steps, io["inter"])):
            tag = "" if i == 0 else "@%d:" % i
            sb = []
            if st["fn"] == "flatten":
                sb += check_flatten_axis(prev, cur, st["dims"], st.get("insert"))
            elif st["fn"] == "unflatten":
                sb += check_unflatten(prev, cur, st.get("axis"))
            elif st["fn"] == "reshape":
                sb += check_reshape(prev, cur, st["newdims"])
            if i > 0 or len(steps) > 1:
                sb += check_grouping(prev, cur)
            if cur["attrs"] != prev["attrs"]:
                sb.append("attrs")
            prop_bad += [tag + x for x in sb]
            prev = cur
        refused = False
        if len(io["inter"]) == len(steps) - 1 and steps[-1]["fn"] == "reshape" and steps[-1].get("transpose") is False:
            lv = [ax["name"] for ax in leaf_axes(prev["axes"])]
            refused = needs_transpose(lv, steps[-1]["newdims"]) and list(steps[-1]["newdims"]) != prev["dims"]
        if "ok" in io:
            prop_bad += check_grouping(io["input"], io["ok"])
            only_fu = all(s["fn"] in ("flatten", "unflatten") for s in steps)
            prop_bad += check_leaf_axes(io["input"], io["ok"], attrs=only_fu)
            if io["ok"]["attrs"] != io["input"]["attrs"]:
                prop_bad.append("attrs")
            last = steps[-1]
            if last["fn"] == "reshape" and last.get("transpose") is False:
                lv = [ax["name"] for ax in leaf_axes((io["inter"][-2] if len(io["inter"]) > 1 else io["input"])["axes"])]
                before_dims = (io["inter"][-2] if len(io["inter"]) > 1 else io["input"])["dims"]
                if needs_transpose(lv, last["newdims"]) and list(last["newdims"]) != before_dims:
                    prop_bad.append("outcome:transposed_despite_transpose_false")
            if last["fn"] == "unflatten" and last.get("axis") is None and not c.get("nolean") \
                    and any(ax.get("members") for ax in io["ok"]["axes"]):
                prop_bad.append("axes:still_grouped")
            if last["fn"] == "unflatten" and only_fu and not any(ax.get("members") for ax in io["ok"]["axes"]):
                # unflatten restores the member axes exactly
                ia = {ax["name"]: axis_sig(ax) for ax in io["input"]["axes"]}
                oa = {ax["name"]: axis_sig(ax) for ax in io["ok"]["axes"]}
                if ia != oa:
                    prop_bad.append("axes:restored")
        elif refused:
            if io["err"] == "recursion":
                prop_bad.append("outcome:recursion")
        elif c.get("nolean") or (lean is not None and "ok" in lean):
            prop_bad.append("outcome:" + io["err"])
        elif io["err"] == "recursion":
            prop_bad.append("outcome:recursion")
        if io.get("operand_modified"):
            prop_bad.append("operand_modified")
        if not bad and not prop_bad:
            return None
        return {"kind": "P" if prop_bad else "M", "differs": sorted(set(bad + prop_bad)), "msg": io.get("msg"),
                "trace": ans.get("trace")}

    def nontrivial(self, c):
        if c["op"] == "tred":
            return True
        st = c["steps"][0]
        return (st["fn"] == "flatten" and len(st["dims"]) >= 2) or (st["fn"] == "reshape" and len(c["array"]["axes"]) >= 2)

    def features(self, c, io):
        f = {"outcome": "err:" + io["err"] if "err" in io else "ok", "rank": len(c["array"]["axes"]), "len": len(c["steps"]),
             "model": "oracle-only" if c.get("nolean") else "lean"}
        if c["op"] == "tred":
            names = [x["name"] for x in c["array"]["axes"]]
            pos = [names.index(d) for d in c["dims"]]
            f.update({"fn:tuple_" + c["fn"]: 1, "k": len(c["dims"]), "how": c["how"], "tred.all_dims": len(c["dims"]) == len(names),
                      "tred.array_order": pos == sorted(pos), "tred.skipna": bool(c.get("skipna"))})
            return f
        for s in c["steps"]:
            f["fn:" + s["fn"]] = 1
        st = c["steps"][0]
        if st["fn"] == "flatten":
            f["how"] = st["how"]; f["insert"] = st["insert"]; f["k"] = len(st["dims"])
        fl = [s for s in c["steps"] if s["fn"] == "flatten"]
        if fl:
            f["flatten.spell"] = "+".join(sorted(set(("reverse:" if s.get("reverse") else "") + s.get("spell", "name") for s in fl)))
            f["flatten.reverse"] = any(s.get("reverse") for s in fl)
            f["flatten.n"] = len(fl)
        un = [s for s in c["steps"] if s["fn"] == "unflatten"]
        if un:
            f["unflatten.axis"] = "+".join(sorted(set("none" if s.get("axis") is None else s["axis"][0] + ("<0" if s["axis"][0] == "pos" and s["axis"][1] < 0 else "") for s in un)))
        rs = [s for s in c["steps"] if s["fn"] == "reshape"]
        if rs:
            f["reshape.transpose"] = str(rs[-1].get("transpose"))
            f["reshape.how"] = rs[-1].get("how")
            f["reshape.groups"] = sum(1 for t in rs[-1]["newdims"] if "," in t)
            f["reshape.after_flatten"] = c["steps"][0]["fn"] == "flatten"
        if "ok" in io or io.get("inter"):
            f["group_of_group"] = any(m.get("members") for o in io.get("inter", []) for ax in o["axes"] for m in ax.get("members") or [])
        return f

    def size(self, c):
        return 10 * len(c["steps"]) + sum(len(a["labels"]) for a in c["array"]["axes"]) + 5 * len(c["array"]["axes"])

    def reducers(self, c):
        out = []
        if len(c["steps"]) > 1:
            c2 = copy.deepcopy(c); c2["steps"].pop()
            out.append(c2)
        return out

    def snippet(self, c):
        return ("import sys; sys.path.insert(0, '/verif/harness'); import json, core; from props.c11 import PROP; "
                "case = json.load(open(REPLAY))['case']; print(PROP.impl(case))")


PROP = C11()

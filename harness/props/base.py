"""Base class of the per-property plugins used by run.py."""
import json


class Prop:
    id = "C00"
    theorems = []
    rule = ""
    assumptions = []
    trusted_base = [
        "Lean 4.33 kernel; axioms of every property theorem audited with #print axioms (subset of propext, Classical.choice, Quot.sound)",
        "hand-written Lean mirror (Lib) tied to /repo by the differential correspondence of this run",
        "Prim: modelled NumPy / Python primitives (conformance-tested, not verified)",
        "harness: generator, canonicaliser, symbolic-cell evaluator, JSON line protocol, Lean driver parser",
    ]
    P_OBS = ("outcome", "errclass", "dims", "shape", "axes", "axes.name", "axes.labels", "axes.members", "values", "attrs", "axes.attrs")
    M_OBS = ("axes.kind", "vkind")

    def corpus(self):
        """minimised past failures (replays of repaired defects and witnesses of open findings) of this
        property: they run first on every run"""
        import glob, os
        out = []
        d = os.path.join(os.path.dirname(os.path.dirname(os.path.dirname(os.path.abspath(__file__)))), "findings")
        for f in sorted(glob.glob(os.path.join(d, "*.json"))):
            try:
                j = json.load(open(f))
            except Exception:
                continue
            if j.get("property") == self.id and isinstance(j.get("case"), dict) and j.get("corpus", True):
                c = dict(j["case"])
                c["_corpus"] = os.path.basename(f)
                out.append(c)
        return out

    def gen(self, rng, tier):
        return []

    def nontrivial(self, c):
        return True

    def features(self, c, io):
        return {"outcome": "err:" + io["err"] if "err" in io else "ok"}

    def size(self, c):
        return len(json.dumps(c))

    def known(self, c, io, ans, mm, open_findings):
        return None

    def snippet(self, c):
        return "see harness/props/%s.py: PROP.impl(case)" % self.id.lower()

    def mirrors(self):
        return {}

    def classify(self, bad, pre=True):
        """mismatch record from the list of differing observables"""
        if not bad:
            return None
        p = [b for b in bad if b in self.P_OBS]
        return {"kind": "P" if (p and pre) else "M", "differs": bad, "pre": pre}

"""C19 - serialisation round-trips: JSON and netCDF (netCDF half against the vendored stand-in)."""
import copy, itertools, json, math, os, shutil, warnings
from fractions import Fraction
import numpy as np
import core, gen
from core import da, Axis, DimArray, Dataset
from .base import Prop
from .c06 import lab_key
from .c08 import nan_pattern

NCDIR = os.path.join(core.WORK, "nc")

ATTR_VALUES = ["K", 3, 2.5, [1, 2, 3], [1.5, 2.5], "long text with spaces"]


def attrs_for(rng, n=2):
    keys = rng.sample(["units", "long_name", "scale", "levels", "history", "comment", "_source", "_levels", "Conventions", "valid_min"], rng.randint(0, n))
    return {k: rng.choice(ATTR_VALUES) for k in keys}


def canon_attr(v):
    if isinstance(v, np.ndarray):
        return [canon_attr(x) for x in v.tolist()]
    if isinstance(v, (list, tuple)):
        return [canon_attr(x) for x in v]
    if isinstance(v, (np.integer,)):
        return int(v)
    if isinstance(v, (np.floating,)):
        return float(v)
    if isinstance(v, dict):
        return {k: canon_attr(x) for k, x in v.items()}
    return v


def canon_attrs(d):
    return {k: canon_attr(v) for k, v in dict(d).items()}


def obs(a):
    o = core.obs_array(a)
    if isinstance(a, DimArray):
        o["attrs_py"] = canon_attrs(a.attrs)
        o["axes_attrs"] = [canon_attrs(ax.attrs) for ax in a.axes]
        o["dtype"] = a.values.dtype.kind
    return o


def gen_ds(rng, netcdf3=False):
    ndims = rng.randint(1, 3)
    dims = rng.sample(gen.DIMS, ndims)
    axes = {}
    for d in dims:
        kind = rng.choice(["i", "f"]) if netcdf3 else rng.choice(["i", "f", "O"])
        ax = gen.clean(gen.rand_axis(rng, d, kind=kind, n=rng.randint(1, 3)))
        ax["attrs_py"] = attrs_for(rng, 1)
        axes[d] = ax
    nv = rng.randint(0, 4)
    vars_ = {}
    for k in range(nv):
        sub = [d for d in dims if rng.random() < 0.6]
        rng.shuffle(sub)
        vk = rng.choice(["f", "f", "i", "i32"] if netcdf3 else ["f", "f", "i", "i32", "O"])
        shape = [len(axes[d]["labels"]) for d in sub]
        vars_["v%d" % k] = {"dims": sub, "vkind": vk, "attrs_py": attrs_for(rng), "nan_at": nan_pattern(rng, shape, rng.choice(["none", "some"])) if vk == "f" and sub else []}
    used = [d for d in dims if any(d in v["dims"] for v in vars_.values())]
    return {"axes": {d: axes[d] for d in used}, "dims": used, "vars": vars_, "attrs": attrs_for(rng)}


def build_var(dd, key, base=0):
    v = dd["vars"][key]
    axes = []
    for d in v["dims"]:
        ax = core.build_axis(dd["axes"][d])
        axes.append(ax)
    shape = tuple(len(dd["axes"][d]["labels"]) for d in v["dims"])
    kind = "i" if v["vkind"] == "i32" else v["vkind"]
    vals = core.make_values(shape, kind, base, v.get("nan_at", ()))
    if v["vkind"] == "i32":
        vals = vals.astype(np.int32)
    a = DimArray(vals, axes=axes)
    for k2, x in v.get("attrs_py", {}).items():
        a.attrs[k2] = copy.deepcopy(x)
    return a


def build_ds(dd, base=0):
    ds = Dataset()
    for i, key in enumerate(dd["vars"]):
        ds[key] = build_var(dd, key, base + i)
    for k, v in dd["attrs"].items():
        ds.attrs[k] = copy.deepcopy(v)
    return ds


def obs_dataset(ds):
    out = {"keys": list(ds.keys()), "dims": list(ds.dims), "attrs": canon_attrs(ds.attrs), "vars": {},
           "axes": {ax.name: {"labels": [core.enc_label(v) for v in ax.values.tolist()], "attrs": canon_attrs(ax.attrs)} for ax in ds.axes}}
    for k in ds.keys():
        out["vars"][k] = obs(ds[k])
    return out


class C19(Prop):
    id = "C19"
    theorems = ["flat_nest", "inferShape_nest", "json_roundtrip", "nc_roundtrip", "nc_append_keeps", "nc_writeVar_dims"]
    rule = ("JSON: arrays of rank 0-3 (float with NaN, int, str values), int/float/str labels in any order, str/int/float/"
            "list/nested-dict metadata; from_json(to_json(a)) and the structure of the JSON text. netCDF (vendored stand-in "
            "for netCDF4): Datasets of 0-4 variables (0-d to 3-d; float with NaN, int64, int32, str) over shared and unshared "
            "dimensions, metadata on the three levels; write sequences mixing Dataset.write_nc, DimArray.write_nc(mode='a' / "
            "'a+') and open_nc(f, 'a')[name] = array; NETCDF4 and NETCDF3_CLASSIC. Non-trivial = at least one variable of "
            "rank >= 1; distinct = canonical JSON")
    assumptions = ["PARTIAL (netCDF half): the vendored stand-in's fidelity to netCDF4-python / libnetcdf (type mapping, "
                   "masked arrays, vlen strings, unlimited dimensions, index rules) is assumed and cannot be checked here"]

    def mirrors(self):
        import sys as _s
        ncio = _s.modules.get("dimarray.io.nc")
        from dimarray.core import dimarraycls
        d = _s.modules["dimarray.dataset"]
        out = {"to_jsondict": dimarraycls.DimArray.to_jsondict, "from_jsondict": dimarraycls.DimArray.from_jsondict,
               "Dataset.write_nc": d.Dataset.write_nc, "DimArray.write_nc": dimarraycls.DimArray.write_nc}
        if ncio:
            out.update({"DatasetOnDisk.write": ncio.DatasetOnDisk.write, "DatasetOnDisk.read": ncio.DatasetOnDisk.read,
                        "AxesOnDisk.append": ncio.AxesOnDisk.append, "AxisOnDisk.__setitem__": ncio.AxisOnDisk.__setitem__,
                        "maybe_encode_values": ncio.maybe_encode_values, "_maybe_open_file": ncio._maybe_open_file,
                        "DimArrayOnDisk.write": ncio.DimArrayOnDisk.write, "AttrsOnDisk.__setitem__": ncio.AttrsOnDisk.__setitem__})
        return out

    def gen(self, rng, tier):
        n = 500 if tier == "quick" else 10000
        for i in range(n):
            if rng.random() < 0.4:
                rank = rng.choice([0, 1, 2, 2, 3])
                arr = gen.rand_array(rng, rank=rank, maxn=3, minn=0 if rng.random() < 0.1 else 1)
                arr["vkind"] = rng.choice(["f", "f", "i", "O"])
                shape = [len(a["labels"]) for a in arr["axes"]]
                if 0 in shape[:-1]:
                    continue     # nested lists cannot express e.g. shape (0, 3): not JSON-representable (Serial.Representable)
                arr["nan_at"] = nan_pattern(rng, shape, rng.choice(["none", "some"])) if arr["vkind"] == "f" else []
                meta = attrs_for(rng, 3)
                if rng.random() < 0.3:
                    meta["nested"] = {"a": 1, "b": [1, "x"]}
                if rng.random() < 0.35:
                    # JSON-representable values that are falsy in Python
                    for k in rng.sample(["zero", "fzero", "empty", "nolist", "flag"], rng.randint(1, 3)):
                        meta[k] = {"zero": 0, "fzero": 0.0, "empty": "", "nolist": [], "flag": False}[k]
                if rng.random() < 0.25:
                    # keys that are also names of attributes or methods of the class: they are metadata all the same
                    for k in rng.sample(["shape", "T", "size", "mean", "labels"], rng.randint(1, 2)):
                        meta[k] = rng.choice(["round", 7, [1, 2]])
                c = {"op": "json", "array": gen.clean(arr), "meta": meta}
                if rng.random() < 0.3:
                    # an entry that json cannot represent, set BEFORE the others: it may be dropped, the others may not
                    c["unrepresentable_first"] = rng.choice(["ndarray", "set", "float32"])
                yield c
            else:
                fmt = rng.choice(["NETCDF4", "NETCDF4", "NETCDF3_CLASSIC"])
                dd = gen_ds(rng, netcdf3=fmt.startswith("NETCDF3"))
                steps = [{"how": "dataset"}]
                # append more variables by the other entry points
                for j in range(rng.randint(0, 2)):
                    how = rng.choice(["dimarray_a", "dimarray_a+", "open_setitem", "dataset_a", "dataset_a+"])
                    sub = [d for d in dd["dims"] if rng.random() < 0.6]
                    vk = rng.choice(["f", "i"])
                    steps.append({"how": how, "key": "w%d" % j, "dims": sub, "vkind": vk, "attrs_py": attrs_for(rng)})
                yield {"op": "nc", "ds": dd, "format": fmt, "steps": steps, "seed": i}

    # ------------------------------------------------------------ implementation side
    def impl(self, c):
        with warnings.catch_warnings():
            warnings.simplefilter("ignore")
            if c["op"] == "json":
                a = core.build_array(c["array"], 0)
                if c.get("unrepresentable_first"):
                    a.attrs["weights"] = {"ndarray": np.arange(3.), "set": {1, 2}, "float32": np.float32(1.5)}[c["unrepresentable_first"]]
                for k, v in c["meta"].items():
                    a.attrs[k] = copy.deepcopy(v)
                before = obs(a)

                def run():
                    s = a.to_json()
                    b = DimArray.from_json(s)
                    return {"text": json.loads(s.replace("NaN", '"NaN"')), "back": obs(b)}
                out = core.guarded(run)
                out["input"] = before
                if obs(a) != before:
                    out["operand_modified"] = True
                return out
            os.makedirs(NCDIR, exist_ok=True)
            path = os.path.join(NCDIR, "c19_%d_%d.nc" % (os.getpid(), c["seed"]))
            if os.path.exists(path):
                os.remove(path)
            dd = c["ds"]
            ds = build_ds(dd)
            before = obs_dataset(ds)
            expected = dict(before["vars"])
            extra_before = {}
            ds_attrs_added = {}

            def run():
                ds.write_nc(path, format=c["format"])
                after_first = obs_dataset(da.read_nc(path))
                for st in c["steps"][1:]:
                    ddv = {"axes": dd["axes"], "vars": {st["key"]: {"dims": st["dims"], "vkind": st["vkind"], "attrs_py": st["attrs_py"]}}}
                    a = build_var(ddv, st["key"], 50)
                    extra_before[st["key"]] = obs(a)
                    if st["how"] == "dimarray_a":
                        a.write_nc(path, st["key"], mode="a")
                    elif st["how"] == "dimarray_a+":
                        a.write_nc(path, st["key"], mode="a+")
                    elif st["how"] in ("dataset_a", "dataset_a+"):
                        d2 = Dataset({st["key"]: a})
                        d2.attrs["appended_" + st["key"]] = "yes"          # dataset-level metadata of the appended dataset
                        ds_attrs_added["appended_" + st["key"]] = "yes"
                        d2.write_nc(path, mode=st["how"][8:])
                    else:
                        f = da.open_nc(path, mode="a")
                        f[st["key"]] = a
                        f.close()
                    expected[st["key"]] = obs(a)
                    if obs(a) != extra_before[st["key"]]:
                        raise AssertionError("write modified the in-memory array")
                return {"first": after_first, "final": obs_dataset(da.read_nc(path))}
            out = core.guarded(run)
            out["input"] = before
            out["expected_vars"] = expected
            out["expected_ds_attrs"] = dict(before["attrs"], **ds_attrs_added)
            if obs_dataset(ds) != before:
                out["operand_modified"] = True
            try:
                os.remove(path)
            except OSError:
                pass
            return out

    def request(self, c):
        return {"op": "union", "a": {"name": "x", "kind": "i", "labels": []}, "b": {"name": "x", "kind": "i", "labels": []}, "join": "outer"}

    def cmp_var(self, got, want, tag, netcdf3=False):
        bad = []
        if got["dims"] != want["dims"]:
            bad.append(tag + ".dims")
        if got["values"] != want["values"]:
            bad.append(tag + ".values")
        if got.get("dtype") != want.get("dtype"):
            bad.append(tag + ".dtype_kind")
        if [(x["name"], [lab_key(l) for l in x["labels"]]) for x in got["axes"]] != [(x["name"], [lab_key(l) for l in x["labels"]]) for x in want["axes"]]:
            bad.append(tag + ".labels")
        if got.get("attrs_py") != want.get("attrs_py"):
            bad.append(tag + ".attrs")
        return bad

    def judge(self, c, io, ans):
        prop_bad = []
        if "err" in io:
            prop_bad.append("outcome:" + io["err"])
        elif c["op"] == "json":
            o = io["ok"]
            inp = io["input"]
            back = o["back"]
            for k in ("dims", "shape", "values"):
                if back[k] != inp[k]:
                    prop_bad.append("json." + k)
            if [(x["name"], [lab_key(l) for l in x["labels"]]) for x in back["axes"]] != [(x["name"], [lab_key(l) for l in x["labels"]]) for x in inp["axes"]]:
                prop_bad.append("json.labels")
            want_attrs = dict(inp.get("attrs_py") or {})
            got_attrs = dict(back.get("attrs_py") or {})
            if c.get("unrepresentable_first"):
                want_attrs.pop("weights", None); got_attrs.pop("weights", None)     # representable metadata is what must survive
            if got_attrs != want_attrs:
                prop_bad.append("json.attrs")
            t = o["text"]
            if t.get("dims") != inp["dims"] or t.get("shape") != inp["shape"] or t.get("ndim") != len(inp["dims"]):
                prop_bad.append("json.text")
        else:
            o = io["ok"]
            inp = io["input"]
            n3 = c["format"].startswith("NETCDF3")
            # the file written by Dataset.write_nc
            first = o["first"]
            if sorted(first["keys"]) != sorted(inp["keys"]):
                prop_bad.append("nc.keys")
            else:
                for k in inp["keys"]:
                    prop_bad += self.cmp_var(first["vars"][k], inp["vars"][k], "nc." + k, n3)
            if first["attrs"] != inp["attrs"]:
                prop_bad.append("nc.dataset_attrs")
            for d, ax in inp["axes"].items():
                if d not in first["axes"]:
                    prop_bad.append("nc.axis_missing")
                else:
                    if [lab_key(l) for l in first["axes"][d]["labels"]] != [lab_key(l) for l in ax["labels"]]:
                        prop_bad.append("nc.axis_labels")
                    if first["axes"][d]["attrs"] != ax["attrs"]:
                        prop_bad.append("nc.axis_attrs")
            # appended variables; what was there is kept
            final = o["final"]
            for k, want in io["expected_vars"].items():
                if k not in final["vars"]:
                    prop_bad.append("nc.append_lost:" + k)
                else:
                    prop_bad += self.cmp_var(final["vars"][k], want, "nc.final." + k, n3)
            if final["attrs"] != io.get("expected_ds_attrs", inp["attrs"]):
                prop_bad.append("nc.final.dataset_attrs")
        if io.get("operand_modified"):
            prop_bad.append("operand_modified")
        if not prop_bad:
            return None
        return {"kind": "P", "differs": sorted(set(prop_bad)), "msg": io.get("msg")}

    def known(self, c, io, ans, mm, open_findings):
        return None

    def nontrivial(self, c):
        if c["op"] == "json":
            return len(c["array"]["axes"]) >= 1
        return any(v["dims"] for v in c["ds"]["vars"].values())

    def features(self, c, io):
        f = {"outcome": "err:" + io["err"] if "err" in io else "ok", "op": c["op"]}
        if c["op"] == "nc":
            f["format"] = c["format"]; f["nvars"] = len(c["ds"]["vars"]); f["nsteps"] = len(c["steps"])
            for st in c["steps"]:
                f["how:" + st["how"]] = 1
            for v in c["ds"]["vars"].values():
                f["vkind:" + v["vkind"]] = 1
        else:
            f["rank"] = len(c["array"]["axes"]); f["vkind"] = c["array"]["vkind"]
        return f

    def size(self, c):
        return len(json.dumps(c))

    def snippet(self, c):
        return ("import sys; sys.path.insert(0, '/verif/harness'); import json, core; from props.c19 import PROP; "
                "case = json.load(open(REPLAY))['case']; print(PROP.impl(case))")


PROP = C19()
